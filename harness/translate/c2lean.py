"""c2lean — translate the body of `websocket_mask` in tornado/speedups.c into a Lean 4 model (C18).

The translator is *syntax directed*: every C statement of a small whitelisted subset becomes one call of a
primitive of `lean/TornadoModel/C18/CSem.lean` (load/store of little-endian words at byte offsets, unsigned
wrap-around, `whileFuel`, `alloc`, `finish`).  It does not know what the routine is meant to compute, so an
edited source (other loop bound, other index, other stride) yields a different model, and the hand-written
proof in `C18/Lemmas.lean` / `C18/Props.lean` about `Gen.websocketMask` stops checking.

Whitelisted subset (anything else raises `Unsupported` — the caller reports a broken proof obligation):
  declarations           `const char *p;  char *p;  Py_ssize_t n;  uint32_t w;  uint64_t w;  PyObject *r;`
  argument parsing       `if (!PyArg_ParseTuple(args, "s#s#", &A, &AL, &B, &BL)) { return NULL; }`
  raising                `if (COND) { PyErr_SetString(PyExc_X, "..."); return NULL; }`
  result buffer          `r = PyBytes_FromStringAndSize(NULL, E);  if (!r) { return NULL; }  p = PyBytes_AsString(r);`
  assignments            `v = E;  v += E;  v -= E;  v ^= E;  v |= E;  v &= E;  v++;  v--;`
  stores                 `p[E] = E;   ((uintN_t *)p)[E] = E;`            (result buffer only)
  loads                  `p[E]`, `((uintN_t *)p)[E]`                     (argument buffers only, not in conditions)
  control                `if (COND) {…} [else {…}]`, `while (COND) {…}`, `for (v = E; COND; v++|v += E) {…}`
  expressions            integer literals, variables, `sizeof(size_t)`, `^ | & << >>` on unsigned/byte values,
                         `+ - *` and `%` (by a positive literal) on signed values, comparisons, `! && ||`
  `return r;`            where r is the result object
Integer model: `Py_ssize_t`/`int`/pointer offsets are mathematical integers (signed overflow is undefined in C
and not reachable for buffer-sized values); `uint32_t`/`uint64_t` wrap on assignment and on `<<`; `char` values
are bytes 0..255 and a store truncates to the cell width (for `^ | &` the two's-complement result of the
promoted signed chars truncated to 8 bits equals the bit operation on the unsigned bytes).
"""
from __future__ import annotations
import hashlib, os, re, struct, sys

FUNC = "websocket_mask"


class Unsupported(Exception):
    pass


# --------------------------------------------------------------------------------------------- lexer
TOKEN_RE = re.compile(r"""
    (?P<ws>\s+)
  | (?P<num>0[xX][0-9a-fA-F]+|[0-9]+)(?P<suffix>[uUlL]*)
  | (?P<id>[A-Za-z_][A-Za-z0-9_]*)
  | (?P<str>"(?:[^"\\\n]|\\.)*")
  | (?P<op><<=|>>=|\+\+|--|<<|>>|<=|>=|==|!=|&&|\|\||\+=|-=|\^=|\|=|&=|\*=|/=|%=|->|[-+*/%<>=!~^|&()\[\]{};,.?:])
""", re.X)


def strip_comments(src):
    src = re.sub(r"/\*.*?\*/", lambda m: " " * 1 + "\n" * m.group(0).count("\n"), src, flags=re.S)
    src = re.sub(r"//[^\n]*", "", src)
    return src


def lex(text):
    toks, i = [], 0
    while i < len(text):
        m = TOKEN_RE.match(text, i)
        if not m:
            raise Unsupported("cannot tokenise at %r" % text[i:i + 30])
        i = m.end()
        if m.group("ws"):
            continue
        if m.group("num") is not None:
            toks.append(("num", int(m.group("num"), 0)))
        elif m.group("id"):
            toks.append(("id", m.group("id")))
        elif m.group("str"):
            toks.append(("str", m.group("str")[1:-1]))
        else:
            toks.append(("op", m.group("op")))
    return toks


def function_body(src, name):
    """text between the braces of `static PyObject *name(...)`"""
    src = strip_comments(src)
    m = re.search(r"static\s+PyObject\s*\*\s*%s\s*\(\s*PyObject\s*\*\s*self\s*,\s*PyObject\s*\*\s*args\s*\)\s*\{" % re.escape(name), src)
    if not m:
        raise Unsupported("definition `static PyObject *%s(PyObject *self, PyObject *args)` not found" % name)
    depth, i = 1, m.end()
    while i < len(src) and depth:
        c = src[i]
        if c == '"':
            j = i + 1
            while src[j] != '"':
                j += 2 if src[j] == "\\" else 1
            i = j
        elif c == "{":
            depth += 1
        elif c == "}":
            depth -= 1
        elif c == "#" and src[:i].rstrip(" \t").endswith("\n"):
            raise Unsupported("preprocessor directive inside %s" % name)
        i += 1
    if depth:
        raise Unsupported("unbalanced braces in %s" % name)
    return src[m.end():i - 1]


# --------------------------------------------------------------------------------------------- parser
TYPE_WORDS = {"const", "char", "unsigned", "signed", "int", "long", "Py_ssize_t", "uint8_t", "uint32_t",
              "uint64_t", "size_t", "PyObject", "ssize_t"}
BINARY_LEVELS = [["||"], ["&&"], ["|"], ["^"], ["&"], ["==", "!="], ["<", "<=", ">", ">="], ["<<", ">>"],
                 ["+", "-"], ["*", "/", "%"]]
ASSIGN_OPS = {"=", "+=", "-=", "^=", "|=", "&=", "<<=", ">>=", "*=", "/=", "%="}


class Parser:
    def __init__(self, toks):
        self.t, self.i = toks, 0

    def peek(self, k=0):
        return self.t[self.i + k] if self.i + k < len(self.t) else ("eof", None)

    def next(self):
        tok = self.peek()
        self.i += 1
        return tok

    def accept(self, kind, val=None):
        tok = self.peek()
        if tok[0] == kind and (val is None or tok[1] == val):
            self.i += 1
            return True
        return False

    def expect(self, kind, val=None):
        tok = self.next()
        if tok[0] != kind or (val is not None and tok[1] != val):
            raise Unsupported("expected %s %r, found %r" % (kind, val, tok))
        return tok[1]

    # types ------------------------------------------------------------------
    def at_type(self, k=0):
        tok = self.peek(k)
        return tok[0] == "id" and tok[1] in TYPE_WORDS

    def parse_type(self):
        words = []
        while self.at_type():
            words.append(self.next()[1])
        ptr = 0
        while self.accept("op", "*"):
            ptr += 1
            while self.peek() == ("id", "const"):
                self.next()
        const = "const" in words
        base = " ".join(w for w in words if w != "const")
        return (base, ptr, const)

    # statements -------------------------------------------------------------
    def block(self):
        if self.accept("op", "{"):
            out = []
            while not self.accept("op", "}"):
                out.append(self.statement())
            return out
        return [self.statement()]

    def statement(self):
        tok = self.peek()
        if tok == ("op", ";"):
            self.next()
            return ("empty",)
        if tok == ("op", "{"):
            return ("block", self.block())
        if tok[0] == "id" and tok[1] in TYPE_WORDS:
            ty = self.parse_type()
            name = self.expect("id")
            if self.peek() != ("op", ";"):
                raise Unsupported("declaration of %s with initialiser/array/list is outside the subset" % name)
            self.next()
            return ("decl", ty, name)
        if tok == ("id", "if"):
            self.next()
            self.expect("op", "(")
            c = self.expr()
            self.expect("op", ")")
            th = self.block()
            el = None
            if self.accept("id", "else"):
                el = self.block()
            return ("if", c, th, el)
        if tok == ("id", "while"):
            self.next()
            self.expect("op", "(")
            c = self.expr()
            self.expect("op", ")")
            return ("while", c, self.block())
        if tok == ("id", "for"):
            self.next()
            self.expect("op", "(")
            init = self.simple()
            self.expect("op", ";")
            c = self.expr()
            self.expect("op", ";")
            step = self.simple()
            self.expect("op", ")")
            return ("for", init, c, step, self.block())
        if tok == ("id", "return"):
            self.next()
            e = self.expr()
            self.expect("op", ";")
            return ("return", e)
        if tok[0] == "id" and tok[1] in ("do", "switch", "goto", "break", "continue", "case", "default"):
            raise Unsupported("`%s` is outside the subset" % tok[1])
        s = self.simple()
        self.expect("op", ";")
        return s

    def simple(self):
        lhs = self.expr()
        tok = self.peek()
        if tok[0] == "op" and tok[1] in ASSIGN_OPS:
            self.next()
            rhs = self.expr()
            return ("assign", tok[1], lhs, rhs)
        return ("expr", lhs)

    # expressions ------------------------------------------------------------
    def expr(self, level=0):
        if level == len(BINARY_LEVELS):
            return self.unary()
        lhs = self.expr(level + 1)
        while self.peek()[0] == "op" and self.peek()[1] in BINARY_LEVELS[level]:
            op = self.next()[1]
            rhs = self.expr(level + 1)
            lhs = ("bin", op, lhs, rhs)
        if level == 0 and self.peek() == ("op", "?"):
            raise Unsupported("conditional operator is outside the subset")
        return lhs

    def unary(self):
        tok = self.peek()
        if tok == ("op", "!"):
            self.next()
            return ("not", self.unary())
        if tok == ("op", "&"):
            self.next()
            return ("addr", self.unary())
        if tok == ("op", "-"):
            self.next()
            return ("neg", self.unary())
        if tok[0] == "op" and tok[1] in ("~", "*", "++", "--", "+"):
            raise Unsupported("unary `%s` is outside the subset" % tok[1])
        if tok == ("op", "(") and self.at_type(1):
            self.next()
            ty = self.parse_type()
            self.expect("op", ")")
            return ("cast", ty, self.unary())
        return self.postfix()

    def postfix(self):
        e = self.primary()
        while True:
            if self.accept("op", "["):
                idx = self.expr()
                self.expect("op", "]")
                e = ("index", e, idx)
            elif self.peek() == ("op", "(") and e[0] == "var":
                self.next()
                args = []
                if not self.accept("op", ")"):
                    while True:
                        args.append(self.expr())
                        if self.accept("op", ")"):
                            break
                        self.expect("op", ",")
                e = ("call", e[1], args)
            elif self.accept("op", "++"):
                e = ("postinc", e)
            elif self.accept("op", "--"):
                e = ("postdec", e)
            elif self.peek()[0] == "op" and self.peek()[1] in (".", "->"):
                raise Unsupported("member access is outside the subset")
            else:
                return e

    def primary(self):
        tok = self.next()
        if tok[0] == "num":
            return ("num", tok[1])
        if tok[0] == "str":
            return ("str", tok[1])
        if tok == ("id", "sizeof"):
            self.expect("op", "(")
            ty = self.parse_type()
            self.expect("op", ")")
            return ("sizeof", ty)
        if tok[0] == "id":
            return ("var", tok[1])
        if tok == ("op", "("):
            e = self.expr()
            self.expect("op", ")")
            return ("paren", e)
        raise Unsupported("unexpected token %r" % (tok,))


def unparen(e):
    while e[0] == "paren":
        e = e[1]
    return e


# --------------------------------------------------------------------------------------------- emitter
WIDTH = {"uint8_t": 8, "uint32_t": 32, "uint64_t": 64}
NAT_TYPES = {"u8", "u32", "u64", "size", "byte"}
INT_TYPES = {"ssize", "int"}
SIZEOF = {"size_t": struct.calcsize("N"), "uint32_t": 4, "uint64_t": 8, "char": 1, "Py_ssize_t": struct.calcsize("n"),
          "uint8_t": 1}


def uwidth(t):
    return {"u8": 8, "u32": 32, "u64": 64, "byte": 32, "size": 8 * SIZEOF["size_t"]}[t]


class Emitter:
    def __init__(self):
        self.vars = {}          # name -> kind: ssize | u32 | u64 | inptr | outptr | obj
        self.order = []         # state fields in declaration order
        self.arrays = []        # input pointer variables bound by PyArg_ParseTuple, in argument order
        self.lens = {}          # pointer var -> its length variable
        self.outptr = None      # `char *` bound to the result buffer
        self.result = None      # PyObject * holding the result
        self.assigned = set()
        self.loops = []         # text of loop definitions
        self.stages = []        # (name, comment, lines)
        self.tmp = 0
        self.returned = False

    # ---- helpers
    def arr_params(self):
        return " ".join("A_%s" % a for a in self.arrays)

    def arr_binders(self):
        return "(%s : List Nat)" % self.arr_params() if self.arrays else ""

    def fresh(self):
        self.tmp += 1
        return "v%d" % self.tmp

    def declare(self, ty, name):
        base, ptr, const = ty
        if name in self.vars:
            raise Unsupported("redeclaration of %s" % name)
        if ptr == 0 and base in ("Py_ssize_t", "int", "long", "ssize_t"):
            kind = "ssize"
        elif ptr == 0 and base in ("uint32_t", "uint64_t"):
            kind = "u32" if base == "uint32_t" else "u64"
        elif ptr == 1 and base == "char":
            kind = "inptr" if const else "outptr"
        elif ptr == 1 and base == "PyObject":
            kind = "obj"
        else:
            raise Unsupported("declaration `%s %s%s` is outside the subset" % (base, "*" * ptr, name))
        self.vars[name] = kind
        if kind != "obj":
            self.order.append(name)

    def read(self, name):
        if name not in self.vars:
            raise Unsupported("undeclared identifier %s" % name)
        if name not in self.assigned:
            raise Unsupported("%s may be read before it is assigned" % name)

    # ---- expressions: -> (lean text, type); loads are hoisted into `pre`
    def expr(self, e, pre, allow_load=True):
        e = unparen(e)
        k = e[0]
        if k == "num":
            return (str(e[1]), "lit")
        if k == "var":
            name = e[1]
            self.read(name)
            kind = self.vars[name]
            if kind in ("ssize", "u32", "u64"):
                return ("s.%s" % name, kind)
            raise Unsupported("pointer/object %s used as a value" % name)
        if k == "sizeof":
            base, ptr, _ = e[1]
            if ptr or base not in SIZEOF:
                raise Unsupported("sizeof(%s) is outside the subset" % base)
            if base == "size_t":
                return ("sizeofSizeT", "size")
            return (str(SIZEOF[base]), "lit")
        if k == "neg":
            t, ty = self.expr(e[1], pre, allow_load)
            if ty not in INT_TYPES and ty != "lit":
                raise Unsupported("unary minus on an unsigned value")
            return ("(-%s)" % t, "ssize" if ty != "lit" else "ssize")
        if k == "not":
            t, ty = self.cond(e[1], pre)
            return ("(!%s)" % t, "bool")
        if k == "index":
            if not allow_load:
                raise Unsupported("memory read inside a condition is outside the subset")
            arr, nbytes, off = self.lvalue(e, pre)
            if arr == "out":
                raise Unsupported("reading the result buffer is outside the subset")
            v = self.fresh()
            pre.append("let %s ← loadLE A_%s %d %s" % (v, arr, nbytes, off))
            return (v, {1: "byte", 4: "u32", 8: "u64"}[nbytes])
        if k == "bin":
            op = e[1]
            if op in ("&&", "||", "==", "!=", "<", "<=", ">", ">="):
                return (self.cond(e, pre), "bool")
            a, ta = self.expr(e[2], pre, allow_load)
            b, tb = self.expr(e[3], pre, allow_load)
            if op in ("^", "|", "&"):
                if not ((ta in NAT_TYPES or ta == "lit") and (tb in NAT_TYPES or tb == "lit")) or (ta == "lit" and tb == "lit"):
                    raise Unsupported("bit operation `%s` on signed operands is outside the subset" % op)
                ty = max((t for t in (ta, tb) if t != "lit"), key=uwidth)
                if ta == "byte" and tb == "byte":
                    ty = "byte"
                elif "byte" in (ta, tb) and ty == "byte":
                    ty = "u32"
                return ("(%s %s %s)" % (a, {"^": "^^^", "|": "|||", "&": "&&&"}[op], b), ty)
            if op in ("<<", ">>"):
                if ta not in ("u32", "u64"):
                    raise Unsupported("shift of a non-uint32/uint64 value is outside the subset")
                if unparen(e[3])[0] != "num":
                    raise Unsupported("shift by a non-literal amount is outside the subset")
                n = unparen(e[3])[1]
                if n >= uwidth(ta):
                    raise Unsupported("shift of a %d-bit value by %d is undefined behaviour" % (uwidth(ta), n))
                if op == "<<":
                    return ("(wrap %d (%s <<< %d))" % (uwidth(ta), a, n), ta)
                return ("(%s >>> %d)" % (a, n), ta)
            if op in ("+", "-", "*"):
                if ta in NAT_TYPES or tb in NAT_TYPES:
                    raise Unsupported("arithmetic `%s` on unsigned operands is outside the subset" % op)
                return ("(%s %s %s)" % (a, op, b), "ssize" if (ta, tb) != ("lit", "lit") else "ssize")
            if op == "%":
                rhs = unparen(e[3])
                if ta in NAT_TYPES or rhs[0] != "num" or rhs[1] <= 0:
                    raise Unsupported("`%` other than <signed> % <positive literal> is outside the subset")
                return ("(Int.tmod %s %d)" % (a, rhs[1]), "ssize")
            raise Unsupported("operator `%s` is outside the subset" % op)
        if k == "cast":
            raise Unsupported("cast outside `((uintN_t *)p)[k]` is outside the subset")
        raise Unsupported("expression form %s is outside the subset" % k)

    def cond(self, e, pre):
        e = unparen(e)
        if e[0] == "not":
            return "(!%s)" % self.cond(e[1], pre)
        if e[0] == "bin" and e[1] in ("&&", "||"):
            return "(%s %s %s)" % (self.cond(e[2], pre), e[1], self.cond(e[3], pre))
        if e[0] == "bin" and e[1] in ("==", "!=", "<", "<=", ">", ">="):
            a, ta = self.expr(e[2], pre, allow_load=False)
            b, tb = self.expr(e[3], pre, allow_load=False)
            nat = ta in NAT_TYPES or tb in NAT_TYPES
            sig = ta in INT_TYPES or tb in INT_TYPES
            if nat and sig:
                raise Unsupported("comparison between signed and unsigned values is outside the subset")
            if ta == "bool" or tb == "bool":
                raise Unsupported("comparison of a truth value is outside the subset")
            ann = "Nat" if nat else "Int"
            op = {"==": "==", "!=": "!=", "<": "<", "<=": "≤", ">": ">", ">=": "≥"}[e[1]]
            if op in ("==", "!="):
                return "((%s : %s) %s %s)" % (a, ann, op, b)
            return "decide ((%s : %s) %s %s)" % (a, ann, op, b)
        raise Unsupported("a condition must be a comparison (found %s)" % e[0])

    def lvalue(self, e, pre):
        """`p[E]` or `((uintN_t *)p)[E]` -> (array name | 'out', bytes, offset text)"""
        assert e[0] == "index"
        base = unparen(e[1])
        nbytes = 1
        if base[0] == "cast":
            (tb, ptr, _c), inner = base[1], unparen(base[2])
            if ptr != 1 or tb not in WIDTH:
                raise Unsupported("pointer cast to `%s %s` is outside the subset" % (tb, "*" * ptr))
            nbytes = WIDTH[tb] // 8
            base = inner
        if base[0] != "var":
            raise Unsupported("indexing something other than a pointer variable")
        p = base[1]
        self.read(p)
        kind = self.vars[p]
        idx, ti = self.expr(e[2], pre)
        if ti not in INT_TYPES and ti != "lit":
            raise Unsupported("index of unsigned type is outside the subset")
        off = "(s.%s + %d * %s)" % (p, nbytes, idx)
        if kind == "inptr":
            if p not in self.arrays:
                raise Unsupported("%s does not point into an argument buffer" % p)
            return (p, nbytes, off)
        if kind == "outptr":
            if p != self.outptr:
                raise Unsupported("%s does not point into the result buffer" % p)
            return ("out", nbytes, off)
        raise Unsupported("%s is not a pointer" % p)

    # ---- statements: -> list of do-lines that rebind `s`
    def stmts(self, block, top=False):
        lines = []
        for st in block:
            lines += self.stmt(st)
        return lines

    def assign_to(self, name, text, ty):
        kind = self.vars.get(name)
        if kind is None:
            raise Unsupported("assignment to undeclared %s" % name)
        if kind in ("u32", "u64"):
            if ty not in NAT_TYPES and ty != "lit":
                raise Unsupported("assigning a signed value to %s is outside the subset" % name)
            text = "wrap %d %s" % (32 if kind == "u32" else 64, text)
        elif kind in ("ssize", "inptr", "outptr"):
            if ty not in INT_TYPES and ty != "lit":
                raise Unsupported("assigning an unsigned value to %s is outside the subset" % name)
        else:
            raise Unsupported("assignment to %s is outside the subset" % name)
        self.assigned.add(name)
        return "let s := { s with %s := %s }" % (name, text)

    def stmt(self, st):
        k = st[0]
        if self.returned:
            raise Unsupported("statement after the final return")
        if k == "empty":
            return []
        if k == "block":
            return self.stmts(st[1])
        if k == "decl":
            raise Unsupported("declaration after the first statement is outside the subset")
        if k == "expr":
            e = unparen(st[1])
            if e[0] in ("postinc", "postdec") and unparen(e[1])[0] == "var":
                name = unparen(e[1])[1]
                self.read(name)
                if self.vars[name] not in ("ssize", "inptr", "outptr"):
                    raise Unsupported("++/-- on unsigned %s is outside the subset" % name)
                return [self.assign_to(name, "s.%s %s 1" % (name, "+" if e[0] == "postinc" else "-"), "ssize")]
            raise Unsupported("expression statement other than v++ / v-- is outside the subset")
        if k == "assign":
            return self.assignment(st)
        if k == "if":
            return self.if_stmt(st)
        if k == "while":
            return self.loop(st[1], st[2], [])
        if k == "for":
            init, c, step, body = st[1], st[2], st[3], st[4]
            if init[0] != "assign" or init[1] != "=" or unparen(init[2])[0] != "var":
                raise Unsupported("for-initialiser must be `v = E`")
            pre = self.stmt(init)
            return pre + self.loop(c, body, [step])
        if k == "return":
            e = unparen(st[1])
            if e == ("var", self.result) and self.result is not None and self.outptr is not None:
                self.returned = True
                return ["RETURN"]
            raise Unsupported("`return` of anything but the result object is only allowed in the recognised guards")
        raise Unsupported("statement form %s" % k)

    def assignment(self, st):
        op, lhs, rhs = st[1], unparen(st[2]), st[3]
        r = unparen(rhs)
        pre = []
        if lhs[0] == "var":
            name = lhs[1]
            if name not in self.vars:
                raise Unsupported("assignment to undeclared %s" % name)
            kind = self.vars[name]
            # result = PyBytes_FromStringAndSize(NULL, E)
            if op == "=" and r[0] == "call":
                if r[1] == "PyBytes_FromStringAndSize" and kind == "obj" and len(r[2]) == 2 and unparen(r[2][0]) == ("var", "NULL"):
                    if self.result is not None:
                        raise Unsupported("second result allocation")
                    t, ty = self.expr(r[2][1], pre, allow_load=False)
                    if ty not in INT_TYPES and ty != "lit":
                        raise Unsupported("allocation size of unsigned type")
                    self.result = name
                    self.assigned.add(name)
                    return pre + ["let o ← alloc %s" % t, "let s := { s with out := o }"]
                if r[1] == "PyBytes_AsString" and kind == "outptr" and len(r[2]) == 1 and unparen(r[2][0]) == ("var", self.result):
                    if self.outptr is not None:
                        raise Unsupported("second pointer into the result buffer")
                    self.outptr = name
                    self.assigned.add(name)
                    return ["let s := { s with %s := 0 }" % name]
                raise Unsupported("call of %s is outside the subset" % r[1])
            if kind == "outptr" and name != self.outptr:
                raise Unsupported("%s is not bound to the result buffer" % name)
            if kind == "inptr" and name not in self.arrays:
                raise Unsupported("%s is not bound to an argument buffer" % name)
            if op == "=":
                if kind in ("inptr", "outptr"):
                    raise Unsupported("re-seating pointer %s is outside the subset" % name)
                t, ty = self.expr(rhs, pre)
                return pre + [self.assign_to(name, t, ty)]
            binop = op[:-1]
            if kind in ("inptr", "outptr"):
                if binop not in ("+", "-"):
                    raise Unsupported("`%s` on a pointer" % op)
                self.read(name)
                t, ty = self.expr(rhs, pre, allow_load=False)
                if ty not in INT_TYPES and ty != "lit":
                    raise Unsupported("pointer arithmetic with an unsigned value is outside the subset")
                return pre + [self.assign_to(name, "s.%s %s %s" % (name, binop, t), "ssize")]
            t, ty = self.expr(("bin", binop, ("var", name), rhs), pre)
            return pre + [self.assign_to(name, t, ty)]
        if lhs[0] == "index":
            if op != "=":
                binop = op[:-1]
                raise Unsupported("compound assignment `%s` to memory is outside the subset" % op)
            t, ty = self.expr(rhs, pre)
            arr, nbytes, off = self.lvalue(lhs, pre)
            if arr != "out":
                raise Unsupported("store through a pointer to const argument data")
            if ty not in NAT_TYPES:
                raise Unsupported("storing a signed/literal value is outside the subset")
            return pre + ["let o ← storeLE s.out %d %s %s" % (nbytes, off, t), "let s := { s with out := o }"]
        raise Unsupported("assignment target %s is outside the subset" % lhs[0])

    def if_stmt(self, st):
        c, th, el = unparen(st[1]), st[2], st[3]
        # argument parsing
        if c[0] == "not" and unparen(c[1])[0] == "call" and unparen(c[1])[1] == "PyArg_ParseTuple":
            raise Unsupported("PyArg_ParseTuple may only be the first statement")
        # if (!result) { return NULL; }
        if c[0] == "not" and unparen(c[1]) == ("var", self.result) and self.result is not None:
            if el is None and self.is_return_null(th):
                return []            # allocation failure is not modelled
            raise Unsupported("unrecognised use of the result object in a condition")
        # if (COND) { PyErr_SetString(PyExc_X, "..."); return NULL; }
        if el is None and len(th) == 2 and th[0][0] == "expr" and unparen(th[0][1])[0] == "call" \
                and unparen(th[0][1])[1] == "PyErr_SetString" and self.is_return_null(th[1:]):
            args = unparen(th[0][1])[2]
            if len(args) != 2 or unparen(args[0])[0] != "var" or not unparen(args[0])[1].startswith("PyExc_"):
                raise Unsupported("unrecognised PyErr_SetString call")
            pre = []
            ct = self.cond(c, pre)
            assert not pre
            return ["if %s then throw (Stop.raised \"%s\")" % (ct, unparen(args[0])[1][len("PyExc_"):])]
        pre = []
        ct = self.cond(c, pre)
        assert not pre
        before = set(self.assigned)
        tl = self.stmts(th)
        after_then = set(self.assigned)
        self.assigned = set(before)
        eln = self.stmts(el) if el is not None else []
        self.assigned = after_then & set(self.assigned) if el is not None else before | (after_then & before)
        if "RETURN" in tl or "RETURN" in eln:
            raise Unsupported("return inside a conditional is outside the subset")
        out = ["let s ← (if %s then (do" % ct] + ["  " + l for l in tl] + ["  pure s) else (do"] \
            + ["  " + l for l in eln] + ["  pure s))"]
        return out

    @staticmethod
    def is_return_null(block):
        return len(block) == 1 and block[0][0] == "return" and unparen(block[0][1]) == ("var", "NULL")

    def loop(self, c, body, steps):
        pre = []
        ct = self.cond(c, pre)
        assert not pre
        before = set(self.assigned)
        bl = self.stmts(body)
        for s in steps:
            bl += self.stmt(s)
        self.assigned = before      # the body may run zero times
        if "RETURN" in bl:
            raise Unsupported("return inside a loop is outside the subset")
        name = "loop%d" % len(self.loops)
        txt = ["def %s %s : Nat → St → Except Stop St :=" % (name, self.arr_binders()),
               "  whileFuel (fun s => %s) (fun s => do" % ct] + ["    " + l for l in bl] + ["    pure s)"]
        self.loops.append("\n".join(txt))
        fuel = " + ".join("A_%s.length" % a for a in self.arrays) + " + 1"
        return ["let s ← %s %s (%s) s" % (name, self.arr_params(), fuel)]

    # ---- the function
    def function(self, body):
        i = 0
        while i < len(body) and body[i][0] == "decl":
            self.declare(body[i][1], body[i][2])
            i += 1
        rest = body[i:]
        if not rest:
            raise Unsupported("empty function")
        first = rest[0]
        ok = first[0] == "if" and first[3] is None and self.is_return_null(first[2])
        c = unparen(first[1]) if ok else None
        call = unparen(c[1]) if ok and c[0] == "not" else None
        if not (call and call[0] == "call" and call[1] == "PyArg_ParseTuple"):
            raise Unsupported("the first statement must be `if (!PyArg_ParseTuple(args, \"s#s#\", …)) { return NULL; }`")
        args = [unparen(a) for a in call[2]]
        if len(args) != 6 or args[0] != ("var", "args") or args[1] != ("str", "s#s#") \
                or any(a[0] != "addr" or unparen(a[1])[0] != "var" for a in args[2:]):
            raise Unsupported("PyArg_ParseTuple must be called as (args, \"s#s#\", &p1, &n1, &p2, &n2)")
        p1, n1, p2, n2 = [unparen(a[1])[1] for a in args[2:]]
        for p, n in ((p1, n1), (p2, n2)):
            if self.vars.get(p) != "inptr" or self.vars.get(n) != "ssize":
                raise Unsupported("PyArg_ParseTuple targets must be (const char *, Py_ssize_t) pairs")
            self.arrays.append(p)
            self.lens[p] = n
            self.assigned |= {p, n}
        if len({p1, n1, p2, n2}) != 4:
            raise Unsupported("PyArg_ParseTuple targets must be distinct")
        init = []
        for v in self.order:
            if v in self.lens.values():
                p = [q for q, n in self.lens.items() if n == v][0]
                init.append("%s := A_%s.length" % (v, p))
            else:
                init.append("%s := 0" % v)
        self.stages.append(("s0", "PyArg_ParseTuple(args, \"s#s#\", &%s, &%s, &%s, &%s)" % (p1, n1, p2, n2),
                            None, "{ out := [], " + ", ".join(init) + " }"))
        for st in rest[1:]:
            lines = self.stmt(st)
            if not lines:
                continue
            if lines == ["RETURN"]:
                break
            self.stages.append(("s%d" % len(self.stages), describe(st), lines, None))
        if not self.returned:
            raise Unsupported("the function does not end with `return <result>;`")


def describe(st):
    k = st[0]
    if k == "if":
        return "if (…)"
    if k == "while":
        return "while (…)"
    if k == "for":
        return "for (…)"
    if k == "assign":
        return "assignment"
    return k


HEADER = """/-
GENERATED by harness/translate/c2lean.py from tornado/speedups.c — DO NOT EDIT.
Regenerated from $VERIF_REPO on every `./check C18` run; the committed copy only makes a fresh `lake build` work.
source sha256: %(sha)s
sizeof(size_t) on this host: %(sz)d;  byte order: %(bo)s
-/
import TornadoModel.C18.CSem
set_option linter.unusedVariables false
namespace TornadoModel.C18.Gen
open TornadoModel.C18.CSem

/-- `sizeof(size_t)` of the platform the extension is compiled for -/
def sizeofSizeT : Nat := %(sz)d
"""


def translate_source(src):
    body_text = function_body(src, FUNC)
    p = Parser(lex(body_text))
    body = []
    while p.peek()[0] != "eof":
        body.append(p.statement())
    em = Emitter()
    em.function(body)
    out = [HEADER % {"sha": hashlib.sha256(src.encode()).hexdigest(), "sz": SIZEOF["size_t"], "bo": sys.byteorder}]
    out.append("/-- the local variables of `%s`; a pointer is the byte offset into its own buffer -/" % FUNC)
    out.append("structure St where")
    out.append("  out : List (Option Nat)")
    for v in em.order:
        out.append("  %s : %s" % (v, "Nat" if em.vars[v] in ("u32", "u64") else "Int"))
    out.append("")
    for l in em.loops:
        out.append(l)
        out.append("")
    binders = em.arr_binders()
    for name, comment, lines, init in em.stages:
        out.append("/-- %s -/" % comment)
        if init is not None:
            out.append("def %s %s : St :=\n  %s" % (name, binders, init))
        else:
            out.append("def %s %s (s : St) : Except Stop St := do" % (name, binders))
            out += ["  " + l for l in lines]
            out.append("  pure s")
        out.append("")
    out.append("/-- `%s(%s)` -/" % (FUNC, ", ".join(em.arrays)))
    out.append("def websocketMask %s : Except Stop (List Nat) := do" % binders)
    out.append("  let s := s0 %s" % em.arr_params())
    for name, _, _, init in em.stages[1:]:
        out.append("  let s ← %s %s s" % (name, em.arr_params()))
    out.append("  finish s.out")
    out.append("")
    out.append("end TornadoModel.C18.Gen")
    return "\n".join(out) + "\n"


def translate_file(c_path, lean_path):
    """-> (ok, message).  Writes lean_path only when the text changed (keeps lake's cache valid)."""
    try:
        src = open(c_path).read()
    except OSError as e:
        return False, "cannot read %s: %s" % (c_path, e)
    if sys.byteorder != "little":
        return False, "big-endian host: the little-endian load/store model does not apply"
    try:
        text = translate_source(src)
    except Unsupported as e:
        return False, "speedups.c left the translatable subset: %s" % e
    try:
        old = open(lean_path).read()
    except OSError:
        old = None
    if old != text:
        os.makedirs(os.path.dirname(lean_path), exist_ok=True)
        with open(lean_path + ".tmp", "w") as f:
            f.write(text)
        os.replace(lean_path + ".tmp", lean_path)
    return True, "translated %s (sha256 %s…) -> %s%s" % (
        c_path, hashlib.sha256(src.encode()).hexdigest()[:12], os.path.relpath(lean_path, os.path.dirname(os.path.dirname(lean_path))),
        "" if old == text else " (changed)")


if __name__ == "__main__":
    src = open(sys.argv[1]).read()
    sys.stdout.write(translate_source(src))
