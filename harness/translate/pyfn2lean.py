"""pyfn2lean — translate a pure arithmetic Python method into a Lean 4 definition over ℤ / ℚ (DESIGN §2.4).

Accepted subset (anything else raises `Unsupported`, which the caller reports as a broken proof obligation):

  statements   x = e | x op= e | self.a = e | self.a op= e | if/elif/else | return [e] | docstring/pass
  expressions  int and float literals, names, self.<attr>, + - * / (binary), unary - +, comparisons
               (< <= > >= == !=, chains), and/or/not, `x is None` / `x is not None` (on self attributes declared
               optional), min/max/abs, math.floor(e), and the *external inputs* listed in `externals`
               (e.g. `random.random()`), each call site of which becomes a fresh ℚ parameter of the Lean function
  truthiness   `if e:` with e numeric means `e ≠ 0`

Typing: int literals and math.floor(..) are `Int`; float literals, `/`, parameters and self attributes are `ℚ`
(the exact rational value of the IEEE double for literals); an `Int` meeting a `ℚ` is cast (`((e : ℤ) : ℚ)`).
`self` becomes a structure `Self` with one ℚ field per attribute read or written (leading underscores dropped);
a method that returns nothing returns the updated `Self`.

Statement lists are translated in continuation-passing style (`if c then ⟦A; rest⟧ else ⟦B; rest⟧`), so the
output is a pure expression tree of `let`s and `if`s — no joins, no mutable state.
"""
from __future__ import annotations
import ast, os, textwrap
from fractions import Fraction


class Unsupported(Exception):
    pass


INT, RAT, BOOL = "Int", "Rat", "Bool"


def _field(attr: str) -> str:
    return attr.lstrip("_") or attr


def _qlit(fr: Fraction) -> str:
    if fr.denominator == 1:
        return "(%d : ℚ)" % fr.numerator
    return "((%d : ℚ) / %d)" % (fr.numerator, fr.denominator)


class Translator:
    def __init__(self, fn: ast.FunctionDef, externals=None, lean_name=None):
        self.fn = fn
        self.externals = dict(externals or {"random.random": "rnd"})
        self.lean_name = lean_name or fn.name.lstrip("_")
        self.fields: list[str] = []          # attribute names in order of first use
        self.ext_params: list[str] = []
        self.params = [a.arg for a in fn.args.args[1:]]
        if fn.args.vararg or fn.args.kwarg or fn.args.kwonlyargs or fn.args.defaults:
            raise Unsupported("only plain positional parameters are supported")
        if not fn.args.args or fn.args.args[0].arg != "self":
            raise Unsupported("expected a method (first parameter `self`)")
        self.returns_value = None

    # ------------------------------------------------------------------ expressions
    def use_field(self, attr):
        if attr not in self.fields:
            self.fields.append(attr)
        return _field(attr)

    def dotted(self, node):
        if isinstance(node, ast.Name):
            return node.id
        if isinstance(node, ast.Attribute):
            b = self.dotted(node.value)
            return None if b is None else b + "." + node.attr
        return None

    def expr(self, e, env) -> tuple[str, str]:
        """-> (lean text, type).  env: local name -> (lean identifier, type); '$self' -> current self term"""
        if isinstance(e, ast.Constant):
            if isinstance(e.value, bool):
                return ("true" if e.value else "false"), BOOL
            if isinstance(e.value, int):
                return "(%d : ℤ)" % e.value, INT
            if isinstance(e.value, float):
                return _qlit(Fraction(e.value)), RAT
            raise Unsupported("constant %r" % (e.value,))
        if isinstance(e, ast.Name):
            if e.id in env:
                return env[e.id]
            raise Unsupported("unknown name %s" % e.id)
        if isinstance(e, ast.Attribute):
            if isinstance(e.value, ast.Name) and e.value.id == "self":
                return "%s.%s" % (env["$self"][0], self.use_field(e.attr)), RAT
            raise Unsupported("attribute %s" % ast.unparse(e))
        if isinstance(e, ast.UnaryOp):
            if isinstance(e.op, ast.Not):
                return "(¬ %s)" % self.cond(e.operand, env), BOOL
            t, ty = self.expr(e.operand, env)
            if ty == BOOL:
                raise Unsupported("arithmetic on a condition")
            if isinstance(e.op, ast.USub):
                return "(-%s)" % t, ty
            if isinstance(e.op, ast.UAdd):
                return t, ty
            raise Unsupported("unary %s" % type(e.op).__name__)
        if isinstance(e, ast.BinOp):
            return self.binop(e.op, e.left, e.right, env)
        if isinstance(e, ast.Call):
            name = self.dotted(e.func)
            if e.keywords:
                raise Unsupported("keyword arguments")
            if name in self.externals:
                if e.args:
                    raise Unsupported("arguments to external %s" % name)
                p = "%s%d" % (self.externals[name], len(self.ext_params))
                self.ext_params.append(p)
                return p, RAT
            if name == "math.floor" and len(e.args) == 1:
                t, ty = self.expr(e.args[0], env)
                if ty == INT:
                    return t, INT
                return "⌊%s⌋" % t, INT
            if name == "abs" and len(e.args) == 1:
                t, ty = self.expr(e.args[0], env)
                return "|%s|" % t, ty
            if name in ("min", "max") and len(e.args) >= 2:
                ts = [self.expr(a, env) for a in e.args]
                ty = RAT if any(t[1] == RAT for t in ts) else INT
                parts = [self.coerce(t, ty) for t in ts]
                out = parts[0]
                for p in parts[1:]:
                    out = "(%s %s %s)" % (name, out, p)
                return out, ty
            raise Unsupported("call %s" % ast.unparse(e))
        if isinstance(e, (ast.Compare, ast.BoolOp)):
            return self.cond(e, env), BOOL
        raise Unsupported("expression %s" % ast.unparse(e))

    def coerce(self, t, ty):
        text, have = t
        if have == ty:
            return text
        if have == INT and ty == RAT:
            return "((%s : ℤ) : ℚ)" % text
        raise Unsupported("cannot use %s as %s" % (have, ty))

    def binop(self, op, l, r, env):
        lt, rt = self.expr(l, env), self.expr(r, env)
        if BOOL in (lt[1], rt[1]):
            raise Unsupported("arithmetic on a condition")
        sym = {ast.Add: "+", ast.Sub: "-", ast.Mult: "*", ast.Div: "/"}.get(type(op))
        if sym is None:
            raise Unsupported("operator %s" % type(op).__name__)
        ty = RAT if (sym == "/" or RAT in (lt[1], rt[1])) else INT
        return "(%s %s %s)" % (self.coerce(lt, ty), sym, self.coerce(rt, ty)), ty

    def cond(self, e, env) -> str:
        """a Lean Prop (decidable) for the truth value of `e`"""
        if isinstance(e, ast.BoolOp):
            sym = " ∧ " if isinstance(e.op, ast.And) else " ∨ "
            return "(" + sym.join(self.cond(v, env) for v in e.values) + ")"
        if isinstance(e, ast.UnaryOp) and isinstance(e.op, ast.Not):
            return "(¬ %s)" % self.cond(e.operand, env)
        if isinstance(e, ast.Compare):
            parts, left = [], e.left
            for op, right in zip(e.ops, e.comparators):
                if isinstance(op, (ast.Is, ast.IsNot)):
                    raise Unsupported("None tests need an optional attribute (not used by the translated methods)")
                sym = {ast.Lt: "<", ast.LtE: "≤", ast.Gt: ">", ast.GtE: "≥", ast.Eq: "=", ast.NotEq: "≠"}.get(type(op))
                if sym is None:
                    raise Unsupported("comparison %s" % type(op).__name__)
                lt, rt = self.expr(left, env), self.expr(right, env)
                ty = RAT if RAT in (lt[1], rt[1]) else INT
                parts.append("%s %s %s" % (self.coerce(lt, ty), sym, self.coerce(rt, ty)))
                left = right
            return "(" + " ∧ ".join(parts) + ")"
        if isinstance(e, ast.Constant) and isinstance(e.value, bool):
            return "True" if e.value else "False"
        t, ty = self.expr(e, env)
        if ty == BOOL:
            return t
        return "(%s ≠ 0)" % t          # numeric truthiness

    # ------------------------------------------------------------------ statements (CPS)
    def block(self, stmts, env, ind) -> str:
        pad = "  " * ind
        if not stmts:
            if self.returns_value is True:
                raise Unsupported("a path falls off the end of a value-returning function")
            self.returns_value = False
            return pad + env["$self"][0]
        s, rest = stmts[0], stmts[1:]
        if isinstance(s, ast.Expr) and isinstance(s.value, ast.Constant) and isinstance(s.value.value, str):
            return self.block(rest, env, ind)
        if isinstance(s, ast.Pass):
            return self.block(rest, env, ind)
        if isinstance(s, ast.Return):
            if s.value is None or (isinstance(s.value, ast.Constant) and s.value.value is None):
                if self.returns_value is True:
                    raise Unsupported("mixed `return` and `return value`")
                self.returns_value = False
                return pad + env["$self"][0]
            if self.returns_value is False:
                raise Unsupported("mixed `return` and `return value`")
            self.returns_value = True
            return pad + self.coerce(self.expr(s.value, env), RAT)
        if isinstance(s, (ast.Assign, ast.AugAssign, ast.AnnAssign)):
            if isinstance(s, ast.Assign):
                if len(s.targets) != 1:
                    raise Unsupported("multiple assignment targets")
                target, value = s.targets[0], self.expr(s.value, env)
            elif isinstance(s, ast.AnnAssign):
                if s.value is None:
                    return self.block(rest, env, ind)
                target, value = s.target, self.expr(s.value, env)
            else:
                target = s.target
                load = ast.copy_location(ast.Name(target.id, ast.Load()), target) if isinstance(target, ast.Name) \
                    else ast.copy_location(ast.Attribute(target.value, target.attr, ast.Load()), target)
                value = self.binop(s.op, load, s.value, env)
            env2 = dict(env)
            if isinstance(target, ast.Name):
                n = sum(1 for k in env if k.split("'")[0] == target.id)
                ident = target.id + "'" * n
                # keep the Python name readable: first binding `x`, rebinding `x'`, `x''` …
                idents = {v[0] for v in env.values()}
                while ident in idents:
                    ident += "'"
                env2[target.id] = (ident, value[1])
                line = "%slet %s : %s := %s" % (pad, ident, "ℚ" if value[1] == RAT else "ℤ", value[0])
            elif isinstance(target, ast.Attribute) and isinstance(target.value, ast.Name) and target.value.id == "self":
                f = self.use_field(target.attr)
                n = sum(1 for v in env.values() if v[0].startswith("self"))
                ident = "self" + "'" * n
                env2["$self"] = (ident, "Self")
                line = "%slet %s : Self := { %s with %s := %s }" % (pad, ident, env["$self"][0], f, self.coerce(value, RAT))
            else:
                raise Unsupported("assignment target %s" % ast.unparse(target))
            return line + "\n" + self.block(rest, env2, ind)
        if isinstance(s, ast.If):
            c = self.cond(s.test, env)
            a = self.block(list(s.body) + rest, env, ind + 1)
            b = self.block(list(s.orelse) + rest, env, ind + 1)
            return "%sif %s then\n%s\n%selse\n%s" % (pad, c, a, pad, b)
        raise Unsupported("statement %s" % type(s).__name__)

    def translate(self) -> str:
        env = {"$self": ("self", "Self")}
        for p in self.params:
            env[p] = (p, RAT)
        body = self.block(list(self.fn.body), env, 1)
        ret = "ℚ" if self.returns_value else "Self"
        params = "".join(" (%s : ℚ)" % p for p in self.params + self.ext_params)
        struct = "structure Self where\n" + "".join("  %s : ℚ\n" % _field(f) for f in self.fields)
        return "%s\ndef %s (self : Self)%s : %s :=\n%s\n" % (struct, self.lean_name, params, ret, body)


def find_method(tree: ast.Module, cls: str, meth: str) -> ast.FunctionDef:
    for node in tree.body:
        if isinstance(node, ast.ClassDef) and node.name == cls:
            for m in node.body:
                if isinstance(m, ast.FunctionDef) and m.name == meth:
                    return m
    raise Unsupported("%s.%s not found" % (cls, meth))


HEADER = """/-
GENERATED by harness/translate/pyfn2lean.py from %(src)s (%(cls)s.%(meth)s) — do not edit.
Regenerated on every run of the check; the committed copy only lets a fresh `lake build` succeed.
Field order of `Self` = order of first use in the method.  External inputs: %(ext)s.
-/
import Mathlib.Data.Rat.Floor
namespace %(ns)s

"""


def translate_file(py_path, cls, meth, lean_path, namespace, lean_name, externals=None, field_order=None):
    """-> (ok, msg).  Writes `lean_path` only when translation succeeds and the text changed."""
    try:
        src = open(py_path).read()
        fn = find_method(ast.parse(src), cls, meth)
        tr = Translator(fn, externals=externals, lean_name=lean_name)
        if field_order:
            tr.fields = list(field_order)
        body = tr.translate()
        if field_order and tr.fields != list(field_order):
            raise Unsupported("the method now uses attributes %s (expected %s)" % (tr.fields, list(field_order)))
        # re-render the structure with the final field list
    except Unsupported as e:
        return False, "outside the translatable subset: %s" % e
    except (OSError, SyntaxError) as e:
        return False, "cannot read/parse %s: %s" % (py_path, e)
    text = HEADER % {"src": os.path.join("tornado", os.path.basename(py_path)), "cls": cls, "meth": meth, "ns": namespace,
                     "ext": ", ".join(tr.ext_params) or "none"} + body + "\nend %s\n" % namespace
    try:
        old = open(lean_path).read()
    except FileNotFoundError:
        old = None
    if old != text:
        os.makedirs(os.path.dirname(lean_path), exist_ok=True)
        with open(lean_path + ".tmp", "w") as f:
            f.write(text)
        os.replace(lean_path + ".tmp", lean_path)
    return True, "translated %s.%s (%d fields, externals %s)%s" % (cls, meth, len(tr.fields), tr.ext_params,
                                                                  "" if old == text else " [file updated]")


if __name__ == "__main__":
    import sys
    repo = sys.argv[1] if len(sys.argv) > 1 else os.environ.get("VERIF_REPO", "/repo")
    fn = find_method(ast.parse(open(os.path.join(repo, "tornado/ioloop.py")).read()), "PeriodicCallback", "_update_next")
    print(Translator(fn, lean_name="updateNext").translate())
