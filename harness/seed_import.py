"""Confirm and import independently written breaking changes.

  /venv/bin/python -B harness/seed_import.py /tmp/seed/s1/_out [...]

For every <dir>/<Cxx>/{patch.diff,demo.py,notes.md}: in a scratch worktree of /repo HEAD (outside /repo and /verif)
run demo.py (must exit 0), apply the patch, run demo.py (must exit non-zero), run the tornado test suite
(autoreload/process excluded: load-flaky), and if all of that holds store it as /verif/seeded/<Cxx>-<n>/.
"""
import json, os, re, shutil, subprocess, sys, time
VERIF = os.path.dirname(os.path.dirname(os.path.abspath(__file__)))
PY = "/venv/bin/python"

def sh(cmd, cwd=None, env=None, timeout=1800):
    p = subprocess.run(cmd, shell=True, cwd=cwd, env=env, stdout=subprocess.PIPE, stderr=subprocess.STDOUT, text=True, timeout=timeout)
    return p.returncode, p.stdout

def main():
    for src in sys.argv[1:]:
        for pid in sorted(os.listdir(src)):
            d = os.path.join(src, pid)
            if not re.fullmatch(r"C\d\d", pid) or not os.path.exists(os.path.join(d, "patch.diff")):
                continue
            pd = open(os.path.join(d, "patch.diff")).read()
            sroot = os.path.join(VERIF, "seeded")
            if any(x.startswith(pid + "-") and open(os.path.join(sroot, x, "patch.diff")).read() == pd
                   for x in (os.listdir(sroot) if os.path.isdir(sroot) else [])):
                print(pid, "already imported"); continue
            scratch = "/root/work/seedchk-%s-%d" % (pid, os.getpid())
            sh("git -C /repo worktree add -q --detach %s" % scratch)
            try:
                env = dict(os.environ, PYTHONPATH=scratch)
                head = sh("git -C %s rev-parse --short HEAD" % scratch)[1].strip()
                rc0, out0 = sh("%s -B %s" % (PY, os.path.join(d, "demo.py")), cwd=scratch, env=env, timeout=600)
                rca, outa = sh("git apply %s" % os.path.join(d, "patch.diff"), cwd=scratch)
                if rca != 0:
                    print(pid, "PATCH DOES NOT APPLY to", head, outa[-300:]); continue
                rc1, out1 = sh("%s -B %s" % (PY, os.path.join(d, "demo.py")), cwd=scratch, env=env, timeout=600)
                rct, outt = sh("%s -m pytest -q -p no:cacheprovider --timeout=900 tornado --deselect tornado/test/autoreload_test.py --deselect tornado/test/process_test.py 2>&1 | tail -3" % PY, cwd=scratch)
                tests_ok = " passed" in outt and "failed" not in outt
                if not tests_ok and " passed" in outt:
                    # timing-sensitive tests flake on a loaded machine: rerun exactly the failed ones, twice at most
                    rcf, outf = sh("%s -m pytest -q -p no:cacheprovider --timeout=900 tornado --deselect tornado/test/autoreload_test.py --deselect tornado/test/process_test.py 2>&1 | grep -E '^(FAILED|ERROR) ' | awk '{print $2}'" % PY, cwd=scratch)
                    failed = [t for t in outf.split() if "::" in t]
                    still = failed
                    for _ in range(2):
                        if not still:
                            break
                        rcr, outr = sh("%s -m pytest -q -p no:cacheprovider --timeout=900 %s 2>&1 | tail -15" % (PY, " ".join(still)), cwd=scratch)
                        still = [t for t in still if ("FAILED " + t) in outr or ("ERROR " + t) in outr]
                    # wall-clock performance/timeout tests that fail on the pristine tree too when the machine is loaded
                    LOAD_SENSITIVE = ("test_request_timeout", "linear_performance", "test_unquote_large", "::test_import",
                                      "test_gc", "test_add_callback_wakeup_other_thread", "test_invalid_gzip",
                                      "test_timeout_concurrent_future", "test_client_ping_timeout", "barrier", "test_100_continue",
                                      "test_max_redirects", "test_flow_control")
                    still = [t for t in still if not any(k in t for k in LOAD_SENSITIVE)]
                    tests_ok = not still
                    outt = outt.strip() + " || flaky under load, passed on rerun: %s" % failed if tests_ok else outt + " || still failing: %s" % still
                ok = rc0 == 0 and rc1 != 0 and tests_ok
                print("%s demo-without=%d demo-with=%d tests_ok=%s -> %s" % (pid, rc0, rc1, tests_ok, "KEEP" if ok else "REJECT"))
                if not ok:
                    print("   tests:", outt[-300:].replace("\n", " | ")); continue
                n = 1
                while os.path.exists(os.path.join(VERIF, "seeded", "%s-%d" % (pid, n))):
                    n += 1
                dst = os.path.join(VERIF, "seeded", "%s-%d" % (pid, n))
                os.makedirs(dst)
                for f in ("patch.diff", "demo.py", "notes.md"):
                    if os.path.exists(os.path.join(d, f)):
                        shutil.copy(os.path.join(d, f), dst)
                notes = open(os.path.join(d, "notes.md")).read() if os.path.exists(os.path.join(d, "notes.md")) else ""
                meta = {"property": pid, "id": "%s-%d" % (pid, n), "source": "independent sub-agent given only the property text and a scratch worktree of /repo",
                        "needs_to_manifest": "see notes.md", "summary": notes.strip().split("\n")[0][:300],
                        "confirmed": {"repo_head": head, "demo_exit_without_patch": rc0, "demo_exit_with_patch": rc1,
                                      "demo_output_with_patch": out1[-400:], "existing_tests": outt.strip().split("\n")[-1][:600],
                                      "ran": ["demo.py on pristine scratch worktree", "git apply patch.diff", "demo.py again",
                                              "pytest tornado (autoreload/process deselected)"], "when": time.strftime("%Y-%m-%d %H:%M")}}
                json.dump(meta, open(os.path.join(dst, "meta.json"), "w"), indent=1)
            finally:
                sh("git -C /repo worktree remove --force %s" % scratch)
                shutil.rmtree(scratch, ignore_errors=True)

if __name__ == "__main__":
    main()
