"""Regenerate /verif/MANIFEST.json from the property modules present in harness/props (run: /venv/bin/python -B harness/mkmanifest.py)."""
import importlib, json, os, sys
HERE = os.path.dirname(os.path.abspath(__file__))
sys.path.insert(0, HERE)
sys.path.insert(0, os.environ.get("VERIF_REPO", "/repo"))
VERIF = os.path.dirname(HERE)
BASELINE = json.load(open("/root/.vp/BASELINE.json"))["cmd"] if os.path.exists("/root/.vp/BASELINE.json") else \
    "cd /repo && /venv/bin/python -m pytest -ra -q -p no:cacheprovider --timeout=900 --continue-on-collection-errors --junitxml=<file>"

props = [json.loads(l) for l in open(os.path.join(VERIF, "properties.jsonl"))]
checks, na = [], []
for p in props:
    pid = p["id"]
    path = os.path.join(HERE, "props", pid.lower() + ".py")
    if not os.path.exists(path):
        na.append({"property_id": pid, "reason": "not built yet in this tree: no Lean model/theorems and no correspondence check exist for it (see DESIGN.md section 5 for the intended design)"})
        continue
    m = importlib.import_module("props." + pid.lower())
    if getattr(m, "NOT_CLAIMED", None):
        na.append({"property_id": pid, "reason": m.NOT_CLAIMED})
        continue
    names = [t if isinstance(t, str) else t[0] for t in m.THEOREMS]
    checks.append({
        "property_id": pid,
        "quick_cmd": "./check %s --tier quick" % pid,
        "thorough_cmd": "./check %s --tier thorough" % pid,
        "evidence_file": "evidence/%s.json" % pid,
        "replay_cmd_template": "./check %s --replay {path}" % pid,
        "engine": "lean4-proof+correspondence",
        "level_claimed": {
            "category": "proof",
            "text": getattr(m, "LEVEL_TEXT", "") or (
                "Lean 4 theorems (%d, kernel-checked, axioms audited each run) about an executable model of the code, "
                "tied to /repo on every run by a correspondence check that runs model and implementation on the same inputs; "
                "the specification side of the theorems is the oracle applied to the implementation's outputs." % len(names)),
            "design_ref": "DESIGN.md section 5, %s" % pid,
        },
        "level_note": (getattr(m, "LEVEL_NOTE", "") or ("Trusted: Lean kernel + standard axioms; the correspondence harness; " + "; ".join(getattr(m, "TRUSTED", [])) + ". Assumed: " + "; ".join(getattr(m, "ASSUMPTIONS", []))))
                      + ((" Caveats from the independent review (what the theorems do NOT establish; decided by the tie only): " + " | ".join(m.CLAUSE_CAVEATS)) if getattr(m, "CLAUSE_CAVEATS", None) else ""),
        "technique": getattr(m, "TECHNIQUE", "Lean 4 machine-checked proof over a hand-written executable model + model/implementation correspondence check"),
    })

manifest = {
    "version": 1,
    "setup_cmd": "/venv/bin/python -B harness/core/build.py",
    "hooks": {
        "guard": "TORNADO_VERIF_HOOKS",
        "enable": "no source hooks exist: all instrumentation is done from the harness by subclassing/monkey-patching; the guard name is reserved",
        "baseline_off_cmd": BASELINE,
        "source_commits": [],
        "add_only": True,
    },
    "engines": [{
        "name": "lean4-proof+correspondence",
        "path": "check",
        "serves_properties": [c["property_id"] for c in checks],
        "kind_free_text": "Lean 4.33 library lean/TornadoModel (models, specs, theorems) + compiled line-protocol driver + Python harness (harness/) that audits the theorems, runs the real tornado code from /repo in-process, diffs it against the model and applies the spec oracle",
    }],
    "checks": checks,
    "notes": "See DESIGN.md. ./check Cxx [--tier quick|thorough] [--seed N] [--replay FILE]; VERIF_SEED/VERIF_TIER honoured; exit 2 = infrastructure failure.",
    "not_applicable": na,
}
with open(os.path.join(VERIF, "MANIFEST.json"), "w") as f:
    json.dump(manifest, f, indent=1)
    f.write("\n")
print("claimed:", [c["property_id"] for c in checks])
print("not claimed:", len(na))
