"""Run checks against scratch copies of /repo with a breaking patch applied (never touches /repo).

  /venv/bin/python -B harness/run_patches.py seeded            # every /verif/seeded/<id>/patch.diff (property from meta.json)
  /venv/bin/python -B harness/run_patches.py mutants [C07 ...] # every harness/mutants/Cxx-*.patch
  options: --tier quick|thorough   --jobs N   --only <substr[,substr]>   --skip Cxx[,Cyy]

For each patch: `git worktree add` of /repo HEAD under /root/work/scratch-*, `git apply`, run
`VERIF_REPO=<scratch> ./check Cxx`, record exit code + VIOLATION line, remove the worktree.
Results are printed as a table and written to docs/PATCH_RESULTS_<kind>.json (meta-evidence, not a verdict).
"""
import concurrent.futures, json, os, re, shutil, subprocess, sys, time

VERIF = os.path.dirname(os.path.dirname(os.path.abspath(__file__)))
REPO = "/repo"
SCRATCH = "/root/work"


def run_one(job):
    name, prop, patch, tier = job
    d = os.path.join(SCRATCH, "scratch-%s-%d" % (re.sub(r"[^A-Za-z0-9]+", "-", name), os.getpid()))
    t0 = time.time()
    res = {"name": name, "property": prop, "patch": os.path.relpath(patch, VERIF)}
    try:
        subprocess.run(["git", "-C", REPO, "worktree", "add", "-q", "--detach", d], check=True,
                       stdout=subprocess.PIPE, stderr=subprocess.STDOUT)
        p = subprocess.run(["git", "-C", d, "apply", patch], stdout=subprocess.PIPE, stderr=subprocess.STDOUT, text=True)
        if p.returncode != 0:
            res.update(status="patch-does-not-apply", detail=p.stdout[-300:])
            return res
        env = dict(os.environ, VERIF_REPO=d)
        p = subprocess.run([os.path.join(VERIF, "check"), prop, "--tier", tier], cwd=VERIF, env=env,
                           stdout=subprocess.PIPE, stderr=subprocess.STDOUT, text=True, timeout=3600)
        lines = [l for l in p.stdout.split("\n") if l.startswith(("VIOLATION", "KNOWN-FINDING"))]
        res.update(exit=p.returncode, lines=lines[:4], tail=p.stdout.strip().split("\n")[-1][:300])
        res["status"] = "caught" if p.returncode == 1 and any(l.startswith("VIOLATION") for l in lines) else \
            ("missed" if p.returncode == 0 else "infra-error")
        if any("no-failing-input-found" in l for l in lines) and not any("no-failing-input-found" not in l and l.startswith("VIOLATION") for l in lines):
            res["status"] = "caught-no-input"
    except subprocess.TimeoutExpired:
        res.update(status="timeout")
    finally:
        subprocess.run(["git", "-C", REPO, "worktree", "remove", "--force", d], stdout=subprocess.PIPE, stderr=subprocess.STDOUT)
        shutil.rmtree(d, ignore_errors=True)
        res["wall_s"] = round(time.time() - t0, 1)
    return res


def main():
    args = sys.argv[1:]
    kind = args.pop(0)
    tier, jobs_n, only, props, skip = "quick", 4, None, [], []
    while args:
        a = args.pop(0)
        if a == "--tier":
            tier = args.pop(0)
        elif a == "--jobs":
            jobs_n = int(args.pop(0))
        elif a == "--only":
            only = args.pop(0)
        elif a == "--skip":
            skip = args.pop(0).split(",")
        else:
            props.append(a)
    jobs = []
    if kind == "seeded":
        root = os.path.join(VERIF, "seeded")
        for d in sorted(os.listdir(root)) if os.path.isdir(root) else []:
            meta = os.path.join(root, d, "meta.json")
            patch = os.path.join(root, d, "patch.diff")
            if os.path.exists(meta) and os.path.exists(patch):
                m = json.load(open(meta))
                jobs.append((d, m["property"], patch, tier))
    else:
        root = os.path.join(VERIF, "harness", "mutants")
        for f in sorted(os.listdir(root)) if os.path.isdir(root) else []:
            m = re.match(r"(C\d\d)-.*\.patch$", f)
            if m and (not props or m.group(1) in props):
                jobs.append((f[:-6], m.group(1), os.path.join(root, f), tier))
    if only:
        jobs = [j for j in jobs if any(o in j[0] for o in only.split(","))]
    jobs = [j for j in jobs if j[1] not in skip]
    jobs = [j for j in jobs if os.path.exists(os.path.join(VERIF, "harness", "props", j[1].lower() + ".py"))]
    with concurrent.futures.ThreadPoolExecutor(jobs_n) as ex:
        results = list(ex.map(run_one, jobs))
    for r in results:
        print("%-44s %-4s %-16s %6.1fs  %s" % (r["name"][:44], r["property"], r["status"], r["wall_s"], (r.get("lines") or [r.get("tail", r.get("detail", ""))])[0][:110]))
    out = os.path.join(VERIF, "docs", "PATCH_RESULTS_%s.json" % kind)
    old = {}
    if os.path.exists(out):
        old = {r["name"]: r for r in json.load(open(out))}
    for r in results:
        old[r["name"]] = r
    json.dump(sorted(old.values(), key=lambda r: r["name"]), open(out, "w"), indent=1)
    return 0


if __name__ == "__main__":
    sys.exit(main())
