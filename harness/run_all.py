"""Run every built check: /venv/bin/python -B harness/run_all.py [--tier quick] [--seed 0] [--jobs 4] [Cxx ...]"""
import concurrent.futures, os, re, subprocess, sys, time
VERIF = os.path.dirname(os.path.dirname(os.path.abspath(__file__)))
args = sys.argv[1:]
tier, seed, jobs, props = "quick", "0", 4, []
while args:
    a = args.pop(0)
    if a == "--tier": tier = args.pop(0)
    elif a == "--seed": seed = args.pop(0)
    elif a == "--jobs": jobs = int(args.pop(0))
    else: props.append(a)
if not props:
    props = sorted(f[:-3].upper() for f in os.listdir(os.path.join(VERIF, "harness", "props")) if re.fullmatch(r"c\d\d\.py", f))
def one(p):
    t = time.time()
    try:
        r = subprocess.run([os.path.join(VERIF, "check"), p, "--tier", tier, "--seed", seed], cwd=VERIF,
                           stdout=subprocess.PIPE, stderr=subprocess.STDOUT, text=True, timeout=7200)
        out, rc = r.stdout, r.returncode
    except subprocess.TimeoutExpired:
        out, rc = "TIMEOUT", 99
    lines = out.strip().split("\n")
    summ = [l for l in lines if l.startswith(p + " ")]
    viol = [l for l in lines if l.startswith("VIOLATION")]
    return p, rc, time.time() - t, (summ[-1] if summ else lines[-1][:200]), viol
bad = 0
with concurrent.futures.ThreadPoolExecutor(jobs) as ex:
    for p, rc, dt, s, viol in ex.map(one, props):
        print("%s rc=%d %.0fs  %s" % (p, rc, dt, s[:230]))
        for v in viol[:3]:
            print("     ", v)
        bad += rc != 0
print("checks with non-zero exit:", bad)
