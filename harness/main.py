"""./check Cxx [--tier quick|thorough] [--seed N] [--replay FILE]"""
import argparse, importlib, os, sys, time

HERE = os.path.dirname(os.path.abspath(__file__))
sys.path.insert(0, HERE)
REPO = os.environ.get("VERIF_REPO", "/repo")
sys.path.insert(0, REPO)
sys.dont_write_bytecode = True


def main():
    ap = argparse.ArgumentParser()
    ap.add_argument("prop")
    ap.add_argument("--tier", default=os.environ.get("VERIF_TIER") or "quick", choices=["quick", "thorough"])
    ap.add_argument("--seed", type=int, default=int(os.environ.get("VERIF_SEED") or 0))
    ap.add_argument("--replay")
    a = ap.parse_args()
    import tornado
    if not os.path.abspath(tornado.__file__).startswith(os.path.abspath(REPO) + os.sep):
        print("harness error: tornado imported from %s, expected %s" % (tornado.__file__, REPO))
        return 2
    from core import runner
    mod = importlib.import_module("props." + a.prop.lower())
    try:
        if a.replay:
            return runner.replay(mod, a.replay)
        return runner.Run(mod, a.tier, a.seed).run()
    except Exception:
        import traceback
        traceback.print_exc()
        print("harness error (infrastructure failure, not a verdict)")
        return 2


if __name__ == "__main__":
    sys.exit(main())
