"""A scripted transport under the real `tornado.iostream.BaseIOStream` (no sockets).

`FakeStream` implements the four transport primitives (`fileno`, `close_fd`, `read_from_fd`,
`write_to_fd`); every byte arrival, EOF, reset, partial send and send error is an explicit call made by the
harness, so segmentations, close points and partial-send schedules are exact and replayable.

    s = FakeStream(lp.io_loop)            # inside vloop.installed()
    s.feed(b"GET / HT")                   # bytes arrive; the stream's read handler runs if it is listening
    s.feed_eof()                          # orderly EOF (read returns 0)
    s.feed_error(ConnectionResetError(errno.ECONNRESET, "reset"))
    s.written                             # bytearray of everything accepted by write_to_fd
    s.send_script = [1, 0, 5, None]       # next sends accept 1, would-block, 5, then everything

Handler registration is captured by `LoopProxy` (add/update/remove_handler never reach the selector);
everything else (add_callback, add_future, timeouts) goes to the real loop.
"""
from __future__ import annotations
import errno
from tornado.iostream import BaseIOStream
from tornado.ioloop import IOLoop


class LoopProxy:
    def __init__(self, real):
        self._real = real
        self.handlers = {}        # fd -> (handler, events)

    def add_handler(self, fd, handler, events):
        self.handlers[fd] = (handler, events)

    def update_handler(self, fd, events):
        h, _ = self.handlers[fd]
        self.handlers[fd] = (h, events)

    def remove_handler(self, fd):
        self.handlers.pop(fd, None)

    def __getattr__(self, name):
        return getattr(self._real, name)


class _Fd:
    """a dummy file object (hashable, closeable); doubles as the stream's `.socket` for code that only looks at
    `.family` (HTTPServer's request context) or calls `setsockopt`/`getsockname` (set_nodelay, TCPClient)."""
    _n = 0

    def __init__(self, family=None):
        import socket
        _Fd._n += 1
        self.n = _Fd._n
        self.family = socket.AF_INET if family is None else family

    def setsockopt(self, *a):
        pass

    def getsockname(self):
        return ("127.0.0.1", 1)

    def getpeername(self):
        return ("127.0.0.1", 2)

    def fileno(self):
        return 10000 + self.n

    def close(self):
        pass


class FakeStream(BaseIOStream):
    def __init__(self, io_loop=None, **kw):
        super().__init__(**kw)
        self.io_loop = LoopProxy(io_loop or IOLoop.current())
        self._fd = _Fd()
        self.socket = self._fd      # HTTPServer reads stream.socket.family; set to None by close_fd like IOStream
        self.incoming = []          # list of bytes chunks not yet read
        self.eof = False
        self.read_error = None
        self.written = bytearray()
        self.send_script = []       # per send: int = accept at most n bytes (0 = would block), None = all,
                                    # an exception instance = raise it
        self.fd_closed = False
        self.reads = 0

    # ---- transport primitives -----------------------------------------------------------------
    def fileno(self):
        return self._fd

    def close_fd(self):
        self.fd_closed = True
        self.socket = None

    def set_nodelay(self, value):
        pass

    def read_from_fd(self, buf):
        self.reads += 1
        if self.incoming:
            chunk = self.incoming[0]
            n = min(len(chunk), len(buf))
            buf[:n] = chunk[:n]
            if n == len(chunk):
                self.incoming.pop(0)
            else:
                self.incoming[0] = chunk[n:]
            return n
        if self.read_error is not None:
            e, self.read_error = self.read_error, None
            raise e
        if self.eof:
            return 0
        return None

    def write_to_fd(self, data):
        step = self.send_script.pop(0) if self.send_script else None
        if isinstance(step, BaseException):
            raise step
        n = len(data) if step is None else min(step, len(data))
        if n == 0 and len(data) > 0:
            raise BlockingIOError(errno.EWOULDBLOCK, "would block")
        self.written += bytes(data[:n])
        return n

    # ---- harness side ---------------------------------------------------------------------------
    def listening(self, mask):
        h = self.io_loop.handlers.get(self._fd)
        return bool(h and (h[1] & mask))

    def _dispatch(self, events):
        h = self.io_loop.handlers.get(self._fd)
        if h is not None and (h[1] & events or events & IOLoop.ERROR):
            h[0](self._fd, events & (h[1] | IOLoop.ERROR))
            return True
        return False

    def feed(self, data: bytes):
        """bytes arrive from the peer; notify the stream if it is listening for READ."""
        if data:
            self.incoming.append(bytes(data))
        return self._dispatch(IOLoop.READ)

    def feed_eof(self):
        self.eof = True
        return self._dispatch(IOLoop.READ)

    def feed_error(self, exc):
        self.read_error = exc
        return self._dispatch(IOLoop.READ)

    def writable(self):
        """the transport became writable: let the stream flush its write buffer."""
        return self._dispatch(IOLoop.WRITE)

    def take_written(self):
        b = bytes(self.written)
        del self.written[:]
        return b
