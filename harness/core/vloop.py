"""Deterministic event loop for the correspondence checks.

`VLoop` is an asyncio SelectorEventLoop with a *virtual* clock: `time()` only moves when the harness says so
(`advance`, `fire_next_timer`).  `install()` makes it the current asyncio loop, makes tornado's
`IOLoop.current()` wrap it, and patches `IOLoop.time` to the same virtual clock, so tornado timeouts
(`add_timeout`, `call_later`, `gen.with_timeout`, `asyncio.sleep`) are exact and instantaneous.

    with vloop.installed() as lp:          # lp.io_loop is the tornado IOLoop
        fut = asyncio.ensure_future(coro())
        lp.drain()                         # run every ready callback (no time passes)
        lp.fire_next_timer()               # jump to the earliest live timer and run it
        lp.advance(3.0)                    # move the clock by 3 s, firing timers in order
"""
from __future__ import annotations
import asyncio, contextlib, heapq


class VLoop(asyncio.SelectorEventLoop):
    def __init__(self):
        super().__init__()
        self._vtime = 1000.0
        self.io_loop = None

    def time(self):
        return self._vtime

    # -- stepping ---------------------------------------------------------------------------
    def _one_iteration(self):
        self.call_soon(self.stop)
        self.run_forever()

    def drain(self, max_iters=100000):
        """run ready callbacks (and timers that are already due) until nothing is ready."""
        n = 0
        while True:
            self._one_iteration()
            n += 1
            due = any((not h._cancelled) and h._when <= self._vtime for h in self._scheduled)
            if not self._ready and not due:
                return n
            if n > max_iters:
                raise RuntimeError("VLoop.drain: no quiescence after %d iterations" % n)

    def live_timers(self):
        return sorted((h._when for h in self._scheduled if not h._cancelled))

    def fire_next_timer(self):
        """advance the clock to the earliest live timer and run everything that becomes ready.
        -> the deadline fired, or None when there is no live timer."""
        ts = self.live_timers()
        if not ts:
            return None
        self._vtime = max(self._vtime, ts[0])
        self.drain()
        return ts[0]

    def advance(self, dt):
        target = self._vtime + dt
        while True:
            ts = [t for t in self.live_timers() if t <= target]
            if not ts:
                break
            self._vtime = max(self._vtime, ts[0])
            self.drain()
        self._vtime = target
        self.drain()

    def run_until(self, fut, max_timers=10000):
        """drain; while `fut` is not done fire timers in order.  Raises if it can never complete."""
        fut = asyncio.ensure_future(fut, loop=self)
        self.drain()
        n = 0
        while not fut.done():
            if self.fire_next_timer() is None:
                raise RuntimeError("VLoop.run_until: future pending with no ready callbacks and no timers")
            n += 1
            if n > max_timers:
                raise RuntimeError("VLoop.run_until: too many timers")
        return fut.result()


@contextlib.contextmanager
def installed():
    """context manager: a fresh VLoop as current asyncio loop + tornado IOLoop on the same virtual clock."""
    from tornado.ioloop import IOLoop
    from tornado.platform.asyncio import BaseAsyncIOLoop
    lp = VLoop()
    old_time = BaseAsyncIOLoop.time
    BaseAsyncIOLoop.time = lambda self: self.asyncio_loop.time()
    asyncio.set_event_loop(lp)
    try:
        async def _mk():
            return IOLoop.current()
        lp.io_loop = lp.run_until_complete(_mk())
        yield lp
    finally:
        BaseAsyncIOLoop.time = old_time
        try:
            # cancel whatever is left so that nothing leaks into the next case
            for h in list(lp._scheduled):
                h.cancel()
            for t in asyncio.all_tasks(lp):
                t.cancel()
            lp.drain()
        except Exception:
            pass
        try:
            if lp.io_loop is not None:
                lp.io_loop.close(all_fds=False)
            else:
                lp.close()
        except Exception:
            pass
        asyncio.set_event_loop(None)
