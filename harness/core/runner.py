"""Life-cycle of one check (DESIGN.md §2.6): proof stage, correspondence, search, verdict, evidence."""
from __future__ import annotations
import hashlib, importlib, json, os, random, signal, sys, time, traceback

from . import build
from .wire import enc

VERIF = build.VERIF
REPO = os.environ.get("VERIF_REPO", "/repo")
FINDINGS_DIR = os.path.join(VERIF, "known_findings")
STD_TRUSTED = [
    "Lean 4.33.0 kernel; axioms allowed: propext, Classical.choice, Quot.sound (audited per theorem each run)",
    "correspondence harness (generators, canonicalisers, diff) — differential testing, coverage reported here",
    "CPython 3.12 + stdlib pieces the code delegates to, modelled not verified (see assumptions)",
]


class Hang(KeyboardInterrupt):
    """raised by the per-case watchdog.  A KeyboardInterrupt subclass on purpose: `except Exception` handlers in
    the code under test do not swallow it and asyncio re-raises it out of Task steps and `run_forever`."""


def _alarm(signum, frame):
    raise Hang("case exceeded its time limit")


def call_limited(fn, seconds, *a):
    """run fn(*a) with a SIGALRM watchdog (a mutated implementation may loop forever)."""
    old = signal.signal(signal.SIGALRM, _alarm)
    signal.setitimer(signal.ITIMER_REAL, seconds)
    try:
        return fn(*a)
    finally:
        signal.setitimer(signal.ITIMER_REAL, 0)
        signal.signal(signal.SIGALRM, old)


def jdump(x):
    return json.dumps(x, sort_keys=True, default=_jdefault, ensure_ascii=True)


def _jdefault(o):
    if isinstance(o, (bytes, bytearray)):
        return {"hex": bytes(o).hex()}
    if isinstance(o, (set, frozenset)):
        return sorted(o, key=repr)
    if isinstance(o, tuple):
        return list(o)
    return repr(o)


def load_findings(pid):
    try:
        data = json.load(open(os.path.join(FINDINGS_DIR, pid + ".json")))
    except FileNotFoundError:
        return {}
    return {e["signature"]: e for e in data.get("findings", [])
            if e.get("property") == pid and e.get("kind") == "known"}


_HANGS = [0]     # confirmed hangs seen by this process


def _impl_worker(args):
    modname, case = args
    mod = importlib.import_module(modname)
    return _counted_impl(mod, case)


def _counted_impl(mod, case):
    """_safe_impl, but once the implementation has hung for real twice in this process the remaining cases are
    skipped (each confirmation costs minutes; two are evidence enough and they are reported)."""
    if _HANGS[0] >= 2:
        return {"harness_exc": "skipped after confirmed hangs"}
    r = _safe_impl(mod, case)
    if isinstance(r, dict) and r.get("harness_exc") == "Hang":
        _HANGS[0] += 1
    return r


def _safe_impl(mod, case):
    limit = float(os.environ.get("VERIF_CASE_TIMEOUT") or getattr(mod, "CASE_TIMEOUT", 20))
    # A wall-clock watchdog can fire on a starved machine; a real hang hangs again.  Retry once with a
    # much longer limit before calling it a hang.
    for lim in (limit, max(90.0, 2 * limit)):
        try:
            return call_limited(mod.run_impl, lim, case)
        except Hang:
            continue
        except BaseException as e:  # run_impl is expected to canonicalise; this is a harness-level escape
            if isinstance(e, KeyboardInterrupt):
                raise
            try:
                msg = str(e)
            except BaseException:      # e.g. tornado.web.HTTPError.__str__ with a mismatched log_message format
                msg = "<unprintable>"
            try:
                tb = traceback.format_exc()[-800:]
            except BaseException:
                tb = ""
            return {"harness_exc": "%s: %s" % (type(e).__name__, msg), "tb": tb}
    return {"harness_exc": "Hang"}


class Run:
    def __init__(self, mod, tier, seed, replay=None):
        self.mod, self.tier, self.seed = mod, tier, seed
        self.pid = mod.ID
        self.t0 = time.time()
        self.drv = build.Driver()
        self.notes = []
        self.hist = {}

    def count(self, label, n=1):
        self.hist[label] = self.hist.get(label, 0) + n

    # ---------------------------------------------------------------- stage A
    def proof_stage(self):
        mod = self.mod
        info = {"ok": True, "problems": [], "theorems": {}}
        tr = getattr(mod, "translate", None)
        if tr is not None:
            try:
                ok, msg = tr(REPO)
            except Exception as e:
                ok, msg = False, "translator raised %s: %s" % (type(e).__name__, e)
            info["translator"] = msg
            if not ok:
                info["ok"] = False
                info["problems"].append("translator: " + msg)
        targets = list(getattr(mod, "LEAN_TARGETS", ["TornadoModel.%s.Props" % self.pid]))
        ok, log = build.build(targets)
        if not ok:
            info["ok"] = False
            info["problems"].append("lake build failed: " + log[-1500:])
            # the driver may still be usable from an earlier build (hand models do not depend on Gen/*)
            return info
        hits = build.forbidden_tokens(self.pid)
        if hits:
            info["ok"] = False
            info["problems"].append("forbidden tokens: " + ", ".join(hits[:10]))
        names = [t if isinstance(t, str) else t[0] for t in mod.THEOREMS]
        res, rc, out = build.audit(self.pid, targets, names)
        for n in names:
            r = res.get(n)
            if r is None:
                info["ok"] = False
                info["problems"].append("audit produced no line for %s: %s" % (n, out[-400:]))
                continue
            info["theorems"][n] = r
            if r["kind"] != "theorem":
                info["ok"] = False
                info["problems"].append("%s is %s, not a theorem" % (n, r["kind"]))
            bad = [a for a in r["axioms"] if a not in build.ALLOWED_AXIOMS]
            if bad:
                info["ok"] = False
                info["problems"].append("%s depends on axioms %s" % (n, bad))
        if self.tier == "thorough" and info["ok"] and not os.environ.get("VERIF_NO_LEANCHECKER"):
            ok, out = build.leanchecker(targets)
            info["leanchecker"] = "ok" if ok else out
            if not ok:
                info["ok"] = False
                info["problems"].append("leanchecker: " + out[-400:])
        return info

    # ---------------------------------------------------------------- stage B helpers
    def impl_all(self, cases):
        mod = self.mod
        workers = 1
        if getattr(mod, "PARALLEL", False) and len(cases) > 200:
            workers = min(int(os.environ.get("VERIF_WORKERS", "12")), os.cpu_count() or 1)
        if workers <= 1:
            return [_counted_impl(mod, c) for c in cases]
        import multiprocessing as mp
        ctx = mp.get_context("fork")
        with ctx.Pool(workers) as pool:
            return pool.map(_impl_worker, [(mod.__name__, c) for c in cases], chunksize=max(1, len(cases) // (workers * 8)))

    def evaluate(self, cases, do_model=True):
        """-> list of (case, impl, mismatch|None, violation|None)"""
        mod = self.mod
        impls = self.impl_all(cases)
        lines, spans = [], []
        for c, r in zip(cases, impls):
            if isinstance(r, dict) and "harness_exc" in r:
                spans.append((len(lines), 0, 0))
                continue
            ml = list(mod.model_requests(c, r)) if do_model else []
            sl = list(mod.spec_requests(c, r)) if hasattr(mod, "spec_requests") else []
            spans.append((len(lines), len(ml), len(sl)))
            lines += ml + sl
        replies = self.drv.ask(lines) if lines else []
        out = []
        for c, r, (o, nm, ns) in zip(cases, impls, spans):
            mism = None
            if isinstance(r, dict) and "harness_exc" in r:
                viol = None if r["harness_exc"].startswith("skipped") else "implementation escaped the harness: %s" % r["harness_exc"]
                out.append((c, r, None, viol))
                continue
            if do_model:
                try:
                    mres = mod.model_result(c, replies[o:o + nm])
                    ires = mod.impl_view(c, r) if hasattr(mod, "impl_view") else r
                    if jdump(mres) != jdump(ires):
                        mism = {"model": mres, "impl": ires}
                except Exception as e:
                    mism = {"model_error": "%s: %s" % (type(e).__name__, e), "replies": replies[o:o + nm][:5]}
            try:
                viol = mod.spec_violation(c, r, replies[o + nm:o + nm + ns])
            except Exception as e:
                viol = None
                self.notes.append("spec oracle raised %s: %s on %s" % (type(e).__name__, e, jdump(c)[:300]))
                mism = mism or {"spec_oracle_error": str(e)}
            out.append((c, r, mism, viol))
        return out

    def shrink(self, case, pred):
        sh = getattr(self.mod, "shrink", None)
        if sh is None:
            return case
        budget = 150
        t_end = time.time() + float(os.environ.get("VERIF_SHRINK_S", "45"))
        cur = case
        progress = True
        while progress and budget > 0 and time.time() < t_end:
            progress = False
            for cand in sh(cur):
                budget -= 1
                if budget <= 0 or time.time() > t_end:
                    break
                try:
                    if pred(cand):
                        cur, progress = cand, True
                        break
                except Exception:
                    continue
        return cur

    def write_replay(self, kind, payload):
        d = os.path.join(VERIF, "replays", self.pid)
        os.makedirs(d, exist_ok=True)
        h = hashlib.sha1(jdump(payload).encode()).hexdigest()[:10]
        path = os.path.join(d, "%s-%s.json" % (kind, h))
        with open(path, "w") as f:
            f.write(json.dumps(payload, indent=1, sort_keys=True, default=_jdefault))
        return path

    # ---------------------------------------------------------------- main
    def run(self):
        mod, pid = self.mod, self.pid
        known = load_findings(pid)
        proof = self.proof_stage()
        rng = random.Random(self.seed * 1000003 + int(pid[1:]))
        corpus = load_corpus(pid)
        cases = corpus + list(mod.gen_cases(rng, self.tier))
        results = self.evaluate(cases)
        mismatches = [(c, r, m) for c, r, m, v in results if m is not None]
        violations = [(c, r, v) for c, r, m, v in results if v is not None]
        searched = 0
        if (not proof["ok"] or mismatches) and not violations:
            # stage C: search for a concrete input on which the implementation breaks the property
            budget = float(os.environ.get("VERIF_SEARCH_S", "90" if self.tier == "quick" else "600"))
            t_end = time.time() + budget
            extra = []
            nb = getattr(mod, "neighbours", None)
            if nb:
                for c, r, m in mismatches[:20]:
                    extra += list(nb(c))
            k = 0
            while time.time() < t_end and not violations:
                k += 1
                batch = extra if extra else list(mod.gen_cases(random.Random(self.seed * 7919 + k * 104729 + 17), "search"))
                extra = []
                res = self.evaluate(batch, do_model=False)
                searched += len(batch)
                violations = [(c, r, v) for c, r, m, v in res if v is not None]
        # ---- classify
        exit_code = 0
        printed = []
        seen_known, new_sigs = {}, {}
        for c, r, v in violations:
            sig = mod.signature(c, r, v)
            if sig in known:
                seen_known.setdefault(sig, (c, r, v))
            else:
                new_sigs.setdefault(sig, (c, r, v))
        for sig, (c, r, v) in seen_known.items():
            printed.append("KNOWN-FINDING: property=%s %s [%s]" % (pid, known[sig].get("what", v), sig))
        for sig, (c, r, v) in list(new_sigs.items())[:5]:
            def still(cand, sig=sig):
                rr = self.evaluate([cand], do_model=False)[0]
                return rr[3] is not None and mod.signature(cand, rr[1], rr[3]) == sig
            c2 = self.shrink(c, still)
            rr = self.evaluate([c2])[0]
            path = self.write_replay("violation", {"property": pid, "signature": sig, "why": rr[3] or v, "case": c2,
                                                    "impl": rr[1], "mismatch_vs_model": rr[2], "seed": self.seed,
                                                    "tier": self.tier, "proof_problems": proof["problems"]})
            printed.append("VIOLATION property=%s replay=%s" % (pid, os.path.relpath(path, VERIF)))
            exit_code = 1
        if not new_sigs and (not proof["ok"] or mismatches):
            payload = {"property": pid, "seed": self.seed, "tier": self.tier,
                       "broken_proof_obligations": proof["problems"],
                       "searched_cases": searched + len(cases)}
            if mismatches:
                c, r, m = mismatches[0]
                def still_m(cand):
                    return self.evaluate([cand])[0][2] is not None
                c2 = self.shrink(c, still_m)
                rr = self.evaluate([c2])[0]
                payload["correspondence_broken"] = {"stream": "impl vs Lean model (%s)" % pid, "case": c2,
                                                    "impl": rr[1], "mismatch": rr[2],
                                                    "count": len(mismatches), "of": len(cases)}
            path = self.write_replay("unproved", payload)
            printed.append("VIOLATION property=%s replay=%s no-failing-input-found" % (pid, os.path.relpath(path, VERIF)))
            exit_code = 1
        self.write_evidence(proof, cases, results, mismatches, violations, seen_known, new_sigs, searched)
        for ln in printed:
            print(ln)
        n_ok = sum(1 for t in proof["theorems"].values() if t["kind"] == "theorem")
        print("%s %s seed=%d: theorems audited %d/%d proof_ok=%s, cases=%d mismatches=%d violations(new)=%d known=%d, %.1fs"
              % (pid, self.tier, self.seed, n_ok, len(mod.THEOREMS), proof["ok"], len(cases), len(mismatches),
                 len(new_sigs), len(seen_known), time.time() - self.t0))
        for p in proof["problems"][:5]:
            print("  proof-problem:", p[:600])
        for n in self.notes[:5]:
            print("  note:", n[:400])
        return exit_code

    def write_evidence(self, proof, cases, results, mismatches, violations, seen_known, new_sigs, searched):
        mod, pid = self.mod, self.pid
        nontriv = set()
        stats = getattr(mod, "stats", None)
        for c, r, m, v in results:
            try:
                if mod.nontrivial(c, r):
                    nontriv.add(hashlib.sha1(jdump(c).encode()).digest())
                if stats:
                    for lab in stats(c, r):
                        self.count(lab)
            except Exception as e:
                self.count("stats_error:" + type(e).__name__)
        names = [t if isinstance(t, str) else t[0] for t in mod.THEOREMS]
        discharged = [n for n in names if proof["theorems"].get(n, {}).get("kind") == "theorem"
                      and all(a in build.ALLOWED_AXIOMS for a in proof["theorems"][n]["axioms"])] if proof["ok"] or proof["theorems"] else []
        desc = getattr(mod, "describe", lambda c: c)
        samples = [{"case": desc(c), "impl": r} for c, r, m, v in results[:: max(1, len(results) // 3)][:3]]
        thm_samples = [{"theorem": n, "axioms": proof["theorems"][n]["axioms"],
                        "statement": proof["theorems"][n]["statement"][:700]} for n in discharged[:60]]
        ev = {
            "property_id": pid, "tier": self.tier, "seed": self.seed, "level": "proof",
            "coverage": {
                "obligations": len(names), "discharged": len(discharged),
                "checker_cmd": "cd lean && lake build %s && lake env lean <generated audit: Lean.collectAxioms per theorem>%s"
                               % (" ".join(getattr(mod, "LEAN_TARGETS", ["TornadoModel.%s.Props" % pid])),
                                  " && lake env leanchecker" if self.tier == "thorough" else ""),
                "trusted_base": STD_TRUSTED + list(getattr(mod, "TRUSTED", [])),
                "theorems": thm_samples,
                "undischarged": [n for n in names if n not in discharged],
                "proof_problems": proof["problems"],
                "translator": proof.get("translator"),
                "evaluations": len(cases) + searched,
                "distinct_nontrivial": len(nontriv),
                "rule": getattr(mod, "RULE", ""),
                "samples": json.loads(jdump(samples)),
                "traces_validated_against_impl": len(cases) - len(mismatches),
                "correspondence_mismatches": len(mismatches),
                "search_cases": searched,
                "driver_lines": self.drv.lines,
                "distribution": dict(sorted(self.hist.items())),
                "exhaustive": bool(getattr(mod, "EXHAUSTIVE", {}).get(self.tier, False)),
                "clauses": getattr(mod, "CLAUSES", {}),
                "clause_caveats": list(getattr(mod, "CLAUSE_CAVEATS", [])),
                "known_findings_seen": sorted(seen_known),
                "notes": self.notes[:20],
            },
            "assumptions": list(getattr(mod, "ASSUMPTIONS", [])),
            "wall_s": round(time.time() - self.t0, 2),
            "violations": len(new_sigs),
        }
        os.makedirs(os.path.join(VERIF, "evidence"), exist_ok=True)
        path = os.path.join(VERIF, "evidence", pid + ".json")
        with open(path + ".tmp", "w") as f:
            json.dump(ev, f, indent=1, sort_keys=True)
            f.write("\n")
        os.replace(path + ".tmp", path)


def load_corpus(pid):
    d = os.path.join(VERIF, "harness", "corpus", pid)
    out = []
    if os.path.isdir(d):
        for f in sorted(os.listdir(d)):
            if f.endswith(".json"):
                j = json.load(open(os.path.join(d, f)))
                out.append(j["case"] if isinstance(j, dict) and "case" in j else j)
    return out


def replay(mod, path):
    j = json.load(open(path))
    case = j.get("case") or j.get("correspondence_broken", {}).get("case")
    if case is None:
        print(json.dumps(j, indent=1)[:4000])
        print("(no concrete input in this replay file: it names the proof obligation / correspondence that no longer checks)")
        return 0
    run = Run(mod, "quick", 0)
    ok, log = build.build(getattr(mod, "LEAN_TARGETS", ["TornadoModel.%s.Props" % mod.ID]))
    c, r, m, v = run.evaluate([case])[0]
    print("case:      ", jdump(case)[:3000])
    print("impl:      ", jdump(r)[:3000])
    print("vs model:  ", "agree" if m is None else jdump(m)[:3000])
    print("property:  ", "holds on this input" if v is None else "VIOLATED: " + v)
    return 1 if v is not None else 0
