"""Wire values of the driver line protocol; mirrors lean/TornadoModel/Base/Wire.lean.

Python value      token
int               -12
bytes/bytearray   x0a0b
str               u<hex of utf-8>   (or [cp,cp,…] when the str holds lone surrogates)
None              ~
Atom("T")         T        (enum names, booleans via atom(True/False))
list/tuple        [a,b,c]
"""
from __future__ import annotations
import re


class Atom(str):
    """A bare identifier on the wire (enum constant, T/F)."""
    def __repr__(self):
        return "Atom(%s)" % str.__repr__(self)


T, F, U = Atom("T"), Atom("F"), Atom("U")
_ATOM_RE = re.compile(r"[A-Za-z_][A-Za-z0-9_.:/+-]*\Z")


def atom(x) -> Atom:
    if x is True:
        return T
    if x is False:
        return F
    a = Atom(x)
    assert _ATOM_RE.match(a), a
    return a


def enc(v) -> str:
    if isinstance(v, Atom):
        return str(v)
    if v is None:
        return "~"
    if isinstance(v, bool):
        return "T" if v else "F"
    if isinstance(v, int):
        return str(v)
    if isinstance(v, (bytes, bytearray, memoryview)):
        return "x" + bytes(v).hex()
    if isinstance(v, str):
        try:
            return "u" + v.encode("utf-8").hex()
        except UnicodeEncodeError:
            return "[" + ",".join(str(ord(c)) for c in v) + "]"
    if isinstance(v, (list, tuple)):
        return "[" + ",".join(enc(x) for x in v) + "]"
    raise TypeError("cannot encode %r" % (v,))


def _scalar(tok: str):
    if tok == "~":
        return None
    if tok[0] == "x" and re.fullmatch(r"x(?:[0-9a-fA-F]{2})*", tok):
        return bytes.fromhex(tok[1:])
    if tok[0] == "u" and re.fullmatch(r"u(?:[0-9a-fA-F]{2})*", tok):
        return bytes.fromhex(tok[1:]).decode("utf-8")
    if re.fullmatch(r"-?[0-9]+", tok):
        return int(tok)
    if _ATOM_RE.match(tok):
        return Atom(tok)
    raise ValueError("bad token %r" % tok)


def dec(s: str):
    v, i = _dec(s, 0)
    if i != len(s):
        raise ValueError("trailing data in %r" % s)
    return v


def _dec(s, i):
    if s[i] == "[":
        i += 1
        out = []
        if s[i] == "]":
            return out, i + 1
        while True:
            v, i = _dec(s, i)
            out.append(v)
            if s[i] == ",":
                i += 1
            elif s[i] == "]":
                return out, i + 1
            else:
                raise ValueError("bad list in %r at %d" % (s, i))
    j = i
    while j < len(s) and s[j] not in ",]":
        j += 1
    return _scalar(s[i:j]), j


def line(topic: str, op: str, *args) -> str:
    return " ".join([topic, op] + [enc(a) for a in args])


def parse_reply(reply: str):
    """-> ('ok', [values]) | ('err', kind)"""
    parts = reply.split(" ")
    if parts[0] == "ok":
        return "ok", [dec(p) for p in parts[1:]]
    if parts[0] == "err":
        return "err", " ".join(parts[1:])
    raise ValueError("bad reply %r" % reply)
