"""C36 — future combinators always settle and report the right outcome
(tornado.gen.multi / WaitIterator / with_timeout, tornado.concurrent.chain_future) on real asyncio futures
driven by the virtual loop; every schedule is a list of explicit operations:
  set   settle an input from outside the loop        soon  loop.call_soon(settle)
  tick  one loop iteration                           fire  clock reaches the deadline + one iteration
  next  `if not wi.done(): wi.next()` (consumer protocol of WaitIterator)
Input futures come in two kinds: "a" = asyncio.Future (default) and "f" = concurrent.futures.Future (case keys
`ka`/`kb` for chain/timeout, `fk` = one kind per input for multi/wait).
"""
import asyncio, concurrent.futures, itertools, logging, re
from core.wire import atom, line, parse_reply, Atom
from core import vloop

ID = "C36"
LEAN_TARGETS = ["TornadoModel.C36.Props"]
_T = "TornadoModel.C36."
THEOREMS = [_T + n for n in [
    "chain_b_stable", "chain_copies", "chain_never_pending", "chain_only_from_source",
    "multi_finish_spec", "multi_last_callback", "multi_out_stable",
    "timeout_res_stable", "with_timeout_before", "with_timeout_after", "with_timeout_no_deadline",
    "chain_cf_copies", "chain_cf_never_pending", "with_timeout_cf_no_deadline",
    "multi_outcome", "multi_settles", "multi_not_early", "multi_out_correct", "multi_drains", "multi_never_pending",
    "waititer_full", "waititer_all_yielded", "waititer_never_pending", "waititer_next_yields",
    "waititer_outcomes", "waititer_yields_spec", "waitYields_distinct",
]]
GOALS = []   # nothing is tie-only any more (all former `*_goal` statements are theorems)
TRUSTED = [
    "asyncio.Future / event loop abstraction of C36/Model.lean: settled futures never change; done-callbacks are "
    "call_soon'ed in registration order when the future settles and run on a later iteration; one iteration runs "
    "the callbacks that were ready when it started; due timers join the end of the ready queue; cancelled handles "
    "are skipped (exercised step by step against real asyncio on every run)",
    "tornado.ioloop add_timeout/remove_timeout on the asyncio loop, logging via tornado.log.app_log",
    "concurrent.futures.Future sources (Chain.initCF / Timeout.initCF): done-callbacks run synchronously when the "
    "future settles and IOLoop.add_future hops to the loop with add_callback, so `copy` reaches the ready queue at "
    "the same point as for an asyncio future; an already-done source behaves like a pending one settled at once "
    "(no inline copy) — exercised step by step against real concurrent.futures.Future objects on every run",
]
ASSUMPTIONS = [
    "inputs are asyncio Futures or concurrent.futures Futures settled (on the loop thread) by set_result / "
    "set_exception(Exception subclass instance) / cancel()",
    "quiet_exceptions=() ; yieldables other than Futures are not modelled",
    "concurrent.futures inputs: chain_future (source and/or destination) and with_timeout are compared step by step "
    "(with_timeout without the log-record count: error_callback runs at set time there and also logs a cancelled "
    "concurrent future); multi / WaitIterator with concurrent.futures children are compared on the final state "
    "after the loop drained (their callbacks run synchronously at set time) and judged by the same oracle; "
    "WaitIterator schedules with concurrent children run one loop iteration after every operation and have no "
    "duplicate arguments",
    "WaitIterator is driven by the documented consumer protocol (next() only when not done() and the previous "
    "future has resolved); the outputs of multi/with_timeout are not cancelled by the consumer",
    "with_timeout: an input settled by a call_soon'ed callback in the very iteration in which the timer is due "
    "counts as not finished before the deadline (the oracle accepts either outcome there, the model says TimeoutError)",
]
RULE = ("complete enumeration of <=4 inputs x {result,exception,cancelled} x all completion orders x "
        "{already done} x tick placements (batch/step/call_soon) for multi (lists with duplicates, dicts) and "
        "WaitIterator (args/kwargs, eager/lazy consumer), all op sequences up to length 5 for with_timeout "
        "(deadline placements) and chain_future, each input future kind (asyncio.Future / concurrent.futures.Future: "
        "chain source x destination, with_timeout input, all kind vectors of <=2-3 multi / WaitIterator children), "
        "plus random interleavings; non-trivial = at least one input "
        "settles after construction and the output is observed settled")
EXHAUSTIVE = {"quick": True, "thorough": True}
CLAUSES = {
    "multi resolves once all inputs are done": "multi_settles + multi_not_early (all children lists, initial states "
                                               "and schedules; reachability invariant Multi.Inv)",
    "with results in input order (or by dict key) or the exception of the first failing input in order "
    "(cancelled = CancelledError)": "multi_outcome + multi_out_correct (every schedule; step lemmas multi_finish_spec, "
                                    "multi_last_callback, multi_out_stable); dict keys: tie only",
    "WaitIterator yields every input exactly once in completion order with the matching index":
        "waititer_full + waititer_all_yielded + waititer_outcomes + waititer_yields_spec + waititer_next_yields "
        "(ANY argument list — a future passed at several positions is yielded once per position —, every schedule; "
        "counting invariant Wait.Inv; waitYields_distinct: for distinct inputs the index is indexOf); the code "
        "modelled is the one after the fix: commit for duplicate arguments",
    "with_timeout settles with the input's outcome if it finishes before the deadline and with TimeoutError otherwise":
        "with_timeout_before + with_timeout_after + with_timeout_no_deadline + timeout_res_stable",
    "a chained future copies its source's outcome, including cancellation, unless already done":
        "chain_copies + chain_b_stable + chain_only_from_source; concurrent.futures source: chain_cf_copies",
    "none is left pending forever once its inputs are done":
        "chain_never_pending, chain_cf_never_pending; with_timeout_before/after/no_deadline, "
        "with_timeout_cf_no_deadline (result settled in every case); "
        "multi: multi_settles, multi_drains + multi_never_pending; WaitIterator (any arguments): "
        "waititer_never_pending + waititer_next_yields",
}
PARALLEL = False   # a case costs ~0.2 ms; forking workers is slower than running them in-process
CASE_TIMEOUT = 20
LEVEL_NOTE = "asyncio Future/loop is an abstraction in the model, tied step by step to real asyncio futures"
TECHNIQUE = "state-machine models + invariants over all schedules; exhaustive small-scope correspondence"

OUTS = [["r", 0], ["e", 0], "c"]   # value / code filled in per input


def _o(kind, i):
    return "c" if kind == "c" else [kind, (10 + i) if kind == "r" else (3 + i)]


# ------------------------------------------------------------------------------------------ generators
def _sched(order, outs, mode, rng=None):
    """order: futures to settle in that order; outs: future -> outcome"""
    ops = []
    if mode == "batch":
        ops = [["set", f, outs[f]] for f in order]
    elif mode == "step":
        for f in order:
            ops += [["set", f, outs[f]], ["tick"]]
    elif mode == "soon":
        ops = [["soon", f, outs[f]] for f in order]
    elif mode == "soonstep":
        for f in order:
            ops += [["soon", f, outs[f]], ["tick"]]
    else:
        for f in order:
            ops.append([rng.choice(["set", "soon"]), f, outs[f]])
            ops += [["tick"]] * rng.choice([0, 0, 1, 1, 2])
    return ops + [["tick"]] * 3


def _rgs(n):
    """restricted growth strings = all patterns of duplicates among n positions"""
    def rec(prefix, mx):
        if len(prefix) == n:
            yield list(prefix)
            return
        for v in range(mx + 2):
            yield from rec(prefix + [v], max(mx, v))
    if n == 0:
        yield []
    else:
        yield from rec([0], 0)


def _multi_cases(nmax, modes, predone_max, dup=True, partial=False):
    for n in range(0, nmax + 1):
        for ch in _rgs(n):
            k = (max(ch) + 1) if ch else 0
            if not dup and k != n:
                continue
            for kinds in itertools.product("rec", repeat=k):
                outs = [_o(kinds[i], i) for i in range(k)]
                for pre in itertools.product([False, True], repeat=k):
                    if sum(pre) > predone_max:
                        continue
                    st = [outs[i] if pre[i] else "p" for i in range(k)]
                    later = [i for i in range(k) if not pre[i]]
                    for order in itertools.permutations(later):
                        for mode in modes:
                            yield {"k": "multi", "st": st, "ch": ch, "dict": False, "ops": _sched(order, outs, mode)}
                        if partial and order:
                            yield {"k": "multi", "st": st, "ch": ch, "dict": False,
                                   "ops": _sched(order[:-1], outs, "step")}


def _wait_ops(order, outs, mode, consumer, n):
    base = _sched(order, outs, mode)
    if consumer == "eager":
        ops = [["next"]]
        for op in base:
            ops += [op, ["next"]]
        return ops + [["next"]] * 2
    if consumer == "lazy":
        return base + [["next"]] * (n + 2)
    ops = []   # "late": one next up front, then everything, then the rest with ticks
    ops = [["next"]] + base
    for _ in range(n + 1):
        ops += [["next"], ["tick"]]
    return ops


def _wait_cases(nmax, modes, consumers, predone_max, dup):
    for n in range(1, nmax + 1):
        for args in _rgs(n):
            k = max(args) + 1
            if (k != n) != dup:
                continue
            for kinds in itertools.product("rec", repeat=k):
                outs = [_o(kinds[i], i) for i in range(k)]
                for pre in itertools.product([False, True], repeat=k):
                    if sum(pre) > predone_max:
                        continue
                    st = [outs[i] if pre[i] else "p" for i in range(k)]
                    later = [i for i in range(k) if not pre[i]]
                    for order in itertools.permutations(later):
                        for mode in modes:
                            for c in consumers:
                                yield {"k": "wait", "st": st, "args": args, "kw": False,
                                       "ops": _wait_ops(order, outs, mode, c, n)}


def _kind_vectors(k):
    """all assignments of future kinds to k inputs with at least one concurrent.futures.Future"""
    return [list(v) for v in itertools.product("af", repeat=k) if "f" in v]


def _tick_each(ops):
    """let the loop go idle after every operation (schedules for WaitIterator over concurrent futures):
    one iteration after set / next, two after soon (the settle runs in the first, its callbacks in the second)"""
    out = []
    for op in ops:
        if op[0] != "tick":
            out += [op] + [["tick"]] * (2 if op[0] == "soon" else 1)
    return out + [["tick"]]


def _drained(ops):
    """is every operation followed by enough iterations for the loop to be idle before the next one?"""
    need = 0
    for op in ops:
        if op[0] == "tick":
            need = max(0, need - 1)
        elif need:
            return False
        else:
            need = 2 if op[0].startswith("soon") else 1
    return need == 0


def _multi_cf_cases(nmax, modes, predone_max):
    for c in _multi_cases(nmax, modes, predone_max, partial=True):
        for fk in _kind_vectors(len(c["st"])):
            yield {**c, "fk": fk}


def _wait_cf_cases(nmax, modes, consumers, predone_max):
    for c in _wait_cases(nmax, modes, consumers, predone_max, dup=False):
        for fk in _kind_vectors(len(c["st"])):
            yield {**c, "fk": fk, "ops": _tick_each(c["ops"])}


def _timeout_cases(maxlen, ka="a"):
    settles = [["setA", o] for o in (["r", 10], ["e", 3], "c")] + [["soonA", o] for o in (["r", 10], ["e", 3], "c")]
    alphabet = settles + [["tick"], ["fire"]]
    for pa in ["p", ["r", 10], ["e", 3], "c"]:
        for L in range(0, maxlen + 1):
            for seq in itertools.product(range(len(alphabet)), repeat=L):
                ops = [alphabet[i] for i in seq]
                if sum(1 for o in ops if o[0] in ("setA", "soonA")) > 1:
                    continue
                if sum(1 for o in ops if o[0] == "fire") > 2:
                    continue
                if pa != "p" and any(o[0] in ("setA", "soonA") for o in ops):
                    continue
                c = {"k": "timeout", "pa": pa, "ops": ops + [["tick"], ["tick"]]}
                if ka != "a":
                    c["ka"] = ka
                yield c


def _chain_cases(maxlen, ka="a", kb="a"):
    aset = [[m, o] for m in ("setA", "soonA") for o in (["r", 10], ["e", 3], "c")]
    bset = [[m, o] for m in ("setB", "soonB") for o in (["r", 20], "c")]
    alphabet = aset + bset + [["tick"]]
    for pa in ["p", ["r", 10], ["e", 3], "c"]:
        for pb in ["p", ["r", 20], "c"]:
            for L in range(0, maxlen + 1):
                for seq in itertools.product(range(len(alphabet)), repeat=L):
                    ops = [alphabet[i] for i in seq]
                    if sum(1 for o in ops if o[0][-1] == "A") > (0 if pa != "p" else 1):
                        continue
                    if sum(1 for o in ops if o[0][-1] == "B") > 1:
                        continue
                    c = {"k": "chain", "pa": pa, "pb": pb, "ops": ops + [["tick"], ["tick"]]}
                    if (ka, kb) != ("a", "a"):
                        c["ka"], c["kb"] = ka, kb
                    yield c


def _random_case(rng):
    """a random interleaving; about one in three gets concurrent.futures inputs"""
    c = _random_base(rng)
    if rng.random() < 0.35:
        k = c["k"]
        if k == "chain":
            c["ka"], c["kb"] = rng.choice([("f", "a"), ("f", "a"), ("f", "f"), ("a", "f")])
        elif k == "timeout":
            c["ka"] = "f"
        elif k == "multi" or len(set(c["args"])) == len(c["args"]):
            c["fk"] = rng.choice(_kind_vectors(len(c["st"])))
            if k == "wait":
                c["ops"] = _tick_each(c["ops"])
    return c


def _random_base(rng):
    k = rng.random()
    if k < 0.35:
        n = rng.randint(1, 4)
        ch = rng.choice(list(_rgs(n)))
        kk = max(ch) + 1
        outs = [_o(rng.choice("rrec"), i) for i in range(kk)]
        pre = [rng.random() < 0.25 for _ in range(kk)]
        later = [i for i in range(kk) if not pre[i]]
        rng.shuffle(later)
        if rng.random() < 0.15 and later:
            later = later[:-1]
        return {"k": "multi", "st": [outs[i] if pre[i] else "p" for i in range(kk)], "ch": ch,
                "dict": rng.random() < 0.4, "ops": _sched(later, outs, "mixed", rng)}
    if k < 0.7:
        n = rng.randint(1, 4)
        args = list(range(n)) if rng.random() < 0.85 else rng.choice(list(_rgs(n)))
        kk = max(args) + 1
        outs = [_o(rng.choice("rrec"), i) for i in range(kk)]
        pre = [rng.random() < 0.25 for _ in range(kk)]
        later = [i for i in range(kk) if not pre[i]]
        rng.shuffle(later)
        base = _sched(later, outs, "mixed", rng)
        ops = []
        for op in base:
            ops += [["next"]] * rng.choice([0, 0, 1, 1, 2])
            ops.append(op)
        for _ in range(n + 1):
            ops += [["next"]] + [["tick"]] * rng.choice([0, 1])
        return {"k": "wait", "st": [outs[i] if pre[i] else "p" for i in range(kk)], "args": args,
                "kw": rng.random() < 0.3, "ops": ops}
    if k < 0.85:
        ops = []
        settled = False
        for _ in range(rng.randint(0, 9)):
            c = rng.random()
            if c < 0.25 and not settled:
                ops.append([rng.choice(["setA", "soonA"]), rng.choice([["r", 10], ["e", 3], "c"])])
                settled = True
            elif c < 0.45:
                ops.append(["fire"])
            else:
                ops.append(["tick"])
        return {"k": "timeout", "pa": "p", "ops": ops + [["tick"], ["tick"]]}
    ops = []
    for _ in range(rng.randint(0, 8)):
        c = rng.random()
        if c < 0.3:
            ops.append([rng.choice(["setA", "soonA"]), rng.choice([["r", 10], ["e", 3], "c"])])
        elif c < 0.5:
            ops.append([rng.choice(["setB", "soonB"]), rng.choice([["r", 20], "c"])])
        else:
            ops.append(["tick"])
    return {"k": "chain", "pa": rng.choice(["p", "p", "p", ["r", 10], "c"]), "pb": rng.choice(["p", "p", "p", "c"]),
            "ops": ops + [["tick"], ["tick"]]}


def gen_cases(rng, tier):
    if tier == "search":
        for _ in range(3000):
            yield _random_case(rng)
        return
    if tier == "quick":
        yield from _multi_cases(3, ["batch", "step", "soon"], 3, partial=True)
        yield from _multi_cases(4, ["batch", "step"], 0, dup=False)
        yield from _multi_cases(4, ["batch"], 1, dup=True)
        yield from _wait_cases(3, ["batch", "step"], ["eager", "lazy", "late"], 3, dup=False)
        yield from _wait_cases(4, ["batch"], ["eager", "lazy"], 0, dup=False)
        yield from _wait_cases(3, ["batch", "step"], ["eager", "lazy", "late"], 2, dup=True)
        yield from _timeout_cases(4)
        yield from _chain_cases(3)
        yield from _chain_cases(3, "f", "a")
        yield from _chain_cases(2, "f", "f")
        yield from _chain_cases(2, "a", "f")
        yield from _timeout_cases(4, "f")
        yield from _multi_cf_cases(2, ["batch", "step", "soon"], 2)
        yield from _wait_cf_cases(2, ["batch", "step"], ["eager", "lazy", "late"], 2)
        nrand = 1500
    else:
        yield from _multi_cases(4, ["batch", "step", "soon", "soonstep"], 4, partial=True)
        yield from _wait_cases(4, ["batch", "step", "soon"], ["eager", "lazy", "late"], 4, dup=False)
        yield from _wait_cases(4, ["batch", "step"], ["eager", "lazy", "late"], 3, dup=True)
        yield from _timeout_cases(5)
        yield from _chain_cases(4)
        yield from _chain_cases(4, "f", "a")
        yield from _chain_cases(3, "f", "f")
        yield from _chain_cases(3, "a", "f")
        yield from _timeout_cases(5, "f")
        yield from _multi_cf_cases(3, ["batch", "step", "soon", "soonstep"], 3)
        yield from _wait_cf_cases(3, ["batch", "step", "soon"], ["eager", "lazy", "late"], 3)
        nrand = 20000
    for _ in range(nrand):
        yield _random_case(rng)


# ------------------------------------------------------------------------------------------ implementation
class E(Exception):
    def __init__(self, code):
        Exception.__init__(self, code)
        self.code = code


def _settle(f, o):
    if f.done():
        return False
    if o == "c":
        f.cancel()
    elif o[0] == "r":
        f.set_result(o[1])
    else:
        f.set_exception(E(o[1]))
    return True


def _exc_code(e):
    if isinstance(e, E):
        return e.code
    if isinstance(e, (asyncio.CancelledError, concurrent.futures.CancelledError)):
        return 0
    if isinstance(e, (asyncio.TimeoutError, concurrent.futures.TimeoutError)):
        return 1
    if isinstance(e, (asyncio.InvalidStateError, concurrent.futures.InvalidStateError)):
        return 2
    return "Uncaught:" + type(e).__name__


def _state(f):
    if not f.done():
        return "p"
    if f.cancelled():
        return "c"
    e = f.exception()
    if e is not None:
        return ["e", _exc_code(e)]
    return ["r", f.result()]


class _LogCount(logging.Handler):
    def __init__(self):
        logging.Handler.__init__(self)
        self.n = 0

    def emit(self, record):
        self.n += 1


_LOOP = {}


def _loop():
    """one virtual loop per process (creating a selector loop per case costs more than the case itself);
    every case must leave it idle, which is checked."""
    import os, atexit
    pid = os.getpid()
    ent = _LOOP.get(pid)
    if ent is None:
        _LOOP.clear()
        cm = vloop.installed()
        lp = cm.__enter__()
        ent = _LOOP[pid] = (lp, cm)
    return ent[0]


def _reset(lp):
    for hd in list(lp._scheduled):
        hd.cancel()
    lp._scheduled.clear()
    lp._timer_cancelled_count = 0
    lp._ready.clear()
    lp._stopping = False


def _is_cf(case):
    """does the case use concurrent.futures.Future objects?"""
    return "f" in (case.get("ka", "a"), case.get("kb", "a")) or "f" in (case.get("fk") or [])


def run_impl(case):
    from tornado import gen
    from tornado.concurrent import chain_future
    lg = logging.getLogger("tornado.application")
    h = _LogCount()
    old_prop, old_handlers = lg.propagate, lg.handlers[:]
    lg.propagate, lg.handlers = False, [h]
    cfl = logging.getLogger("concurrent.futures")   # "exception calling callback for <Future>" (swallowed there)
    hc = _LogCount()
    old_cf = cfl.propagate, cfl.handlers[:]
    cfl.propagate, cfl.handlers = False, [hc]
    lp = _loop()
    _reset(lp)
    try:
        cberrs = []

        def on_exc(loop, ctx):
            if "handle" in ctx or str(ctx.get("message", "")).startswith("Exception in callback"):
                cberrs.append(type(ctx.get("exception")).__name__)
        lp.set_exception_handler(on_exc)
        out = _run(case, lp, gen, chain_future, h, cberrs)
        if _is_cf(case):
            out["cflog"] = hc.n
        return out
    finally:
        lg.propagate, lg.handlers = old_prop, old_handlers
        cfl.propagate, cfl.handlers = old_cf
        _reset(lp)


def _mk(st, kinds=None):
    """input futures in the given states; kinds[i] == "f" makes the i-th a concurrent.futures.Future"""
    fs = []
    for i, o in enumerate(st):
        f = concurrent.futures.Future() if kinds and kinds[i] == "f" else asyncio.Future()
        if o != "p":
            _settle(f, o)
        fs.append(f)
    return fs


def _run(case, lp, gen, chain_future, h, cberrs):
    k = case["k"]
    tick = lp._one_iteration
    if k == "chain":
        a, b = _mk([case["pa"], case["pb"]], [case.get("ka", "a"), case.get("kb", "a")])
        chain_future(a, b)
        tr = [[_state(a), _state(b)]]
        for op in case["ops"]:
            f = a if op[0].endswith("A") else b
            if op[0].startswith("set"):
                _settle(f, op[1])
            elif op[0].startswith("soon"):
                lp.call_soon(_settle, f, op[1])
            else:
                tick()
            tr.append([_state(a), _state(b)])
        return {"trace": tr, "cberrs": cberrs, "quiet": not lp._ready}
    if k == "timeout":
        (a,) = _mk([case["pa"]], [case.get("ka", "a")])
        deadline = lp.time() + 10
        res = gen.with_timeout(deadline, a)
        obs = lambda: [_state(a), _state(res), bool(lp.live_timers()), h.n]
        tr = [obs()]
        for op in case["ops"]:
            if op[0] == "setA":
                _settle(a, op[1])
            elif op[0] == "soonA":
                lp.call_soon(_settle, a, op[1])
            elif op[0] == "fire":
                lp._vtime = max(lp._vtime, deadline)
                tick()
            else:
                tick()
            tr.append(obs())
        return {"trace": tr, "cberrs": cberrs, "quiet": not lp._ready}
    fs = _mk(case["st"], case.get("fk"))
    order = []          # actual settle order of the inputs (ghost for the oracle)

    def settle(i, o):
        if _settle(fs[i], o):
            order.append(i)

    def env(op):
        if op[0] == "set":
            settle(op[1], op[2])
        elif op[0] == "soon":
            lp.call_soon(settle, op[1], op[2])
        else:
            tick()
    if k == "multi":
        ch = case["ch"]
        if case.get("dict"):
            keys = ["k%d" % j for j in range(len(ch))]
            out = gen.multi({kk: fs[i] for kk, i in zip(keys, ch)})
        else:
            keys = None
            out = gen.multi([fs[i] for i in ch])
        keys_ok = True

        def obs():
            nonlocal keys_ok
            s = _state(out)
            if s != "p" and s != "c" and s[0] == "r":
                v = s[1]
                if keys is not None:
                    keys_ok = keys_ok and isinstance(v, dict) and list(v.keys()) == keys
                    v = list(v.values()) if isinstance(v, dict) else v
                else:
                    keys_ok = keys_ok and isinstance(v, list)
                s = ["v", list(v)]
            return [s, h.n, [_state(f) for f in fs]]
        tr = [obs()]
        for op in case["ops"]:
            env(op)
            tr.append(obs())
        return {"trace": tr, "cberrs": cberrs, "quiet": not lp._ready, "keys_ok": keys_ok}
    if k == "wait":
        args = case["args"]
        if case.get("kw"):
            names = ["k%d" % j for j in range(len(args))]
            wi = gen.WaitIterator(**{n: fs[i] for n, i in zip(names, args)})
            unname = {n: j for j, n in enumerate(names)}
        else:
            wi = gen.WaitIterator(*[fs[i] for i in args])
            unname = None
        pre = []
        for i in args:
            if case["st"][i] != "p" and i not in pre:
                pre.append(i)
        outs = []       # futures returned by next() | "KeyError"
        yields = []     # (current_index, outcome) observed when a next() future resolves
        seen = 0

        def cur():
            c = wi.current_index
            if c is not None and unname is not None:
                c = unname.get(c, "Unknown:%r" % (c,))
            return c

        def obs():
            nonlocal seen
            o = [x if isinstance(x, str) else _state(x) for x in outs]
            while seen < len(o) and o[seen] != "p":
                if o[seen] != "KeyError":
                    yields.append([cur(), o[seen]])
                seen += 1
            return [o, cur(), len(cberrs)]
        tr = [obs()]
        for op in case["ops"]:
            if op[0] == "next":
                if not wi.done() and not (outs and not isinstance(outs[-1], str) and not outs[-1].done()):
                    try:
                        outs.append(wi.next())
                    except KeyError:
                        outs.append("KeyError")
                    except Exception as e:
                        outs.append("Uncaught:" + type(e).__name__)
            else:
                env(op)
            tr.append(obs())
        return {"trace": tr, "cberrs": cberrs, "quiet": not lp._ready, "yields": yields, "order": pre + order,
                "done": bool(not wi._finished and not wi._unfinished), "final": [_state(f) for f in fs]}
    raise AssertionError(case)


# ------------------------------------------------------------------------------------------ model / spec
def _w(o):
    """outcome / state -> wire"""
    if isinstance(o, str):
        return atom(o)
    return [atom(o[0]), o[1]]


def _wops(ops):
    out = []
    for op in ops:
        out.append([atom(op[0])] + [(_w(x) if not isinstance(x, int) else x) for x in op[1:]])
    return out


def model_requests(case, impl):
    k = case["k"]
    cf = "-cf" if case.get("ka", "a") == "f" else ""     # Chain.initCF / Timeout.initCF: concurrent.futures source
    if k == "chain":
        return [line(ID, "chain" + cf, _w(case["pa"]), _w(case["pb"]), _wops(case["ops"]))]
    if k == "timeout":
        return [line(ID, "timeout" + cf, _w(case["pa"]), _wops(case["ops"]))]
    if k == "multi":
        return [line(ID, "multi", [_w(s) for s in case["st"]], case["ch"], _wops(case["ops"]))]
    return [line(ID, "wait", [_w(s) for s in case["st"]], case["args"], _wops(case["ops"]))]


def _norm(v):
    if isinstance(v, Atom):
        return {"T": True, "F": False}.get(str(v), str(v))
    if isinstance(v, list):
        return [_norm(x) for x in v]
    return v


def _vals(reply):
    st, vals = parse_reply(reply)
    assert st == "ok", reply
    return [_norm(v) for v in vals]


def model_result(case, replies):
    vals = _vals(replies[0])
    k = case["k"]
    if _is_cf(case):
        if k == "timeout":     # without the log-record count (error_callback timing differs for concurrent futures)
            return {"trace": [[a, r, t == "armed"] for a, r, t, l in vals[0]], "cberrs": [], "cflog": 0}
        if k in ("wait", "multi") and not _final_comparable(case):
            return {"not-compared": "schedule does not let the loop drain", "cflog": 0}
        if k == "wait":        # final state after the loop drained
            return {"final": vals[0][-1], "order": list(dict.fromkeys(vals[2])), "done": vals[3], "cflog": 0}
        if k == "multi":
            return {"final": vals[0][-1][0], "cberrs": [], "cflog": 0}
        return {"trace": vals[0], "cberrs": [], "cflog": 0}
    if k == "timeout":
        return {"trace": [[a, r, t == "armed", l] for a, r, t, l in vals[0]], "cberrs": []}
    if k == "wait":
        return {"trace": vals[0], "order": list(dict.fromkeys(vals[2])), "done": vals[3]}
    return {"trace": vals[0], "cberrs": []}


def _final_comparable(case):
    """concurrent.futures children run their callbacks synchronously at set time, so the model (asyncio timing) only
    predicts the state after the loop has drained: multi — the schedule ends with two idle iterations;
    WaitIterator — the loop is idle before every operation (generated that way; shrinking may break it)"""
    ops = case["ops"]
    if case["k"] == "multi":
        return len(ops) >= 2 and ops[-1][0] == "tick" and ops[-2][0] == "tick"
    return _drained(ops)


def impl_view(case, impl):
    k = case["k"]
    if _is_cf(case):
        cfl = impl["cflog"]
        if k == "timeout":
            return {"trace": [[a, r, t] for a, r, t, l in impl["trace"]], "cberrs": impl["cberrs"], "cflog": cfl}
        if k in ("wait", "multi") and not _final_comparable(case):
            return {"not-compared": "schedule does not let the loop drain", "cflog": cfl}
        if k == "wait":
            return {"final": impl["trace"][-1], "order": impl["order"], "done": impl["done"], "cflog": cfl}
        if k == "multi":
            return {"final": impl["trace"][-1][0], "cberrs": impl["cberrs"], "cflog": cfl}
        return {"trace": impl["trace"], "cberrs": impl["cberrs"], "cflog": cfl}
    if k == "multi":
        return {"trace": [[s, n] for s, n, _ in impl["trace"]], "cberrs": impl["cberrs"]}
    if k == "wait":
        return {"trace": impl["trace"], "order": impl["order"], "done": impl["done"]}
    return {"trace": impl["trace"], "cberrs": impl["cberrs"]}


def _first_fire(case):
    for i, op in enumerate(case["ops"]):
        if op[0] == "fire":
            return i
    return None


def spec_requests(case, impl):
    k = case["k"]
    if "trace" not in impl:
        return []
    if k == "chain":
        a = impl["trace"][-1][0]
        return [line(ID, "spec-chain", _w(a))] if a != "p" else []
    if k == "multi":
        final = impl["trace"][-1][2]
        os_ = [final[i] for i in case["ch"]]
        return [line(ID, "spec-multi", [_w(o) for o in os_])] if all(o != "p" for o in os_) else []
    if k == "wait":
        return [line(ID, "spec-wait", case["args"], _positions_order(case, impl), [_w(s) for s in impl["final"]])]
    if k == "timeout":
        i = _first_fire(case)
        at = None if i is None else impl["trace"][i][0]
        return [line(ID, "spec-timeout", None if i is None else _w(at), _w(impl["trace"][-1][0]))]
    return []


def _positions_order(case, impl):
    """completion order per argument POSITION from the observed settle order of the futures: a future passed n
    times completes n times — inline in argument order when it is already done at construction, else by n
    consecutive callbacks when it settles"""
    args, st = case["args"], case["st"]
    if len(set(args)) == len(args):
        return impl["order"]
    npre = len({i for i in args if st[i] != "p"})
    return [i for i in args if st[i] != "p"] + [f for f in impl["order"][npre:] for _ in range(args.count(f))]


def _same(x, y):
    """cancelled state and CancelledError-as-exception are the same failure"""
    n = lambda v: ["e", 0] if v == "c" else v
    return n(x) == n(y)


def spec_violation(case, impl, replies):
    k = case["k"]
    tr = impl["trace"]
    if not impl["quiet"]:
        return None   # the schedule ended before the loop was idle: nothing to demand yet
    if k == "chain":
        a, b = tr[-1]
        if a == "p":
            return None
        if b == "p":
            return "chain: source done (%r) but destination left pending" % (a,)
        want = _vals(replies[0])[0]
        benv = [op[1] for op in case["ops"] if op[0] in ("setB", "soonB")]
        if case["pb"] != "p":
            return None if b == case["pb"] else "chain: destination was already done (%r) but changed to %r" % (case["pb"], b)
        # b must not change once set
        seen = None
        for _, bb in tr:
            if seen is not None and bb != seen:
                return "chain: destination changed after being settled: %r -> %r" % (seen, bb)
            if bb != "p":
                seen = bb
        if b == want or b in benv:
            return None
        return "chain: destination is %r, source outcome %r" % (b, want)
    if k == "multi":
        ch = case["ch"]
        for s, n, ins in tr:
            if s != "p" and any(ins[i] == "p" for i in ch):
                return "multi: resolved (%r) before all inputs were done" % (s,)
        s, n, ins = tr[-1]
        if any(ins[i] == "p" for i in ch):
            return None
        if s == "p":
            return "multi: all inputs done %r but the result is left pending" % ([ins[i] for i in ch],)
        want = _vals(replies[0])[0]
        if not _same(s, want):
            return "multi: outcome %r, expected %r for inputs %r" % (s, want, [ins[i] for i in ch])
        if not impl.get("keys_ok", True):
            return "multi: result container/keys wrong"
        return None
    if k == "wait":
        want = _vals(replies[0])[0]          # [(index, outcome)] in completion order
        got = impl["yields"]
        args = case["args"]
        dup = len(set(args)) != len(args)
        outs = tr[-1][0]
        if any(isinstance(o, str) and o not in ("p", "c") for o in outs):
            bad = [o for o in outs if isinstance(o, str) and o not in ("p", "c")][0]
            return "wait: next() raised %s%s" % (bad, " (duplicate arguments)" if dup else "")
        if impl["cberrs"]:
            return "wait: %s escaped a loop callback" % impl["cberrs"][0]
        fk = case.get("fk") or []
        if "f" in fk and "a" in fk and not _drained(case["ops"]) and not dup:
            # mixed kinds, loop not idle between settles: a concurrent future reports synchronously, an asyncio
            # future one iteration later, so "completion order" is only defined up to that window — demand that
            # every completed input is yielded at most once with its own index and outcome, and all of them at the end
            exp = [[args.index(f), impl["final"][f]] for f in impl["order"]]
            for g in got:
                if g not in exp or got.count(g) > 1:
                    return "wait: yielded %r, not one of the completed inputs %r (each once)" % (g, exp)
            if impl["done"] and all(s != "p" for s in impl["final"][:max(args) + 1]) and len(got) != len(exp):
                return "wait: iterator done after %d yields, %d inputs completed" % (len(got), len(exp))
            return None
        if dup:
            # the same future at several positions: `want` lists one completion per position (spec_requests);
            # the positions of one future may be handed out in any order (the text only asks for a matching index)
            used = set()
            for j, g in enumerate(got):
                w = want[j] if j < len(want) else None
                ok = (w is not None and isinstance(g[0], int) and 0 <= g[0] < len(args) and w[0] is not None
                      and args[g[0]] == args[w[0]] and g[1] == w[1] and g[0] not in used)
                if not ok:
                    return "wait: yield #%d is %r, completion order demands %r with an index of its own (duplicate arguments)" % (j, g, w)
                used.add(g[0])
            got = want[:len(got)]       # judged equal; the remaining demands are the same as for distinct arguments
        for j, g in enumerate(got):
            if j >= len(want) or g != want[j]:
                return "wait: yield #%d is %r, completion order demands %r" % (j, g, want[j] if j < len(want) else None)
        alldone = all(s != "p" for s in impl["final"][:max(args) + 1])
        if alldone and outs and outs[-1] == "p":
            return "wait: all inputs done but the future from next() is left pending"
        if alldone and impl["done"] and len(got) != len(want):
            return "wait: iterator done after %d yields, %d inputs completed" % (len(got), len(want))
        if alldone and not impl["done"] and sum(1 for op in case["ops"] if op[0] == "next") > 2 * len(args) + 2:
            return None
        return None
    if k == "timeout":
        a, res, armed, logs = tr[-1]
        want = _vals(replies[0])[0]
        i = _first_fire(case)
        seen = None
        for _, r, _, _ in tr:
            if seen is not None and r != seen:
                return "with_timeout: result changed after being settled: %r -> %r" % (seen, r)
            if r != "p":
                seen = r
        if want == "p":
            return None if res == "p" else "with_timeout: settled (%r) although the input is pending and no deadline passed" % (res,)
        if res == "p":
            return "with_timeout: left pending (input %r, deadline %s)" % (a, "passed" if i is not None else "not reached")
        if res == want:
            return None
        if i is not None and tr[i][0] == "p":
            # tie: input settled by a call_soon'ed callback in the iteration in which the timer was due
            pend = False
            for op in case["ops"][:i]:
                if op[0] == "soonA":
                    pend = True
                elif op[0] in ("tick", "fire"):
                    pend = False
            if pend and res == tr[i + 1][0]:
                return None
        return "with_timeout: result %r, expected %r (input %r)" % (res, want, a)
    return None


def nontrivial(case, impl):
    if "trace" not in impl:
        return False
    k = case["k"]
    later = any(op[0].startswith(("set", "soon")) for op in case["ops"])
    last = impl["trace"][-1]
    if k == "chain":
        return later and last[1] != "p"
    if k == "timeout":
        return (later or _first_fire(case) is not None) and last[1] != "p"
    if k == "multi":
        return later and last[0] != "p"
    return later and len(impl["yields"]) >= 1


def stats(case, impl):
    k = case["k"]
    out = ["kind:" + k]
    if _is_cf(case):
        out.append("concurrent-future:" + k)
        if k in ("chain", "timeout"):
            cfc = case.get("ka") == "f" and (case["pa"] == "c" or any(op[0] in ("setA", "soonA") and op[1] == "c" for op in case["ops"]))
        else:
            fk = case["fk"]
            cfc = any(s == "c" and kd == "f" for s, kd in zip(case["st"], fk)) or \
                any(op[0] in ("set", "soon") and op[2] == "c" and fk[op[1]] == "f" for op in case["ops"])
        if cfc:
            out.append("concurrent-future:cancelled")
    if "trace" not in impl:
        return out
    if k == "multi":
        out.append("multi:n=%d:distinct=%d" % (len(case["ch"]), len(case["st"])))
        s = impl["trace"][-1][0]
        out.append("multi:out:" + (s if isinstance(s, str) else s[0] + (":CancelledError" if s == ["e", 0] else "")))
        if impl["trace"][-1][1]:
            out.append("multi:logged-later-errors")
    elif k == "wait":
        out.append("wait:n=%d:yields=%d" % (len(case["args"]), len(impl["yields"])))
        if len(set(case["args"])) != len(case["args"]):
            out.append("wait:duplicates")
    elif k == "timeout":
        r = impl["trace"][-1][1]
        out.append("timeout:res:" + (r if isinstance(r, str) else ("TimeoutError" if r == ["e", 1] else r[0])))
    else:
        b = impl["trace"][-1][1]
        out.append("chain:b:" + (b if isinstance(b, str) else b[0]))
    for f in [x for x in (case.get("st") or [case.get("pa")]) if x != "p"]:
        out.append("already-done-input")
        break
    if any(op[0].startswith("soon") for op in case["ops"]):
        out.append("call_soon-settle")
    if any(("c" in op[1:]) for op in case["ops"]) or "c" in (case.get("st") or [case.get("pa")]):
        out.append("cancelled-input")
    return out


def signature(case, impl, why):
    k = case["k"]
    if "escaped the harness" in why:
        return k + "/harness-escape"
    if _is_cf(case):
        k += "-cf"      # some input is a concurrent.futures.Future
    elif k == "wait" and "duplicate arguments" in why:
        return "wait/duplicate-arguments/" + ("KeyError" if "KeyError" in why else "wrong-yields")
    canc = any(("c" in op[1:]) for op in case["ops"]) or "c" in (case.get("st") or [case.get("pa")])
    m = re.match(r"[a-z_]+: ([a-zA-Z ()#]+)", why)
    cls = "pending" if "pending" in why and "left pending" in why else re.sub(r"[^a-zA-Z]+", "-", (m.group(1) if m else why))[:30].strip("-")
    return "%s/%s/%s" % (k, "cancelled-input" if canc else "no-cancel", cls)


def shrink(case):
    ops = case["ops"]
    for i in range(len(ops)):
        yield {**case, "ops": ops[:i] + ops[i + 1:]}
    if case["k"] in ("multi", "wait"):
        key = "ch" if case["k"] == "multi" else "args"
        xs = case[key]
        for i in range(len(xs)):
            ys = xs[:i] + xs[i + 1:]
            if ys and max(ys) == len(set(ys)) - 1 and case["k"] == "multi" or (ys and sorted(set(ys)) == list(range(max(ys) + 1))):
                yield {**case, key: ys, "st": case["st"][:max(ys) + 1],
                       "ops": [op for op in ops if len(op) < 3 or op[1] <= max(ys)]}
