"""C21 — escaping and encoding helpers are safe and invertible (tornado/escape.py)."""
import itertools, json, re
from core.wire import atom, enc, dec, line, parse_reply, Atom
from tornado import escape as _escape_preload   # imported before the workers fork (main.py put $VERIF_REPO first on sys.path)

ID = "C21"
LEAN_TARGETS = ["TornadoModel.C21.Props"]
THEOREMS = ["TornadoModel.C21." + n for n in [
    "escape_safe", "escape_no_special", "unescape_escape", "escape_bytes", "escape_scalar", "unescape_escape_bytes",
    "unquote_quote", "unquote_quote_bytes", "quote_ascii",
    "json_no_close_tag",
    "utf8_roundtrip", "utf8_roundtrip_bytes", "utf8_rejects_other",
    "qs_bytes_preserved", "qs_bytes_preserved_default",
    "unescape_no_amp", "quote_all_safe", "escape_single_pass",
]]
TRUSTED = [
    "html.escape / html.unescape (CPython 3.12 html/__init__.py) as modelled in C21/Model.lean; the entity table "
    "html.entities.html5 is data: the harness hands the model every entry whose key occurs in the input",
    "urllib.parse.quote/quote_plus/unquote/unquote_plus/unquote_to_bytes/parse_qs(l) as modelled (hand model, diffed each run)",
    "CPython's UTF-8 codec (strict and errors='replace': one U+FFFD per maximal ill-formed subsequence) as modelled by decodeG",
    "json.dumps / json.loads themselves (only the '</' post-processing of json_encode is modelled; the rest is checked on the implementation)",
]
ASSUMPTIONS = [
    "decimal character references have at most 4000 digits (CPython's int() raises ValueError above 4300 digits; not modelled)",
    "the property excludes lone surrogates; they are exercised only in a small correspondence-only stream",
    "recursive_unicode and json_decode(json_encode(v)) == v are checked on the implementation only (tie only)",
    "parse_qs_bytes is driven with max_num_fields=None and separator='&' (the only way tornado calls it)",
]
RULE = ("text over an alphabet dense in & < > \" ' ; # % + = and entity/percent fragments, plus Latin-1, BMP, astral and control "
        "characters; all 2-character strings over a 40-symbol alphabet exhaustively; random bytes biased to UTF-8 boundary bytes; "
        "nested JSON values; a systematic boundary stream: each of 20 boundary code points (U+FEFF, NUL, U+7F/80, U+7FF/800, U+D7FF/E000, U+FFFD, U+FFFE/FFFF, "
        "U+10000, U+10FFFF, combining marks, zero-width/line separators) alone, doubled and at the start / middle / end of a base text, as str AND as "
        "UTF-8 bytes, for every helper and API variant (plus modes, encodings, key/value/nested position, qs flags), plus byte strings around the BOMs; "
        "non-trivial = the input contains at least one character the helper must transform "
        "(special character, reference, non-unreserved byte, '</', non-ASCII, '&'/'=' in a query); distinct by canonical JSON")
EXHAUSTIVE = {"quick": False, "thorough": False}
CLAUSE_CAVEATS = [
    'qs_bytes_preserved quantifies over canonical quote_plus encodings (pure ASCII); raw bytes ≥ 0x80 in the query string are covered by the tie streams only',
    'json.dumps/json.loads and recursive_unicode are tie-only',
]
CLAUSES = {
    "HTML-escaping yields text with no < > quote apostrophe and no & outside the entities it introduced": "escape_safe",
    "... and unescapes back to the input": "unescape_escape (every string, every table containing the five entities); unescape_escape_bytes (bytes input, and the escaped "
                                           "text handed back as UTF-8 bytes), escape_scalar",
    "URL escaping and unescaping are inverse in both plus modes (and for the bytes-returning form)": "unquote_quote (str form and str->bytes form), unquote_quote_bytes, quote_ascii",
    "JSON encoding never contains '</'": "json_no_close_tag (every string); tie only: json.dumps itself",
    "... and decodes to an equal value": "tie only: json_decode(json_encode(v)) == v on the implementation",
    "UTF-8 conversion helpers are mutually inverse on valid data and reject other types": "utf8_roundtrip, utf8_roundtrip_bytes, utf8_rejects_other",
    "parsing a query string given as bytes (or their latin-1 decoding) preserves every byte of every name and value": "qs_bytes_preserved, qs_bytes_preserved_default (parse level + grouped dict); Spec.group vs groupPairs: tie only",
}
PARALLEL = False   # sequential is faster here: ~10^4 cases/s in-process, fork+pickle costs more (measured 1.5 s vs 24 s)
LEVEL_TEXT = "proof"
TECHNIQUE = "Lean 4 theorems over an executable model of escape.py + the stdlib algorithms it delegates to; differential correspondence on every run"

ALPHA40 = list("&<>\"';#%+= /\\xX&amp;lt0279AFaf\t\n") + ["\xe9", "€", "\U0001f600", "\x00", "\x7f", "\x85", "�"]
ALPHA40 = list(dict.fromkeys(ALPHA40 + ["q", "u", "o", "-", "1", "G"]))[:40]
assert len(ALPHA40) == 40
TEXT_PIECES = ["&", "<", ">", '"', "'", "&amp;", "&lt;", "&gt;", "&quot;", "&#x27;", "&#39;", ";", "#", "a", "b", "Z", "0", "9",
               " ", "\t", "\n", "\x0c", "\xe9", "\xff", "Ā", "€", "퟿", "", "�", "￾", "￿",
               "\U00010000", "\U0001f600", "\U0010ffff", "\x00", "\x0b", "\x1f", "\x7f", "\x80", "\x85", "\x9f", "</", "<\\/", "%", "+", "=",
               "\ufeff", "\u07ff", "\u0800", "\u0301", "\u200b", "\ufe0f"]
SURROGATES = ["\ud800", "\udbff", "\udc00", "\udfff"]
REF_PIECES = ["&", "&amp;", "&amp", "&ampx", "&ampx;", "&notit;", "&notin;", "&notin", "&not", "&no", "&n;", "&lt", "&LT;", "&AMP", "&GT",
              "&quot;", "&apos;", "&#x27;", "&#39;", "&#65;", "&#65", "&#065;", "&#x41;", "&#X41", "&#x4a", "&#xg", "&#x", "&#", "&#;", "&;",
              "&#0;", "&#x0", "&#13;", "&#128;", "&#x80;", "&#x81;", "&#x9f;", "&#159", "&#160;", "&#xD800;", "&#xDFFF", "&#55295;", "&#57344;",
              "&#x110000;", "&#1114111;", "&#1114112", "&#x10FFFF;", "&#x10FFFE;", "&#11;", "&#1;", "&#8;", "&#9;", "&#14;", "&#31;", "&#127;",
              "&#xfffe;", "&#xfdd0;", "&#xfdef;", "&#xfdf0;", "&#x1fffe;", "&#x1fffd;", "&#99999999999999999999;", "&#x" + "F" * 30 + ";",
              "&" + "a" * 31, "&" + "a" * 32, "&" + "a" * 33 + ";", "&amp" + "b" * 28 + ";", "&amp" + "b" * 29 + ";", "&lt" + "c" * 40,
              "&\xe9;", "&a€b;", "&\U0001f600", "&gt\t", "&gt\n;", "&gt ", "&gt<", "&gt&lt;", "&gt#", "&&", "&;&", ";", "x", "1", " ",
              "&acE;", "&ac;", "&acd;", "&nbsp", "&nbsp;", "&NotEqualTilde;", "&NotEqualTild;", "&fjlig;", "&fj", "&bne;", "&b", "&bn;"]
PCT_PIECES = ["%", "%%", "%4", "%41", "%4g", "%g1", "%zz", "%e9", "%E9", "%C3%A9", "%c3", "%a9", "%E2%82%AC", "%E2%82", "%E2", "%F0%9F%98%80",
              "%F0%9F%98", "%ED%A0%80", "%C0%80", "%F4%90%80%80", "%FF", "%00", "%20", "%2B", "%2b", "%26", "%3D", "%25", "%2541", "+", " ", "/",
              "a", "Z", "9", "-", "_", ".", "~", "&", "=", "\xe9", "€", "\U0001f600", "\x80", "%e", "\xe9%41", "%41\xe9", "%C3\xa9", "%c3%"]
QS_PIECES = ["&", "&&", "=", "==", "a", "b", "a=1", "a=2", "b=", "=c", "a=", "%", "%26", "%3D", "%3d", "%41", "%e9", "%FF", "%4", "+", "%2B", " ",
             "\xe9", "\xff", ";", "a=b=c", "x+y=z+w", "Ā", "€", "k=Ā", "Ā=v", "%u", "=%", "&=", "=&", "a&b"]
# Boundary code points placed systematically at the START, in the middle and at the end of the text handed to every helper
# (str form and UTF-8 bytes form): U+FEFF (its UTF-8 form EF BB BF is the byte order mark a "utf-8-sig" style decoder
# drops when it comes first), NUL, the 1/2-, 2/3- and 3/4-byte UTF-8 length boundaries, the surrogate neighbours, the
# replacement character, noncharacters, the last code point, combining marks / variation selector, zero-width and
# line-separator characters.
EDGE_CPS = [0xFEFF, 0x0000, 0x007F, 0x0080, 0x07FF, 0x0800, 0xFFFD, 0xFFFE, 0xFFFF, 0x10000, 0x10FFFF,
            0x0301, 0x20DD, 0xFE0F, 0x200B, 0x2028, 0x00A0, 0xD7FF, 0xE000, 0xFFFC]
# byte strings around the byte-order marks of the Unicode encodings (most are NOT valid UTF-8: correspondence only)
EDGE_BYTE_PREFIXES = [b"\xef\xbb\xbf", b"\xef\xbb\xbf\xef\xbb\xbf", b"\xef\xbb", b"\xef", b"\xef\xbb\xbe", b"\xef\xbb\xc0", b"\xef\xbf\xbe",
                      b"\xef\xbc\xbf", b"\xee\xbb\xbf", b"\xff\xfe", b"\xfe\xff", b"\x00\x00\xfe\xff", b"\xff\xfe\x00\x00", b"+/v8", b"\xbf\xbb\xef"]
BOUNDARY_BYTES = [0x00, 0x20, 0x25, 0x2B, 0x2F, 0x41, 0x7E, 0x7F, 0x80, 0x8F, 0x90, 0x9F, 0xA0, 0xBF, 0xC0, 0xC1, 0xC2, 0xDF, 0xE0, 0xE1, 0xEC, 0xED, 0xEE,
                  0xEF, 0xF0, 0xF1, 0xF3, 0xF4, 0xF5, 0xFF]


def _text(rng, pieces, lo=0, hi=12):
    return "".join(rng.choice(pieces) for _ in range(rng.randint(lo, hi)))


def _rand_unicode(rng, n):
    out = []
    for _ in range(n):
        k = rng.random()
        if k < 0.1:
            out.append(chr(rng.choice(EDGE_CPS)))
        elif k < 0.5:
            out.append(chr(rng.randint(0, 0x7f)))
        elif k < 0.7:
            out.append(chr(rng.randint(0x80, 0x7ff)))
        elif k < 0.9:
            c = rng.randint(0x800, 0xffff)
            if 0xd800 <= c <= 0xdfff:
                c = 0xe000
            out.append(chr(c))
        else:
            out.append(chr(rng.randint(0x10000, 0x10ffff)))
    return "".join(out)


def _rand_bytes(rng, n):
    return bytes(rng.choice(BOUNDARY_BYTES) if rng.random() < 0.7 else rng.randint(0, 255) for _ in range(n))


def _sb(v):
    """wire/JSON form of a str|bytes argument"""
    return ["b", v.hex()] if isinstance(v, (bytes, bytearray)) else ["s", v]


def _unsb(x):
    return bytes.fromhex(x[1]) if x[0] == "b" else x[1]


def _maybe_bytes(rng, s, p=0.25):
    """some inputs are handed over as bytes (valid UTF-8 of s, or mangled)"""
    if rng.random() < p:
        try:
            b = s.encode("utf-8")
        except UnicodeEncodeError:
            return s
        if rng.random() < 0.2 and b:
            i = rng.randrange(len(b))
            b = b[:i] + bytes([rng.choice(BOUNDARY_BYTES)]) + b[i + 1:]
        return b
    return s


def _json_value(rng, depth):
    k = rng.random()
    if depth <= 0 or k < 0.45:
        j = rng.random()
        if j < 0.55:
            return _text(rng, ["<", "/", "</", "</script>", "<\\/", "\\", '"', "a", " ", "\xe9", "\U0001f600", "\n", "\x00", "<!--", " ", "&", "\ufeff", "\u0301", "\uffff", "\u0800"], 0, 6)
        if j < 0.7:
            return rng.choice([0, 1, -1, 2 ** 53, -2 ** 63, 10 ** 30, rng.randint(-1000, 1000)])
        if j < 0.8:
            return rng.choice([0.0, 1.5, -2.25, 1e100, 1e-7, 3.141592653589793, float(rng.randint(-99, 99)) / 8])
        return rng.choice([True, False, None])
    if k < 0.75:
        return [_json_value(rng, depth - 1) for _ in range(rng.randint(0, 4))]
    return {_text(rng, ["<", "/", "</", "k", "a", "\xe9", '"', "\ufeff", "\u07ff"], 0, 3): _json_value(rng, depth - 1) for _ in range(rng.randint(0, 4))}


def _pairs(rng):
    def bs():
        k = rng.random()
        if k < 0.15:
            return b""
        if k < 0.6:
            return "".join(rng.choice(["a", "b", "&", "=", "+", " ", "%", ";", "/", "%41", "\xe9", "1"]) for _ in range(rng.randint(1, 5))).encode("latin-1")
        return _rand_bytes(rng, rng.randint(1, 5))
    names = [bs() for _ in range(3)]
    return [[rng.choice(names).hex(), bs().hex()] for _ in range(rng.randint(0, 5))]


def _encode_qs(pairs, raw=None):
    """strict form-encoding; with `raw` (a random.Random) bytes other than & = + % and space may be left unescaped
    (a latin-1 query string as a lenient client would send it)"""
    from urllib.parse import quote_plus

    def q(b):
        if raw is None:
            return quote_plus(b)
        return "".join(chr(x) if (x not in b"&=+% " and raw.random() < 0.5) else quote_plus(bytes([x])) for x in b)
    return "&".join(q(bytes.fromhex(k)) + "=" + q(bytes.fromhex(v)) for k, v in pairs)


def _edge_texts(bases):
    """every boundary code point alone, doubled, and at the start / in the middle / at the end (and at both ends) of each base text"""
    out = []
    for c in EDGE_CPS:
        ch = chr(c)
        out += [ch, ch + ch]
        for b in bases:
            out += [ch + b, b + ch + b, b + ch, ch + ch + b, ch + b + ch]
    return list(dict.fromkeys(out))


def _edge_cases(rng, tier):
    """systematic boundary stream: each helper (and API variant: str / bytes argument, both plus modes, both encodings,
    keep/strict flags, value / key / nested position) gets every text of _edge_texts and the byte strings around the BOMs"""
    full = tier == "thorough"

    def forms(t):
        return (t, t.encode("utf-8"))
    pre = EDGE_BYTE_PREFIXES
    # --- xhtml_escape / xhtml_unescape round trip
    for t in _edge_texts(["a", "<&\"'>"]):
        for v in forms(t):
            yield {"kind": "html", "v": _sb(v), "edge": True}
    for p in pre:
        for tail in (b"", b"<a>&"):
            yield {"kind": "html", "v": _sb(p + tail), "edge": True}
    # --- xhtml_unescape on reference-bearing text, and the numeric references OF the boundary code points
    for t in _edge_texts(["&amp;", "&#65"] if full else ["&amp;"]):
        for v in forms(t):
            yield {"kind": "unesc", "v": _sb(v), "edge": True}
    for c in EDGE_CPS:
        for fmt in ("&#x%x;", "&#%d;", "&#X%X", "&#%d"):
            for v in forms((fmt % c) + "x"):
                yield {"kind": "unesc", "v": _sb(v), "edge": True}
    for p in pre:
        yield {"kind": "unesc", "v": _sb(p + b"&lt;"), "edge": True}
    # --- url_escape -> url_unescape (str and bytes result), and url_unescape of raw / percent-encoded input
    from urllib.parse import quote
    for t in _edge_texts(["a /"] + (["%+&="] if full else [])):
        for v in forms(t):
            for plus in (True, False):
                yield {"kind": "url", "v": _sb(v), "plus": plus, "edge": True}
    for t in _edge_texts(["%41+"]):
        qt = quote(t, safe="")
        for v in forms(t) + forms(qt) + ((qt[:3] + t[1:]).encode("utf-8", "replace"),):
            for plus in (True, False):
                yield {"kind": "unq", "v": _sb(v), "plus": plus, "edge": True}
    for p in pre:
        for plus in (True, False):
            yield {"kind": "url", "v": _sb(p + b" a"), "plus": plus, "edge": True}
            yield {"kind": "unq", "v": _sb(p + b"%41+"), "plus": plus, "edge": True}
            yield {"kind": "unq", "v": _sb(quote(p) + "%41+"), "plus": plus, "edge": True}
    # --- utf8 / to_unicode (and aliases): str form, bytes form, all ordered pairs of boundary code points
    for t in _edge_texts(["a"]):
        yield {"kind": "utf8", "val": {"t": "str", "v": t}, "edge": True}
        yield {"kind": "utf8", "val": {"t": "bytes", "hex": t.encode("utf-8").hex()}, "edge": True}
    for a in EDGE_CPS:
        for b in EDGE_CPS:
            if a != b:
                t = chr(a) + chr(b)
                yield {"kind": "utf8", "val": {"t": "bytes", "hex": t.encode("utf-8").hex()}, "edge": True}
                if full:
                    yield {"kind": "utf8", "val": {"t": "str", "v": t}, "edge": True}
                    yield {"kind": "html", "v": _sb(t.encode("utf-8")), "edge": True}
    for p in pre:
        for tail in (b"", b"a"):
            yield {"kind": "utf8", "val": {"t": "bytes", "hex": (p + tail).hex()}, "edge": True}
    # --- json_encode / json_decode (value and key position) and recursive_unicode (bytes leaves, keys, tuples)
    for t in _edge_texts(["</"]):
        yield {"kind": "json", "value": t, "edge": True}
        yield {"kind": "json", "value": {t: [t, None]}, "edge": True}
    for t in _edge_texts(["a"]):
        for flip in (0, 1, 2):
            yield {"kind": "utf8", "val": {"t": "nested", "v": [t, {t: t}], "flip": flip}, "edge": True}
    # --- parse_qs_bytes: boundary text as name / value / both, strict and lenient encoding, bytes and latin-1 str argument
    qtexts = [t.encode("utf-8") for t in _edge_texts(["a&=+%"])] + list(pre)
    for i, tb in enumerate(qtexts):
        pairs = [[tb.hex(), b"1".hex()], [b"k".hex(), tb.hex()], [tb.hex(), tb.hex()]]
        yield {"kind": "qsenc", "pairs": pairs, "qs": _encode_qs(pairs), "as_bytes": i % 2 == 0, "edge": True}
        yield {"kind": "qsenc", "pairs": pairs, "qs": _encode_qs(pairs, rng), "as_bytes": i % 2 == 1, "raw": True, "edge": True}
        if full:
            yield {"kind": "qsenc", "pairs": pairs, "qs": _encode_qs(pairs), "as_bytes": i % 2 == 1, "edge": True}
            yield {"kind": "qsenc", "pairs": pairs, "qs": _encode_qs(pairs, rng), "as_bytes": i % 2 == 0, "raw": True, "edge": True}
    for i, t in enumerate(_edge_texts(["a"])):
        qs = t + "=" + t + "&k=" + t + "&" + t
        for j, v in enumerate(forms(qs)):
            for f in (range(4) if full else [(i + j) % 4]):
                yield {"kind": "qsraw", "v": _sb(v), "keep": bool(f & 1), "strict": bool(f & 2), "edge": True}
    # --- the UTF-8 decoder itself: boundary encodings whole, truncated at either end, and the BOM neighbourhood
    for t in _edge_texts(["A"]):
        b = t.encode("utf-8")
        for x in dict.fromkeys([b, b[:-1], b[1:]]):
            if x:
                yield {"kind": "dec", "hex": x.hex()}
    for p in pre:
        yield {"kind": "dec", "hex": (p + b"A").hex()}


def _edge_lead(rng, s, p=0.12):
    """random text now and then gets a boundary code point in FIRST position (str or bytes alike)"""
    if rng.random() < p:
        c = chr(rng.choice(EDGE_CPS))
        return (c if isinstance(s, str) else c.encode("utf-8")) + s
    return s


def gen_cases(rng, tier):
    scale = {"quick": 1, "thorough": 25, "search": 2}[tier]
    # exhaustive 2-character strings over the 40-symbol alphabet (html escape round trip + unescape)
    if tier in ("quick", "thorough"):
        for a, b in itertools.product(ALPHA40, repeat=2):
            yield {"kind": "html", "v": _sb(a + b), "enum": True}
        for a in ALPHA40:
            for b in ALPHA40:
                yield {"kind": "unesc", "v": _sb("&" + a + b + ";x")}
        for b0 in BOUNDARY_BYTES:
            for b1 in BOUNDARY_BYTES:
                yield {"kind": "dec", "hex": bytes([b0, b1]).hex()}
                yield {"kind": "dec", "hex": bytes([0xE1, b0, b1, 0x41]).hex()}
                yield {"kind": "dec", "hex": bytes([0xF1, b0, b1, 0x80, 0x41]).hex()}
        for b0 in range(256):
            yield {"kind": "url", "v": _sb(bytes([b0])), "plus": bool(b0 & 1)}
            yield {"kind": "url", "v": _sb(bytes([b0, 0x20, b0])), "plus": not (b0 & 1)}
            if not 0xd8 <= b0 <= 0xdf:
                yield {"kind": "url", "v": _sb(chr(b0) + chr(b0 * 256 + 0x41)), "plus": bool(b0 & 2)}
        yield from _edge_cases(rng, tier)
    if tier == "thorough":
        for b0 in [0xE0, 0xED, 0xF0, 0xF4, 0xEF, 0xF3]:
            for b1 in range(0x70, 0xD0, 1):
                for b2 in [0x7F, 0x80, 0xBF, 0xC0]:
                    yield {"kind": "dec", "hex": bytes([b0, b1, b2, 0x80]).hex()}
    for _ in range(900 * scale):
        k = rng.random()
        if k < 0.55:
            s = _text(rng, TEXT_PIECES)
        elif k < 0.9:
            s = _text(rng, TEXT_PIECES, 0, 4) + _rand_unicode(rng, rng.randint(0, 6)) + _text(rng, TEXT_PIECES, 0, 4)
        else:
            s = _text(rng, TEXT_PIECES + SURROGATES, 1, 6)
        yield {"kind": "html", "v": _sb(_maybe_bytes(rng, _edge_lead(rng, s)))}
    for _ in range(900 * scale):
        k = rng.random()
        if k < 0.8:
            s = _text(rng, REF_PIECES, 1, 8)
        elif k < 0.9:
            from html.entities import html5
            names = sorted(html5)
            nm = rng.choice(names)
            cut = rng.randint(1, len(nm))
            s = _text(rng, REF_PIECES, 0, 2) + "&" + nm[:cut] + rng.choice(["", ";", "x", "x;", " ", "&"]) + _text(rng, REF_PIECES, 0, 2)
        elif k < 0.97:
            s = "&#" + rng.choice(["", "x", "X"]) + "".join(rng.choice("0123456789abcdefABCDEFg;") for _ in range(rng.randint(0, 9))) + _text(rng, REF_PIECES, 0, 2)
        else:
            s = _text(rng, REF_PIECES + SURROGATES, 1, 6)
        yield {"kind": "unesc", "v": _sb(_maybe_bytes(rng, _edge_lead(rng, s, 0.06), 0.1))}
    for _ in range(700 * scale):
        k = rng.random()
        if k < 0.35:
            v = _text(rng, PCT_PIECES, 0, 8)
        elif k < 0.6:
            v = _rand_unicode(rng, rng.randint(0, 8))
        elif k < 0.65:
            v = _text(rng, PCT_PIECES + SURROGATES, 1, 5)
        else:
            v = _rand_bytes(rng, rng.randint(0, 8))
        v = _edge_lead(rng, v)
        yield {"kind": "url", "v": _sb(_maybe_bytes(rng, v, 0.2) if isinstance(v, str) else v), "plus": rng.random() < 0.5}
    for _ in range(900 * scale):
        k = rng.random()
        if k < 0.75:
            v = _text(rng, PCT_PIECES, 0, 9)
            v = _maybe_bytes(rng, v, 0.3)
        elif k < 0.8:
            v = _text(rng, PCT_PIECES + SURROGATES, 1, 5)
        else:
            v = _rand_bytes(rng, rng.randint(0, 6)) + rng.choice([b"", b"%41", b"%", b"+"]) + _rand_bytes(rng, rng.randint(0, 3))
        yield {"kind": "unq", "v": _sb(_edge_lead(rng, v, 0.06)), "plus": rng.random() < 0.5}
    for _ in range(500 * scale):
        yield {"kind": "dec", "hex": _rand_bytes(rng, rng.randint(1, 7)).hex()}
    for _ in range(500 * scale):
        yield {"kind": "json", "value": _json_value(rng, rng.randint(0, 4))}
    for _ in range(300 * scale):
        k = rng.random()
        if k < 0.3:
            val = {"t": "str", "v": _edge_lead(rng, _rand_unicode(rng, rng.randint(0, 8))) + (rng.choice(SURROGATES) if rng.random() < 0.08 else "")}
        elif k < 0.55:
            val = {"t": "bytes", "hex": _edge_lead(rng, _rand_unicode(rng, rng.randint(0, 6)).encode("utf-8")).hex()}
        elif k < 0.75:
            val = {"t": "bytes", "hex": (rng.choice(EDGE_BYTE_PREFIXES) if rng.random() < 0.1 else b"").hex() + _rand_bytes(rng, rng.randint(0, 6)).hex()}
        elif k < 0.8:
            val = {"t": "none"}
        elif k < 0.9:
            val = {"t": rng.choice(["int", "float", "list", "dict", "tuple", "bytearray", "bool", "object"])}
        else:
            val = {"t": "nested", "v": _json_value(rng, 3)}
        yield {"kind": "utf8", "val": val}
    for _ in range(500 * scale):
        pairs = _pairs(rng)
        if rng.random() < 0.5:
            yield {"kind": "qsenc", "pairs": pairs, "qs": _encode_qs(pairs), "as_bytes": rng.random() < 0.5}
        else:
            yield {"kind": "qsenc", "pairs": pairs, "qs": _encode_qs(pairs, rng), "as_bytes": rng.random() < 0.7, "raw": True}
    for _ in range(600 * scale):
        qs = _text(rng, QS_PIECES, 0, 9)
        if rng.random() < 0.4:
            try:
                qs = qs.encode("latin-1")
            except UnicodeEncodeError:
                pass
        yield {"kind": "qsraw", "v": _sb(qs), "keep": rng.random() < 0.5, "strict": rng.random() < 0.25}


# --------------------------------------------------------------------------------------------- implementation

def _exc(e):
    for t in (UnicodeDecodeError, UnicodeEncodeError):
        if isinstance(e, t):
            return t.__name__
    if type(e) in (TypeError, ValueError):
        return type(e).__name__
    return "Uncaught:" + type(e).__name__


def _try(f, *a, **kw):
    try:
        return f(*a, **kw)
    except Exception as e:
        return Atom(_exc(e))


def _is_err(x):
    return isinstance(x, Atom)


def _mk_val(val):
    t = val["t"]
    if t == "str":
        return val["v"]
    if t == "bytes":
        return bytes.fromhex(val["hex"])
    if t == "none":
        return None
    return {"int": 7, "float": 1.5, "list": ["a"], "dict": {"a": 1}, "tuple": ("a",), "bytearray": bytearray(b"ab"),
            "bool": True, "object": object()}[t]


def _bytesify(v, flip):
    """nested JSON value -> (structure with some str leaves turned into bytes / lists into tuples, expected result)"""
    if isinstance(v, str):
        return (v.encode("utf-8"), v) if flip[0] % 2 == 0 else (v, v)
    if isinstance(v, list):
        items = [_bytesify(x, [flip[0] + i]) for i, x in enumerate(v)]
        if flip[0] % 3 == 0:
            return tuple(a for a, _ in items), tuple(b for _, b in items)
        return [a for a, _ in items], [b for _, b in items]
    if isinstance(v, dict):
        a, b = {}, {}
        for i, (k, x) in enumerate(v.items()):
            ka, kb = _bytesify(k, [flip[0] + i + 1])
            xa, xb = _bytesify(x, [flip[0] + i])
            a[ka] = xa
            b[kb] = xb
        return a, b
    return v, v


def _esc_bytes(esc):
    if _is_err(esc):
        return None
    try:
        return esc.encode("utf-8")
    except UnicodeEncodeError:
        return None


def run_impl(case):
    from tornado import escape
    k = case["kind"]
    if k == "html":
        v = _unsb(case["v"])
        esc = _try(escape.xhtml_escape, v)
        rt = _try(escape.xhtml_unescape, esc) if not _is_err(esc) else None
        eb = _esc_bytes(esc)    # API variant: the escaped text handed back as UTF-8 bytes (xhtml_unescape takes str | bytes)
        rtb = _try(escape.xhtml_unescape, eb) if eb is not None else None
        return {"esc": esc, "rt": rt, "rtb": rtb}
    if k == "unesc":
        return {"out": _try(escape.xhtml_unescape, _unsb(case["v"]))}
    if k == "url":
        v = _unsb(case["v"])
        q = _try(escape.url_escape, v, plus=case["plus"])
        if _is_err(q):
            return {"q": q, "u": None, "ub": None}
        return {"q": q, "u": _try(escape.url_unescape, q, plus=case["plus"]),
                "ub": _try(escape.url_unescape, q, encoding=None, plus=case["plus"])}
    if k == "unq":
        v = _unsb(case["v"])
        return {"u": _try(escape.url_unescape, v, plus=case["plus"]),
                "ub": _try(escape.url_unescape, v, encoding=None, plus=case["plus"])}
    if k == "dec":
        return {"out": bytes.fromhex(case["hex"]).decode("utf-8", "replace")}
    if k == "json":
        v = case["value"]
        e = _try(escape.json_encode, v)
        if _is_err(e):
            return {"enc": e, "dumps": None, "back": None}
        return {"enc": e, "dumps": json.dumps(v), "back": _try(lambda: escape.json_decode(e) == v),
                "back_bytes": _try(lambda: escape.json_decode(e.encode("utf-8")) == v)}
    if k == "utf8":
        val = case["val"]
        if val["t"] == "nested":
            a, b = _bytesify(val["v"], [val.get("flip", len(json.dumps(val["v"])))])
            return {"rec": _try(lambda: escape.recursive_unicode(a) == b and type(escape.recursive_unicode(a)) is type(b))}
        v = _mk_val(val)
        u8 = _try(escape.utf8, v)
        tu = _try(escape.to_unicode, v)
        out = {"utf8": u8, "tounicode": tu}
        if not _is_err(u8):
            out["back_from_utf8"] = _try(escape.to_unicode, u8)
        if not _is_err(tu):
            out["back_from_unicode"] = _try(escape.utf8, tu)
        out["aliases"] = (escape.native_str is escape.to_unicode and escape.to_basestring is escape.to_unicode
                          and escape._unicode is escape.to_unicode)
        return out
    if k == "qsenc":
        qs = case["qs"].encode("latin-1") if case["as_bytes"] else case["qs"]
        return {"keep": _dict(_try(escape.parse_qs_bytes, qs, keep_blank_values=True)),
                "nokeep": _dict(_try(escape.parse_qs_bytes, qs)),
                "strict": _dict(_try(escape.parse_qs_bytes, qs, keep_blank_values=True, strict_parsing=True))}
    if k == "qsraw":
        return {"out": _dict(_try(escape.parse_qs_bytes, _unsb(case["v"]), case["keep"], case["strict"]))}
    raise AssertionError(case)


def _dict(d):
    if _is_err(d):
        return d
    return [[k, list(v)] for k, v in d.items()]


# --------------------------------------------------------------------------------------------- model

def _wire_sb(x):
    return _unsb(x)


def _table_for(text):
    if isinstance(text, (bytes, bytearray)):
        try:
            text = text.decode("utf-8")
        except UnicodeDecodeError:
            return []
    if "&" not in text:
        return []
    from html.entities import html5
    return [[k, v] for k, v in html5.items() if k in text]


def _wire_val(val):
    t = val["t"]
    if t == "str":
        return val["v"]
    if t == "bytes":
        return bytes.fromhex(val["hex"])
    if t == "none":
        return None
    return atom("other")


def model_requests(case, impl):
    k = case["kind"]
    if k == "html":
        eb = _esc_bytes(impl["esc"])
        return [line(ID, "escape", _wire_sb(case["v"]))] + \
               ([] if _is_err(impl["esc"]) else [line(ID, "unescape", impl["esc"], _table_for(impl["esc"]))]) + \
               ([] if eb is None else [line(ID, "unescape", eb, _table_for(impl["esc"]))])
    if k == "unesc":
        v = _wire_sb(case["v"])
        return [line(ID, "unescape", v, _table_for(v))]
    if k == "url":
        p = atom(case["plus"])
        out = [line(ID, "urlescape", p, _wire_sb(case["v"]))]
        if not _is_err(impl["q"]):
            out += [line(ID, "urlunescape", p, impl["q"]), line(ID, "urlunescapeb", p, impl["q"])]
        return out
    if k == "unq":
        p = atom(case["plus"])
        v = _wire_sb(case["v"])
        return [line(ID, "urlunescape", p, v), line(ID, "urlunescapeb", p, v)]
    if k == "dec":
        return [line(ID, "decodeReplace", bytes.fromhex(case["hex"]))]
    if k == "json":
        return [] if _is_err(impl["enc"]) else [line(ID, "json", impl["dumps"])]
    if k == "utf8":
        if case["val"]["t"] == "nested":
            return []
        v = _wire_val(case["val"])
        return [line(ID, "utf8", v), line(ID, "tounicode", v)]
    if k == "qsenc":
        qs = case["qs"].encode("latin-1") if case["as_bytes"] else case["qs"]
        return [line(ID, "qs", atom(True), atom(False), qs), line(ID, "qs", atom(False), atom(False), qs),
                line(ID, "qs", atom(True), atom(True), qs)]
    if k == "qsraw":
        return [line(ID, "qs", atom(case["keep"]), atom(case["strict"]), _wire_sb(case["v"]))]
    raise AssertionError(case)


def _val(reply, text=False):
    st, vals = parse_reply(reply)
    assert st == "ok", reply
    v = vals[0]
    if text and isinstance(v, list):
        v = "".join(chr(c) for c in v)
    return v


def _mdict(reply):
    v = _val(reply)
    if isinstance(v, Atom):
        return v
    return [[("".join(chr(c) for c in k) if isinstance(k, list) else k), vs] for k, vs in v]


def model_result(case, replies):
    k = case["kind"]
    if k == "html":
        return {"esc": _val(replies[0], True), "rt": _val(replies[1], True) if len(replies) > 1 else None,
                "rtb": _val(replies[2], True) if len(replies) > 2 else None}
    if k == "unesc":
        return {"out": _val(replies[0], True)}
    if k == "url":
        if len(replies) == 1:
            return {"q": _val(replies[0], True), "u": None, "ub": None}
        return {"q": _val(replies[0], True), "u": _val(replies[1], True), "ub": _val(replies[2])}
    if k == "unq":
        return {"u": _val(replies[0], True), "ub": _val(replies[1])}
    if k == "dec":
        return {"out": _val(replies[0], True)}
    if k == "json":
        return {"enc": _val(replies[0], True)} if replies else {}
    if k == "utf8":
        if not replies:
            return {}
        return {"utf8": _val(replies[0], True), "tounicode": _val(replies[1], True)}
    if k == "qsenc":
        return {"keep": _mdict(replies[0]), "nokeep": _mdict(replies[1]), "strict": _mdict(replies[2])}
    if k == "qsraw":
        return {"out": _mdict(replies[0])}
    raise AssertionError(case)


def impl_view(case, impl):
    k = case["kind"]
    if k == "json":
        return {} if _is_err(impl["enc"]) else {"enc": impl["enc"]}
    if k == "utf8":
        if case["val"]["t"] == "nested":
            return {}
        def canon(x):
            return Atom("other") if not (x is None or isinstance(x, (str, bytes, Atom))) else x
        return {"utf8": canon(impl["utf8"]), "tounicode": canon(impl["tounicode"])}
    return impl


# --------------------------------------------------------------------------------------------- specification

def _has_surrogate(s):
    return any(0xd800 <= ord(c) <= 0xdfff for c in s)


def _as_text(v):
    """the text the property quantifies over: str without lone surrogates, or valid UTF-8 bytes -> None if outside"""
    if isinstance(v, (bytes, bytearray)):
        try:
            return bytes(v).decode("utf-8")
        except UnicodeDecodeError:
            return None
    return None if _has_surrogate(v) else v


def spec_requests(case, impl):
    k = case["kind"]
    if k == "html" and not _is_err(impl["esc"]):
        return [line(ID, "escapeSafe", impl["esc"])]
    if k == "json" and not _is_err(impl["enc"]):
        return [line(ID, "noCloseTag", impl["enc"])]
    if k == "qsenc":
        pairs = [[bytes.fromhex(a), bytes.fromhex(b)] for a, b in case["pairs"]]
        return [line(ID, "encodeQs", pairs), line(ID, "group", pairs), line(ID, "group", [p for p in pairs if p[1]])]
    return []


def spec_violation(case, impl, replies):
    k = case["kind"]
    if k == "html":
        v = _unsb(case["v"])
        t = _as_text(v)
        if t is None:
            return None
        if _is_err(impl["esc"]):
            return "xhtml_escape raised %s" % impl["esc"]
        if _val(replies[0]) != "T":
            return "escaped text is unsafe: %r" % impl["esc"]
        if impl["rt"] != t:
            return "xhtml_unescape(xhtml_escape(s)) != s: %r" % (impl["rt"],)
        if impl["rtb"] != t:
            return "xhtml_unescape(utf8(xhtml_escape(s))) != s: %r" % (impl["rtb"],)
        return None
    if k == "url":
        v = _unsb(case["v"])
        plus = "plus" if case["plus"] else "noplus"
        if isinstance(v, str):
            if _has_surrogate(v):
                return None
            if _is_err(impl["q"]):
                return "url_escape/%s raised %s" % (plus, impl["q"])
            if impl["u"] != v:
                return "url_unescape(url_escape(s))/%s/str != s: %r" % (plus, impl["u"])
            if impl["ub"] != v.encode("utf-8"):
                return "url_unescape(url_escape(s), None)/%s/bytes != utf8(s): %r" % (plus, impl["ub"])
            return None
        if _is_err(impl["q"]):
            return "url_escape/%s raised %s" % (plus, impl["q"])
        if impl["ub"] != v:
            return "url_unescape(url_escape(b), None)/%s/bytes != b: %r" % (plus, impl["ub"])
        t = _as_text(v)
        if t is not None and impl["u"] != t:
            return "url_unescape(url_escape(b))/%s/str != b.decode(): %r" % (plus, impl["u"])
        return None
    if k == "json":
        if _is_err(impl["enc"]):
            return "json_encode raised %s" % impl["enc"]
        if _val(replies[0]) != "T":
            return "json_encode output contains '</'"
        if impl["back"] is not True or impl["back_bytes"] is not True:
            return "json_decode(json_encode(v)) != v (%r, %r)" % (impl["back"], impl["back_bytes"])
        return None
    if k == "utf8":
        val = case["val"]
        t = val["t"]
        if t == "nested":
            return None if impl["rec"] is True else "recursive_unicode result wrong: %r" % (impl["rec"],)
        if not impl["aliases"]:
            return "aliases of to_unicode differ"
        if t == "none":
            return None if impl["utf8"] is None and impl["tounicode"] is None else "None not passed through"
        if t == "str":
            s = val["v"]
            if _has_surrogate(s):
                return None
            if impl["utf8"] != s.encode("utf-8") or impl["tounicode"] != s:
                return "utf8/to_unicode wrong on str"
            if impl.get("back_from_utf8") != s:
                return "to_unicode(utf8(s)) != s"
            return None
        if t == "bytes":
            b = bytes.fromhex(val["hex"])
            if impl["utf8"] != b:
                return "utf8(bytes) not passed through"
            valid = _as_text(b)
            if valid is None:
                return None     # the property speaks about valid data only; invalid input is covered by the correspondence
            if impl["tounicode"] != valid or impl.get("back_from_unicode") != b:
                return "utf8(to_unicode(b)) != b"
            return None
        if impl["utf8"] != "TypeError" or impl["tounicode"] != "TypeError":
            return "type %s not rejected: utf8->%r to_unicode->%r" % (t, impl["utf8"], impl["tounicode"])
        return None
    if k == "qsenc":
        if not case.get("raw") and _val(replies[0], True) != case["qs"]:
            raise AssertionError("harness encoder and Spec.encodeQs disagree: %r" % (case["qs"],))
        want = _mdict
        if impl["keep"] != want(replies[1]):
            return "parse_qs_bytes(keep_blank_values=True) lost or changed bytes: %r" % (impl["keep"],)
        if impl["strict"] != want(replies[1]):
            return "parse_qs_bytes(strict_parsing=True) lost or changed bytes: %r" % (impl["strict"],)
        if impl["nokeep"] != want(replies[2]):
            return "parse_qs_bytes() lost or changed bytes of non-blank values: %r" % (impl["nokeep"],)
        return None
    for key in ("out", "u", "ub"):
        if isinstance(impl.get(key), Atom) and str(impl[key]).startswith("Uncaught"):
            return "%s raised %s" % (k, impl[key])
    return None


def nontrivial(case, impl):
    k = case["kind"]
    if k == "html":
        v = _unsb(case["v"])
        return any(c in v for c in ("&<>\"'" if isinstance(v, str) else b"&<>\"'"))
    if k == "unesc":
        return not _is_err(impl["out"]) and impl["out"] != _unsb(case["v"])
    if k == "url":
        return not _is_err(impl["q"]) and "%" in impl["q"] or "+" in str(impl["q"])
    if k == "unq":
        v = _unsb(case["v"])
        return ("%" in v) if isinstance(v, str) else (b"%" in v)
    if k == "dec":
        return "�" in impl["out"]
    if k == "json":
        return impl["dumps"] is not None and "</" in impl["dumps"]
    if k == "utf8":
        return case["val"]["t"] in ("str", "bytes", "nested")
    if k == "qsenc":
        return len(case["pairs"]) >= 2
    if k == "qsraw":
        return not _is_err(impl["out"]) and len(impl["out"]) >= 1
    return True


def _lead_is_bytes(case):
    return (case["v"][0] == "b") if "v" in case else case.get("val", {}).get("t") == "bytes"


def _lead_cp(case):
    """first code point of the text argument (bytes: of its UTF-8 decoding, None when invalid / empty / not text)"""
    if isinstance(case.get("v"), list):
        v = _unsb(case["v"])
    elif case.get("kind") == "utf8" and case["val"]["t"] == "str":
        v = case["val"]["v"]
    elif case.get("kind") == "utf8" and case["val"]["t"] == "bytes":
        v = bytes.fromhex(case["val"]["hex"])
    else:
        return None
    if isinstance(v, bytes):
        try:
            v = v.decode("utf-8")
        except UnicodeDecodeError:
            return None
    return ord(v[0]) if v else None


def stats(case, impl):
    k = case["kind"]
    out = ["kind:" + k]
    if k in ("html", "unesc", "url", "unq", "qsraw"):
        out.append("%s:arg:%s" % (k, case["v"][0]))
    for key in ("esc", "out", "q", "u", "ub", "utf8", "tounicode"):
        if isinstance(impl.get(key), Atom):
            out.append("%s:%s:%s" % (k, key, impl[key]))
    if k == "utf8":
        out.append("utf8:type:" + case["val"]["t"])
    if case.get("edge"):
        out.append("edge:" + k)
    lead = _lead_cp(case)
    if lead is not None and lead in EDGE_CPS:
        out.append("lead:U+%04X:%s" % (lead, "bytes" if _lead_is_bytes(case) else "str"))
    if k == "qsraw":
        out.append("qsraw:keep=%s,strict=%s" % (case["keep"], case["strict"]))
    return out


def signature(case, impl, why):
    w = re.sub(r": .*", "", why)
    w = re.sub(r"[^A-Za-z0-9_/()=,.]+", "-", w)[:70]
    return "%s/%s" % (case["kind"], w)


def shrink(case):
    k = case["kind"]
    if "v" in case and isinstance(case["v"], list):
        tag, val = case["v"]
        step = 2 if tag == "b" else 1
        for i in range(0, len(val), step):
            yield {**case, "v": [tag, val[:i] + val[i + step:]]}
    if k == "utf8" and case["val"]["t"] == "str":
        v = case["val"]["v"]
        for i in range(len(v)):
            yield {**case, "val": {"t": "str", "v": v[:i] + v[i + 1:]}}
    if k == "utf8" and case["val"]["t"] == "bytes":
        h = case["val"]["hex"]
        for i in range(0, len(h), 2):
            yield {**case, "val": {"t": "bytes", "hex": h[:i] + h[i + 2:]}}
    if k == "dec":
        h = case["hex"]
        for i in range(0, len(h), 2):
            yield {**case, "hex": h[:i] + h[i + 2:]}
    if k == "qsenc":
        p = case["pairs"]
        for i in range(len(p)):
            q = p[:i] + p[i + 1:]
            yield {**case, "pairs": q, "qs": _encode_qs(q), "raw": False}
    if k == "json":
        v = case["value"]
        if isinstance(v, list):
            for i in range(len(v)):
                yield {**case, "value": v[:i] + v[i + 1:]}
                yield {**case, "value": v[i]}
        elif isinstance(v, dict):
            for kk in v:
                yield {**case, "value": {a: b for a, b in v.items() if a != kk}}
                yield {**case, "value": v[kk]}
        elif isinstance(v, str):
            for i in range(len(v)):
                yield {**case, "value": v[:i] + v[i + 1:]}


def describe(case):
    return case
