"""C32 — proxy headers yield a valid client IP and never leak between requests
(tornado.httpserver._HTTPRequestContext / _ProxyAdapter behind a real HTTPServer(xheaders=True) over the fake transport)."""
import re, json
from core.wire import atom, line, parse_reply, Atom

ID = "C32"
LEAN_TARGETS = ["TornadoModel.C32.Props"]
_T = "TornadoModel.C32."
THEOREMS = [_T + n for n in [
    "remote_ip_source", "remote_ip_valid_or_socket", "remote_ip_spec_partial", "remote_ip_spec_refuted",
    "protocol_http_or_https", "protocol_observed", "unapply_restores", "ctx_restored_after_run", "no_leak", "no_leak_trace",
    "leak_without_finish",
    "remote_ip_numeric_trace", "remote_ip_numeric", "isValidIp_numeric", "remote_ip_allowed", "finish_raises_keeps_rewrite", "no_leak_conn",
]]
TRUSTED = [
    "libc getaddrinfo(AI_NUMERICHOST) is a parameter (`gai`) of the model of is_valid_ip (C32.isValidIp: the pre-checks of the fixed "
    "function + the resolver); the harness asks the raw resolver about every candidate string of the case, the MODEL decides validity "
    "and the set it accepts is compared with the real is_valid_ip on every case. The resolver contracts the Lean theorems assume "
    "(ResolverNumeric: it accepts only numeric-host text; ResolverPlain: it accepts every plain address) are not proved; the oracle "
    "checks their consequences on every observed remote_ip with Spec.numericIP / Spec.allowedOf, which do not use is_valid_ip",
    "HTTP/1.x framing, header-block parsing on the wire and the exactly-once finish/close notification are C01/C05/C06; here the "
    "header block is parsed by the C06 model and the event trace headers;finish per request is what the real connection is observed to do",
    "core/faketransport.py + core/vloop.py (deterministic transport and clock under the real HTTP1ServerConnection)",
]
ASSUMPTIONS = [
    "the server's `protocol` argument is None, 'http' or 'https'; for a stream that is not AF_INET/AF_INET6 (unix socket) 'the socket "
    "address' is the documented stand-in '0.0.0.0'",
    "5 % of the requests carry a header line that does not parse (no colon, non-token name, control character): the connection ends "
    "with 400 before the proxy adapter runs, checked against the C06 model's verdict; otherwise header blocks are syntactically valid",
    "the raw resolver outcome is this platform's (Linux/glibc; interface `lo` exists, so zone ids are exercised); getaddrinfo raising a "
    "gaierror other than EAI_NONAME (re-raised by is_valid_ip) does not occur on header text and is not modelled",
    "str.strip() of an X-Forwarded-For entry is modelled with the CPython 3.12 whitespace set (compared with the interpreter by C43's `tables` case)",
]
RULE = ("1-5 keep-alive requests per connection, each with 0-4 proxy header lines drawn from IPs (v4, v6, mapped, scoped), a table of "
        "numeric-host boundary forms (inet_aton short/octal/hex forms and overflows, IPv6 group counts and `::` placement, embedded quads, "
        "zone ids: index, interface, alias-label trick, junk), 1-2 character mutations of all of these, garbage, "
        "lists with trusted entries and inner spaces, empty values, mixed-case/duplicate/folded header names; GET and POST, immediate "
        "and delayed responses, random segmentation; HTTP/1.1, HTTP/1.0 with and without keep-alive (requests after the one that ends "
        "the connection must not be served), AF_INET / AF_INET6 / unix-socket contexts, application callbacks and handlers that raise, unparsable header blocks in mid-connection; non-trivial = >=2 requests on the connection of which >=1 changes remote_ip or protocol")
EXHAUSTIVE = {"quick": False, "thorough": False}
CLAUSE_CAVEATS = [
    "'numeric IP address' = Spec.numericIP (inet(3) numbers-and-dots forms, RFC 4291 IPv6 text, optional RFC 4007 zone id); the Lean "
    "theorems reach it from the code only through the ASSUMED resolver contract ResolverNumeric (getaddrinfo(AI_NUMERICHOST) accepts "
    "nothing but numeric-host text once is_valid_ip's pre-checks passed) — libc is not modelled. The oracle does not depend on that "
    "assumption (it applies Spec.numericIP to the observed remote_ip), but it sees only this platform's resolver",
    "no_leak_conn covers the early ends of a connection (delegate raising in _ProxyAdapter.finish so that the restore is skipped, "
    "unparsable header block, request not kept alive, peer leaving) under the model's rule that _server_request_loop reads no further "
    "request then (connEvents); that the real loop does stop there is observed by the tie (the model decides where the connection "
    "ends, request count and contexts are compared on every case), not derived from http1connection.py",
]
CLAUSES = {
    "remote_ip is a numeric IP taken from the proxy headers only when they supply one, X-Real-Ip before the rightmost untrusted "
    "X-Forwarded-For entry, else the socket address":
        "numeric: remote_ip_numeric_trace, remote_ip_numeric (every request of every trace: socket address or Spec.numericIP), "
        "isValidIp_numeric (the fixed is_valid_ip's pre-checks reduce the contract to ASCII, NUL-free, colon-free-zone text) — all "
        "under the assumed resolver contract ResolverNumeric; source/precedence: remote_ip_source, remote_ip_valid_or_socket, "
        "remote_ip_spec_partial, remote_ip_allowed (the address is one Spec.allowedOf permits — a definition without is_valid_ip) "
        "(+ remote_ip_spec_refuted: known finding, an all-trusted X-Forwarded-For list yields its leftmost entry)",
    "protocol is http or https": "protocol_http_or_https, protocol_observed",
    "values derived from one request never affect a later request on the same connection":
        "no_leak, no_leak_trace, unapply_restores, ctx_restored_after_run (leak_without_finish shows the reliance on C05), "
        "no_leak_conn (whole connection incl. its early ends: the request objects built are exactly those of servedReqs, each equal "
        "to what the request observes on a fresh connection), finish_raises_keeps_rewrite",
}
PARALLEL = True
CASE_TIMEOUT = 90

SOCKS = ["9.9.9.9", "127.0.0.1", "::1", "10.0.0.7"]
TRUSTED_SETS = [[], ["5.5.5.5"], ["5.5.5.5", "10.0.0.1"], ["9.9.9.9"], ["", "5.5.5.5"], ["::1", "127.0.0.1"]]
IPS = ["4.4.4.4", "1.2.3.4", "5.5.5.5", "10.0.0.1", "::1", "2001:db8::ff", "::ffff:1.2.3.4", "fe80::1%lo", "255.255.255.255", "0.0.0.0",
       "127.1", "1", "01.2.3.4", "9.9.9.9"]
GARBAGE = ["garbage", "4.4.4.4<script>", "www.google.com", "1.2.3.256", "1.2.3.4.5", "[::1]", "::1%", "1.2.3.4\xad", "\xb9.2.3.4", "::\xaa",
           "1.2.3.4\xa0", "\xa04.4.4.4", "unknown", "-", "1.2.3.4:80", "x" * 70, "1.2.3.4;", "\xe9", "fe80::1%zz", "1.2.3.4%lo", "::g"]
# decision boundaries of "numeric IP address": inet_aton short/octal/hex forms and their overflows, IPv6 group counts, `::` placement,
# embedded dotted quads, zone ids (existing / missing interface, index, alias-label trick, junk)
EDGE = ["0x7f.1", "0x7f.0.0.1", "0177.0.0.1", "08.1.1.1", "1.2.3", "1.2", "4294967295", "4294967296", "1.2.65535", "1.2.65536",
        "1.16777215", "1.16777216", "256.1.1.1", "1.256.1", "0x.1.1.1", "0x100.1.1.1", "0xff.1.1.1", "1.2.3.4.", ".1.2.3.4", "1..3.4",
        "1.2.3.04", "1.2.3.0x4", "1.2.3.0x", "00.0.0.0", "0", "::", ":::", "::::", "::1:", ":1::", "1:2:3:4:5:6:7:8", "1:2:3:4:5:6:7:8:9",
        "1:2:3:4:5:6:7", "1::8", "1:2:3:4:5:6:7::", "::2:3:4:5:6:7:8", "1::2::3", "12345::", "::1.2.3", "::1.2.3.4", "::1.2.3.256",
        "::01.2.3.4", "1:2:3:4:5:6:1.2.3.4", "1:2:3:4:5:6:7:1.2.3.4", "1.2.3.4::", "::ffff:1.2.3.4%1", "fe80::1%1", "fe80::1%01",
        "fe80::1%", "fe80::1%lo", "fe80::1%lo:<script>", "fe80::1%lo: x", "fe80::1%lo:1", "ff02::1%lo:<b>", "fe80::1%1:x", "fe80::1%lo%lo",
        "fe80::1%4294967295", "fe80::1%4294967296", "fe80::1%+1", "fe80::1% 1", "2001:db8::1%1", "2001:db8::1%lo", "::1%lo", "::1%1",
        "+1.2.3.4", "-1", "1e3", "0b1", "1.2.3.4 5", "1.2.3.4/8", "0x7F.0X1", "0xg", "FE80::1", "fe80:0:0:0:0:0:0:1", "00001::", "::00001"]
_MUT = "0123456789abcfxXg.:%lo <-+"


def _mutate(rng, v):
    """one or two character edits of an address: the near misses around every branch of the numeric-host grammar"""
    for _ in range(rng.choice([1, 1, 2])):
        k = rng.random()
        i = rng.randrange(len(v) + 1)
        if k < 0.4:
            v = v[:i] + rng.choice(_MUT) + v[i:]
        elif k < 0.65 and v:
            i = rng.randrange(len(v))
            v = v[:i] + v[i + 1:]
        elif v:
            i = rng.randrange(len(v))
            v = v[:i] + rng.choice(_MUT) + v[i + 1:]
    return v.strip(" ,") or "0"


NAMES_XFF = ["X-Forwarded-For", "x-forwarded-for", "X-FORWARDED-FOR", "X-Forwarded-for"]
NAMES_REAL = ["X-Real-Ip", "X-Real-IP", "x-real-ip"]
NAMES_SCHEME = ["X-Scheme", "x-scheme"]
NAMES_PROTO = ["X-Forwarded-Proto", "x-forwarded-proto", "X-FORWARDED-PROTO"]
PROTOS = ["http", "https", "HTTPS", "ftp", "https, http", "http,https", "https ,", ",https", "https\t", "wss", "http:", "h", "https,  http ",
          "http\xa0", "\xa0https"]
BAD_LINES = ["X-Real-Ip 4.4.4.4", "X Real-Ip: 4.4.4.4", ": 4.4.4.4", "X-Real-Ip: 4.4.4.4\x01", "X-Forwarded-For: 1.2.3.4\x7f", "X-Real-Ip\t: 4.4.4.4",
             "X-Forwarded-For", "X-R\xe9al-Ip: 4.4.4.4", "(X-Scheme): https", "X-Forwarded-Proto: https\x00"]
FIELD_VALUE = re.compile(r"(?:[\x21-\x7e\x80-\xff](?:[\x21-\x7e\x80-\xff \t]*[\x21-\x7e\x80-\xff])?)?\Z")


def _ip(rng, trusted):
    k = rng.random()
    if k < 0.45:
        return rng.choice(IPS)
    if k < 0.6 and trusted:
        return rng.choice(trusted)
    if k < 0.75:
        return rng.choice(EDGE)
    if k < 0.87:
        return _mutate(rng, rng.choice(IPS + EDGE)).replace(",", ".")
    return rng.choice(GARBAGE)


def _xff_value(rng, trusted):
    n = rng.choice([0, 1, 1, 2, 2, 3, 4])
    items = [_ip(rng, trusted) for _ in range(n)]
    if trusted and rng.random() < 0.5:
        items += [rng.choice(trusted) for _ in range(rng.randint(1, 2))]      # trusted proxies at the right end
    if trusted and rng.random() < 0.15:
        items = [rng.choice(trusted) for _ in range(rng.randint(1, 3))]       # every entry trusted
    sep = rng.choice([",", ", ", " , ", ",\t", ",  "])
    v = sep.join(items)
    if rng.random() < 0.08:
        v = rng.choice([",", v + ",", "," + v, v + ", ,", ""])
    return v.strip(" \t")


def _req(rng, trusted):
    lines = []
    k = rng.random()
    if k > 0.2:
        for _ in range(rng.choice([0, 1, 1, 1, 2])):
            lines.append("%s: %s" % (rng.choice(NAMES_XFF), _xff_value(rng, trusted)))
        if rng.random() < 0.4:
            lines.append("%s:%s%s" % (rng.choice(NAMES_REAL), rng.choice(["", " ", "  "]), _ip(rng, trusted) if rng.random() < 0.9 else ""))
            if rng.random() < 0.1:
                lines.append("%s: %s" % (rng.choice(NAMES_REAL), _ip(rng, trusted)))
        if rng.random() < 0.35:
            lines.append("%s: %s" % (rng.choice(NAMES_PROTO), rng.choice(PROTOS)))
        if rng.random() < 0.3:
            lines.append("%s: %s" % (rng.choice(NAMES_SCHEME), rng.choice(PROTOS + [""])))
        if rng.random() < 0.1 and lines:
            lines.append(rng.choice([" ", "\t"]) + _ip(rng, trusted))        # obs-fold continuation of the last header
        rng.shuffle(lines) if rng.random() < 0.5 and not any(l[0] in " \t" for l in lines) else None
    lines = [l for l in lines if l[0] in " \t" or FIELD_VALUE.match(l.split(":", 1)[1].strip(" \t"))]
    if lines and lines[0][0] in " \t":
        lines = lines[1:]
    bad = rng.random() < 0.05
    if bad:             # a header block that does not parse: 400 and the connection ends before the proxy adapter sees the request
        lines.insert(rng.randint(0, len(lines)), rng.choice(BAD_LINES))
    post = rng.random() < 0.25
    return {"lines": lines, "body": rng.choice([0, 1, 5, 70]) if post else None, "delay": rng.random() < 0.3,
            "version": rng.choice(["1.1"] * 8 + ["1.0ka", "1.0ka", "1.0"]), "raises": rng.random() < 0.06, "bad": bad}


def gen_cases(rng, tier):
    n = {"quick": 900, "thorough": 40000, "search": 900}[tier]
    for _ in range(n):
        trusted = rng.choice(TRUSTED_SETS)
        nreq = rng.choice([1, 2, 2, 3, 3, 4, 5])
        yield {"sock": rng.choice(SOCKS), "protocol": rng.choice([None, None, "http", "https"]), "trusted": trusted,
               "reqs": [_req(rng, trusted) for _ in range(nreq)], "kind": rng.choice(["callable", "callable", "app"]),
               "seg": rng.choice([0, 0, 1, 7, 19, 64]), "pipelined": rng.random() < 0.4,
               "end": rng.choice(["eof", "eof", "close-header", "abort-in-body"]),
               "family": rng.choice(["inet"] * 6 + ["inet6", "inet6", "unix", "unix"])}


# ----------------------------------------------------------------------------------------------- implementation
def _raw(req, k, last_close):
    body = req["body"]
    ver = req.get("version", "1.1")
    head = "%s /r%d HTTP/%s\r\nHost: example.com\r\n" % ("POST" if body is not None else "GET", k, ver[:3])
    if ver == "1.0ka":
        head += "Connection: keep-alive\r\n"
    if body is not None:
        head += "Content-Length: %d\r\n" % body
    if last_close and ver != "1.0ka":
        head += "Connection: close\r\n"
    head += "".join(l + "\r\n" for l in req["lines"]) + "\r\n"
    return head.encode("latin-1") + (b"b" * body if body else b"")


def _serve(case, reqs, end):
    """run one connection; -> (observations, context after the last response, context at the very end)"""
    import logging
    from tornado.httpserver import HTTPServer
    from tornado import httputil, web
    from core import vloop, faketransport
    logging.disable(logging.CRITICAL)
    obs = []
    with vloop.installed() as lp:
        def record(request):
            ctx = request.connection.context
            obs.append([request.remote_ip, request.protocol, ctx.remote_ip, ctx.protocol])

        delays = {("/r%d" % k): r["delay"] for k, r in enumerate(reqs)}
        raises = {("/r%d" % k): r.get("raises", False) for k, r in enumerate(reqs)}

        if case["kind"] == "callable":
            def cb(request):
                record(request)
                if raises.get(request.path):
                    raise RuntimeError("application callback failed")     # inside _ProxyAdapter.finish: _cleanup() is skipped

                def respond():
                    request.connection.write_headers(httputil.ResponseStartLine("HTTP/1.1", 200, "OK"),
                                                     httputil.HTTPHeaders({"Content-Length": "0"}))
                    request.connection.finish()
                if delays.get(request.path):
                    lp.io_loop.call_later(1.0, respond)
                else:
                    respond()
            server = HTTPServer(cb, xheaders=True, trusted_downstream=case["trusted"], protocol=case["protocol"])
        else:
            import asyncio

            class H(web.RequestHandler):
                async def get(self):
                    record(self.request)
                    if raises.get(self.request.path):
                        raise RuntimeError("handler failed")      # RequestHandler answers 500; the connection goes on
                    if delays.get(self.request.path):
                        await asyncio.sleep(1.0)
                post = get
            server = HTTPServer(web.Application([(r"/.*", H)]), xheaders=True, trusted_downstream=case["trusted"],
                                protocol=case["protocol"])
        s = faketransport.FakeStream(lp.io_loop)
        import socket as _socket
        fam = case.get("family", "inet")
        if fam == "inet6":
            s._fd.family = _socket.AF_INET6
            server.handle_stream(s, (case["sock"], 4321, 0, 0))
        elif fam == "unix":
            s._fd.family = _socket.AF_UNIX
            server.handle_stream(s, "")              # what accept() returns for an unnamed unix peer on Linux
        else:
            server.handle_stream(s, (case["sock"], 4321))
        lp.drain()
        conn = next(iter(server._connections))
        ctx = conn.context
        raws = [_raw(r, k, end == "close-header" and k == len(reqs) - 1) for k, r in enumerate(reqs)]
        if end == "abort-in-body" and reqs and reqs[-1]["body"]:
            raws[-1] = raws[-1][:-1]            # the peer goes away one byte short of the body
        chunks = [b"".join(raws)] if case["pipelined"] else raws
        seg = case["seg"]
        for ch in chunks:
            pieces = [ch] if not seg else [ch[i:i + seg] for i in range(0, len(ch), seg)]
            for p in pieces:
                if s.closed():
                    break
                s.feed(p)
                lp.drain()
            lp.advance(1.5 * (len(reqs) + 1))
        mid = [ctx.remote_ip, ctx.protocol]
        if not s.closed():
            s.feed_eof()
            lp.drain()
        lp.advance(3.0)
        final = [ctx.remote_ip, ctx.protocol]
        responses = bytes(s.written).count(b"HTTP/1.1 ") if b"400 Bad Request" not in bytes(s.written) else -1
    return obs, mid, final, responses


def run_impl(case):
    from tornado.httputil import HTTPHeaders
    from tornado.netutil import is_valid_ip
    obs, mid, final, nresp = _serve(case, case["reqs"], case["end"])
    solo = []
    for r in case["reqs"]:
        o, _, _, _ = _serve({**case, "pipelined": False, "seg": 0}, [{**r, "delay": False, "raises": False}], "eof")
        solo.append(o[0][:2] if o else None)
    cands = set([_sock(case)])
    for r in case["reqs"]:
        try:
            h = HTTPHeaders.parse("".join(l + "\r\n" for l in r["lines"]))
        except Exception:
            continue
        for name in ("X-Forwarded-For", "X-Real-Ip"):
            v = h.get(name)
            if v is not None:
                cands.add(v)
                cands.update(p.strip() for p in v.split(","))
    cands = sorted(cands)
    valid = sorted(c for c in cands if is_valid_ip(c))
    return {"obs": obs, "mid": mid, "final": final, "solo": solo, "valid": valid, "cands": cands,
            "gai": [c for c in cands if _gai(c)], "responses": nresp}


def _gai(s):
    """the raw resolver: getaddrinfo(AI_NUMERICHOST) returned results (EAI_NONAME, UnicodeError -> no)"""
    import socket
    if not s or "\x00" in s:
        return False          # is_valid_ip never asks (getaddrinfo reads "" as localhost and refuses NUL with ValueError)
    try:
        return bool(socket.getaddrinfo(s, 0, socket.AF_UNSPEC, socket.SOCK_STREAM, 0, socket.AI_NUMERICHOST))
    except socket.gaierror as e:
        if e.args[0] == socket.EAI_NONAME:
            return False
        raise
    except UnicodeError:
        return False


# ----------------------------------------------------------------------------------------------- model / spec
def _proto(case):
    return case["protocol"] or "http"


def _sock(case):
    """the socket address as _HTTPRequestContext sees it: address[0] for AF_INET/AF_INET6, the documented fake otherwise"""
    return "0.0.0.0" if case.get("family", "inet") == "unix" else case["sock"]


def _raising(case, r):
    """a plain callable that raises does so inside _ProxyAdapter.finish -> the connection is closed (a RequestHandler
    that raises is answered with 500 by tornado.web and the connection goes on)"""
    return bool(r.get("raises")) and case["kind"] == "callable"


def _reached(case):
    """requests the server starts to read: up to the first one after which the connection is not kept alive"""
    n = len(case["reqs"])
    for k, r in enumerate(case["reqs"]):
        ver = r.get("version", "1.1")
        if r.get("bad") or ver == "1.0" or _raising(case, r) or (k == n - 1 and case["end"] == "close-header" and ver != "1.0ka"):
            return k + 1
    return n


def _ends_bad(case):
    m = _reached(case)
    return m > 0 and bool(case["reqs"][m - 1].get("bad"))


def _aborted(case):
    return bool(case["end"] == "abort-in-body" and case["reqs"] and case["reqs"][-1]["body"] and _reached(case) == len(case["reqs"])
                and not _ends_bad(case))


def _expected_count(case):
    """requests that reach the handler: the reached ones, except a last one whose body is cut short or whose header block is refused"""
    return _reached(case) - (1 if _aborted(case) or _ends_bad(case) else 0)


def _ends_raising(case):
    k = _reached(case) - 1
    return k >= 0 and _raising(case, case["reqs"][k]) and not _aborted(case)


def _outcome(case, k, r):
    n = len(case["reqs"])
    if k == n - 1 and case["end"] == "abort-in-body" and r["body"]:
        return "A"                       # the peer goes away inside the body: on_connection_close
    if _raising(case, r):
        return "X"                       # delegate.finish() raises: no restore; the connection is closed
    ver = r.get("version", "1.1")
    if ver == "1.0" or (k == n - 1 and case["end"] == "close-header" and ver != "1.0ka"):
        return "L"
    return "K"


def model_requests(case, impl):
    # ALL requests go to the model; where the connection ends (unparsable block, not kept alive, raising delegate, peer gone) is
    # decided by the model's `connEvents`
    reqs = [[r["lines"], atom(_outcome(case, k, r))] for k, r in enumerate(case["reqs"])]
    return [line(ID, "conn", _sock(case), _proto(case), case["trusted"], impl["gai"], reqs),
            line(ID, "valid", impl["cands"], impl["gai"])]


def _norm(v):
    if isinstance(v, Atom):
        return {"T": True, "F": False}.get(str(v), str(v))
    if isinstance(v, list):
        return [_norm(x) for x in v]
    return v


def _py(reply):
    st, vals = parse_reply(reply)
    assert st == "ok", reply
    return [_norm(v) for v in vals]


def model_result(case, replies):
    steps = _py(replies[0])[0]
    orig = [_sock(case), _proto(case)]
    obs = []
    for o, ip, proto in steps:
        if isinstance(o, list):
            # a callable sees the context still rewritten; a RequestHandler method runs after _ProxyAdapter.finish
            obs.append(o + (o if case["kind"] == "callable" else orig))
    if _aborted(case) and len(steps) >= 2 and steps[-1][0] == "N" and isinstance(steps[-2][0], list) and obs:
        obs.pop()       # the request object of a request whose body never completes is built but never handed to the callback
    # `mid` is read when every byte has been delivered: before the final close event of an aborted request
    mid = steps[-2][1:] if (steps and steps[-1][0] == "N" and _aborted(case)) else (steps[-1][1:] if steps else orig)
    final = steps[-1][1:] if steps else orig
    return {"obs": obs, "mid": mid, "final": final, "valid": _py(replies[1])[0],
            "refused": bool(steps) and steps[-1][0] == "BadHeaders"}


def impl_view(case, impl):
    return {"obs": impl["obs"], "final": impl["final"], "mid": impl["mid"], "valid": impl["valid"],
            "refused": impl["responses"] == -1}        # the server answered 400 Bad Request


def _seen_ips(impl):
    return sorted({o[0] for o in impl["obs"] if isinstance(o[0], str)})


def spec_requests(case, impl):
    # neither line carries anything computed by is_valid_ip
    return [line(ID, "spec", _sock(case), case["trusted"], [r["lines"] for r in case["reqs"]]),
            line(ID, "numeric", _seen_ips(impl))]


def spec_violation(case, impl, replies):
    want = _py(replies[0])[0]
    numeric = dict(zip(_seen_ips(impl), _py(replies[1])[0]))
    obs = impl["obs"]
    n = _expected_count(case)
    for i, o in enumerate(obs[:len(case["reqs"])]):
        ip, proto = o[0], o[1]
        if proto not in ("http", "https"):
            return "request %d: protocol %r" % (i, proto)
        if ip != _sock(case) and numeric.get(ip) is not True:
            return "request %d: remote_ip %r is neither the socket address nor a numeric IP address" % (i, ip)
        if impl["solo"][i] is not None and [ip, proto] != impl["solo"][i]:
            return "request %d saw %r but %r on a fresh connection: state leaked from an earlier request" % (i, [ip, proto], impl["solo"][i])
        w = want[i]
        if isinstance(w, list) and ip not in w[0]:
            if w[1] is True:
                return "request %d: every X-Forwarded-For entry is a trusted proxy; remote_ip %r, socket address expected" % (i, ip)
            return "request %d: remote_ip %r, the headers call for %s" % (i, ip, " or ".join(repr(x) for x in w[0]))
    if len(obs) != n:
        return "handler saw %d requests, %d were sent completely on a connection still open" % (len(obs), n)
    if _ends_raising(case):
        return None       # the connection was closed by the failing callback: there is no later request to protect
    if impl["final"] != [_sock(case), _proto(case)] or (not _aborted(case) and impl["mid"] != [_sock(case), _proto(case)]):
        return "connection context not restored after the last request: %r / %r" % (impl["mid"], impl["final"])
    return None


def nontrivial(case, impl):
    return len(impl["obs"]) >= 2 and any(o[:2] != [_sock(case), _proto(case)] for o in impl["obs"])


def stats(case, impl):
    out = ["reqs:%d" % len(case["reqs"]), "kind:" + case["kind"], "end:" + case["end"], "pipelined:%s" % case["pipelined"]]
    out.append("family:" + case.get("family", "inet"))
    out.append("served:%d/%d" % (len(impl["obs"]), len(case["reqs"])))
    for r in case["reqs"][:_reached(case)]:
        out.append("version:" + r.get("version", "1.1"))
    if _ends_bad(case):
        out.append("connection ended by an unparsable header block")
    if _ends_raising(case):
        out.append("connection ended by a callback raising in finish (context left rewritten)")
    for o in impl["obs"]:
        out.append("ip:" + ("socket" if o[0] == _sock(case) else "header"))
        out.append("proto:" + o[1] + ("" if o[1] == _proto(case) else "(changed)"))
    out.append("candidates accepted by is_valid_ip:%d" % min(len(impl["valid"]), 6))
    out.append("candidates refused:%d" % min(len(impl["cands"]) - len(impl["valid"]), 6))
    if set(impl["gai"]) - set(impl["valid"]):
        out.append("resolver accepts, pre-checks of is_valid_ip refuse")
    if any("%" in v for v in impl["valid"]):
        out.append("accepted address with zone id")
    return out


def signature(case, impl, why):
    if "every X-Forwarded-For entry is a trusted proxy" in why:
        return "remote_ip/xff-all-trusted"
    if "leaked" in why or "not restored" in why:
        return "leak"
    if "numeric" in why:
        bad = [o[0] for o in impl["obs"] if isinstance(o[0], str) and repr(o[0]) in why]
        return "remote_ip/not-numeric" + ("/non-ascii" if any(not b.isascii() for b in bad) else
                                           "/zone-id" if any("%" in b for b in bad) else "")
    if "protocol" in why:
        return "protocol/not-http-or-https"
    if "handler saw" in why:
        return "requests-lost"
    return "remote_ip/wrong-source"


def shrink(case):
    rs = case["reqs"]
    for i in range(len(rs)):
        if len(rs) > 1:
            yield {**case, "reqs": rs[:i] + rs[i + 1:]}
    for i, r in enumerate(rs):
        for j in range(len(r["lines"])):
            yield {**case, "reqs": rs[:i] + [{**r, "lines": r["lines"][:j] + r["lines"][j + 1:]}] + rs[i + 1:]}
        if r["body"] is not None or r["delay"]:
            yield {**case, "reqs": rs[:i] + [{**r, "body": None, "delay": False}] + rs[i + 1:]}
    if case["seg"] or case["pipelined"] or case["kind"] != "callable" or case["end"] != "eof":
        yield {**case, "seg": 0, "pipelined": False, "kind": "callable", "end": "eof"}
