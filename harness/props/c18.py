"""C18 — the native WebSocket masking routine (tornado/speedups.c) equals the reference definition.

Two ties on every run:
 (T) `translate(repo)`: harness/translate/c2lean.py regenerates lean/TornadoModel/C18/Gen/Speedups.lean from
     $VERIF_REPO/tornado/speedups.c; the theorems in C18/Props.lean are about that generated function.
 (H) speedups.c of the working tree is compiled into <verif>/.build/<pid>/ and run in a helper process (a crash of
     an edited routine is an observation, not an infrastructure failure); its output is compared with the Python
     reference of the same tree, with the generated Lean model, the Lean model of the Python reference and the
     Lean specification, over payload lengths x source alignments x masks.
"""
import atexit, json, os, random, shutil, subprocess, sys, sysconfig

from core.wire import line, parse_reply, Atom
from core import build as _build

ID = "C18"
LEAN_TARGETS = ["TornadoModel.C18.Props"]
THEOREMS = [
    "TornadoModel.C18.c_mask_eq_bytewise",
    "TornadoModel.C18.c_mask_pointwise",
    "TornadoModel.C18.py_mask_eq_bytewise",
    "TornadoModel.C18.c_mask_eq_py_mask",
    "TornadoModel.C18.mask_len_guard",
    "TornadoModel.C18.c_mask_refines_spec",
    "TornadoModel.C18.store_load_xor",
    "TornadoModel.C18.bytewise_involutive",
]
TRUSTED = [
    "harness/translate/c2lean.py (syntax-directed C-subset -> Lean translator) and the C semantics primitives in "
    "C18/CSem.lean: little-endian word load/store on byte lists, unsigned wrap-around, mathematical integers for "
    "Py_ssize_t and pointer offsets, `char ^ char` stored to a char = XOR of the unsigned bytes; cross-checked on "
    "every run by executing the compiled routine against the generated model",
    "the C compiler, PyArg_ParseTuple(\"s#s#\"), PyBytes_FromStringAndSize / PyBytes_AsString",
    "array.array('B') indexing and range() as modelled in C18/Model.lean (pyLoop)",
]
ASSUMPTIONS = [
    "little-endian host with sizeof(size_t) == 8 (checked at run time; recorded in Gen/Speedups.lean)",
    "C undefined behaviour cannot be exhibited by the model except as explicit out-of-bounds / uninitialised / "
    "non-termination outcomes; unaligned uint32_t/uint64_t accesses are modelled as the hardware performs them "
    "(the thorough tier runs an ASan+UBSan build with the alignment check off and reports it separately)",
    "arguments are bytes objects or ctypes char arrays (\"s#\" refuses memoryview/bytearray); str arguments (\"s#\" also accepts "
    "them, as their UTF-8 encoding) are exercised by the tie only for the C routine's own contract",
]
RULE = ("payload lengths 0..300 exhaustively (thorough: 0..4096) x 8 source alignments (a bytes object, plus ctypes char arrays at "
        "addresses = 0..7 mod 8; \"s#\" refuses memoryviews) x random and structured masks (all-zero, all-ones, single-bit, distinct bytes), plus "
        "mask lengths 0..8; non-trivial = 4-byte mask that is not all-zero and a payload of >= 1 byte; distinct by "
        "(mask, payload)")
EXHAUSTIVE = {"quick": False, "thorough": False}
CLAUSES = {
    "for every 4-byte mask and every payload of any length the compiled function returns byte i XOR mask[i mod 4]":
        "c_mask_eq_bytewise, c_mask_pointwise, c_mask_refines_spec (about the model regenerated from speedups.c)",
    "…the same bytes as the pure-Python RFC 6455 masking function": "py_mask_eq_bytewise + c_mask_eq_py_mask",
    "…and every memory alignment": "tie only: 8 source alignments per case on the compiled routine (the byte-list "
                                   "model has no notion of alignment)",
    "it rejects masks that are not exactly 4 bytes": "mask_len_guard",
}
PARALLEL = False          # the native routine runs in one helper process (see _Helper)
CASE_TIMEOUT = 30
LEVEL_NOTE = "model of the C routine is regenerated from speedups.c by a translator on every run"
TECHNIQUE = "translator + induction over the loops (Hoare-style invariant rule for whileFuel) + differential run of the compiled routine"

VERIF = _build.VERIF
REPO = os.environ.get("VERIF_REPO", "/repo")
GEN = os.path.join(VERIF, "lean", "TornadoModel", "C18", "Gen", "Speedups.lean")
OFFSETS = list(range(8))

# --------------------------------------------------------------------------------------------- translator tie


def translate(repo):
    sys.path.insert(0, os.path.join(VERIF, "harness"))
    from translate import c2lean
    return c2lean.translate_file(os.path.join(repo, "tornado", "speedups.c"), GEN)


# --------------------------------------------------------------------------------------------- native build
_HELPER_SRC = r'''
import sys, json, ctypes, importlib.machinery, importlib.util
so = sys.argv[1]
mod = None
if so != "-":
    loader = importlib.machinery.ExtensionFileLoader("speedups", so)
    spec = importlib.util.spec_from_file_location("speedups", so, loader=loader)
    mod = importlib.util.module_from_spec(spec); loader.exec_module(mod)
else:
    import tornado.speedups as mod
f = mod.websocket_mask
out = sys.stdout
for ln in sys.stdin:
    q = json.loads(ln)
    mask = bytes.fromhex(q["mask"]); data = bytes.fromhex(q["data"])
    res = []
    for off in q["offs"]:
        try:
            if off is None:
                r = f(mask, data)
            else:
                # "s#" refuses memoryview/bytearray (objects with bf_releasebuffer); a ctypes char array at byte
                # offset `off` of a 16-byte aligned block is accepted and puts the payload at address = off (mod 8)
                base = (ctypes.c_char * (len(data) + 24))()
                shift = (off - ctypes.addressof(base)) % 8
                sub = (ctypes.c_char * len(data)).from_buffer(base, shift)
                ctypes.memmove(sub, data, len(data))
                assert ctypes.addressof(sub) % 8 == off
                r = f(mask, sub)
            res.append(r.hex() if isinstance(r, bytes) else "NotBytes:" + type(r).__name__)
        except ValueError:
            res.append("ValueError")
        except Exception as e:
            res.append("Uncaught:" + type(e).__name__)
    out.write(json.dumps(res) + "\n"); out.flush()
'''

_state = {"dir": None, "so": None, "how": None, "asan_so": None, "helpers": {}, "owner": None}


def _cleanup():
    if _state["owner"] != os.getpid():
        return
    for h in list(_state["helpers"].values()):
        h.close()
    if _state["dir"] and os.path.isdir(_state["dir"]):
        shutil.rmtree(_state["dir"], ignore_errors=True)
        try:
            os.rmdir(os.path.dirname(_state["dir"]))
        except OSError:
            pass


def _compile():
    """speedups.c of the working tree -> <verif>/.build/<pid>/speedups.so (+ sanitizer build).  Sets _state."""
    if _state["how"] is not None:
        return
    _state["owner"] = os.getpid()
    atexit.register(_cleanup)
    d = os.path.join(VERIF, ".build", str(os.getpid()))
    os.makedirs(d, exist_ok=True)
    _state["dir"] = d
    src = os.path.join(REPO, "tornado", "speedups.c")
    inc = sysconfig.get_paths()["include"]
    cc = os.environ.get("CC") or sysconfig.get_config_var("CC") or "cc"
    cc = cc.split()[0]
    if not os.path.exists(os.path.join(inc, "Python.h")) or shutil.which(cc) is None:
        _state["how"] = "FALLBACK: Python headers or C compiler missing; using the already built tornado.speedups of %s" % REPO
        _state["so"] = "-"
        return
    so = os.path.join(d, "speedups.so")
    cmd = [cc, "-shared", "-fPIC", "-O2", "-DPy_LIMITED_API=0x030a0000", "-I", inc, src, "-o", so]
    p = subprocess.run(cmd, stdout=subprocess.PIPE, stderr=subprocess.STDOUT, text=True)
    if p.returncode != 0:
        _state["how"] = "COMPILE-FAILED: " + p.stdout[-600:]
        _state["so"] = None
        return
    _state["so"] = so
    _state["how"] = "compiled %s with `%s` into .build/<pid>/" % (src, " ".join(cmd[:5]))
    # sanitizer build (used by the thorough tier): address + undefined, alignment check off
    asan_rt = subprocess.run([cc, "-print-file-name=libasan.so"], stdout=subprocess.PIPE, text=True).stdout.strip()
    if os.path.sep in asan_rt and os.path.exists(asan_rt):
        so2 = os.path.join(d, "speedups_asan.so")
        cmd2 = [cc, "-shared", "-fPIC", "-O1", "-g", "-fsanitize=address,undefined", "-fno-sanitize=alignment",
                "-fno-sanitize-recover=all", "-DPy_LIMITED_API=0x030a0000", "-I", inc, src, "-o", so2]
        p2 = subprocess.run(cmd2, stdout=subprocess.PIPE, stderr=subprocess.STDOUT, text=True)
        if p2.returncode == 0:
            _state["asan_so"] = (so2, asan_rt)


class _Helper:
    """the compiled routine in a child process: a crash (SIGSEGV, sanitizer abort) is an observation."""

    def __init__(self, so, preload=None):
        self.so, self.preload, self.p = so, preload, None

    def start(self):
        env = dict(os.environ)
        env["PYTHONPATH"] = REPO
        if self.preload:
            env["LD_PRELOAD"] = self.preload
            env["ASAN_OPTIONS"] = "detect_leaks=0:abort_on_error=1:halt_on_error=1"
            env["UBSAN_OPTIONS"] = "halt_on_error=1:print_stacktrace=0"
            env["PYTHONMALLOC"] = "malloc"
        self.p = subprocess.Popen(["/venv/bin/python", "-B", "-c", _HELPER_SRC, self.so], stdin=subprocess.PIPE,
                                  stdout=subprocess.PIPE, stderr=subprocess.DEVNULL, env=env, text=True)

    def ask(self, mask, data, offs):
        if self.p is None or self.p.poll() is not None:
            self.start()
        try:
            self.p.stdin.write(json.dumps({"mask": mask.hex(), "data": data.hex(), "offs": offs}) + "\n")
            self.p.stdin.flush()
            ln = self.p.stdout.readline()
        except (BrokenPipeError, OSError):
            ln = ""
        if not ln:
            rc = self.p.wait()
            self.p = None
            return ["Crashed:%s" % (("signal %d" % -rc) if rc < 0 else ("exit %d" % rc))] * len(offs)
        return json.loads(ln)

    def close(self):
        if self.p is not None and self.p.poll() is None:
            try:
                self.p.stdin.close()
                self.p.wait(timeout=5)
            except Exception:
                self.p.kill()
        self.p = None


def _helper(kind):
    _compile()
    h = _state["helpers"].get(kind)
    if h is None:
        if kind == "c":
            if _state["so"] is None:
                return None
            h = _Helper(_state["so"])
        else:
            if _state["asan_so"] is None:
                return None
            h = _Helper(_state["asan_so"][0], preload=_state["asan_so"][1])
        _state["helpers"][kind] = h
    return h


# --------------------------------------------------------------------------------------------- cases
def payload(case):
    if "data" in case:
        return bytes.fromhex(case["data"])
    n, k, seed = case["len"], case.get("pat", "rand"), case.get("dseed", 0)
    if k == "zeros":
        return bytes(n)
    if k == "ones":
        return b"\xff" * n
    if k == "inc":
        return bytes((seed + i) & 0xFF for i in range(n))
    if k == "text":
        return (b"Hello, WebSocket! " * (n // 18 + 1))[:n]
    r = random.Random(seed * 4099 + 11)
    return bytes(r.getrandbits(8) for _ in range(n)) if n < 64 else r.randbytes(n)


STRUCT_MASKS = ["00000000", "ffffffff", "01000000", "00000080", "00010000", "01020304", "ff00ff00", "80808080",
                "7f7f7f7f", "deadbeef", "000000ff", "aa55aa55"]


def _mask(rng, structured=0.35):
    if rng.random() < structured:
        return rng.choice(STRUCT_MASKS)
    return bytes(rng.getrandbits(8) for _ in range(4)).hex()


def _case(rng, n, mask=None, pat=None, asan=False):
    c = {"mask": mask if mask is not None else _mask(rng), "len": n,
         "pat": pat or rng.choice(["rand", "rand", "rand", "inc", "ones", "zeros", "text"]),
         "dseed": rng.randrange(1 << 30)}
    if asan:
        c["asan"] = True
    return c


def gen_cases(rng, tier):
    _compile()
    asan = tier == "thorough" and _state["asan_so"] is not None
    if tier == "quick":
        lens = list(range(0, 301)) + sorted(rng.sample(range(301, 4097), 60)) + [4095, 4096]
    elif tier == "thorough":
        lens = list(range(0, 4097))
    else:
        lens = [rng.choice([rng.randrange(0, 80), rng.randrange(0, 600), 8 * rng.randrange(0, 60) + rng.randrange(-1, 2) % 8,
                            rng.randrange(0, 4097)]) for _ in range(1500)]
    for n in lens:
        c = _case(rng, max(0, n), asan=asan)
        if tier == "thorough" and n > 1024 and n % 64 not in (0, 1, 7, 8, 9, 31, 33, 63) and rng.random() > 0.04:
            # the list-based Lean models cost O(n^2) per call: above 1 KiB only the specification (O(n)) is evaluated
            # for most lengths; the compiled routine, the Python reference and the oracle still see every length
            c["nomodel"] = True
        yield c
        if n <= 40 or tier == "search":
            yield _case(rng, max(0, n), mask=rng.choice(STRUCT_MASKS), asan=asan)
    # every structured mask on boundary lengths
    for m in STRUCT_MASKS:
        for n in (1, 3, 4, 5, 7, 8, 9, 11, 12, 13, 15, 16, 17, 23, 31, 32, 33):
            yield _case(rng, n, mask=m, pat="rand", asan=asan)
    # wrong mask lengths 0..8 (and a few longer), several payload lengths
    for ml in list(range(0, 9)) + [12, 16]:
        if ml == 4:
            continue
        for n in (0, 1, 4, 8, 9, 64):
            yield {"mask": bytes(rng.getrandbits(8) for _ in range(ml)).hex(), "len": n, "pat": "rand",
                   "dseed": rng.randrange(1 << 30)}


def run_impl(case):
    from tornado import util
    mask = bytes.fromhex(case["mask"])
    data = payload(case)
    try:
        py = util._websocket_mask_python(mask, data).hex()
    except ValueError:
        py = "ValueError"
    except Exception as e:
        py = "Uncaught:" + type(e).__name__
    h = _helper("c")
    if h is None:
        return {"harness_exc": "speedups.c did not compile: %s" % _state["how"]}
    offs = [None] + OFFSETS
    c = h.ask(mask, data, offs)
    out = {"py": py, "c": c[0], "build": _state["how"].split(":")[0] if _state["how"].startswith(("FALLBACK", "COMPILE")) else "compiled"}
    diff = {str(o): r for o, r in zip(offs[1:], c[1:]) if r != c[0]}
    if diff:
        out["c_by_offset"] = diff
    if case.get("asan"):
        ha = _helper("asan")
        if ha is not None:
            a = ha.ask(mask, data, [None, 1, 3, 5])
            out["asan"] = "same" if all(x == c[0] for x in a) else a
    return out


def _val(v):
    if isinstance(v, Atom):
        return str(v)
    if isinstance(v, (bytes, bytearray)):
        return bytes(v).hex()
    return v


def model_requests(case, impl):
    if case.get("nomodel"):
        return []
    return [line(ID, "model", bytes.fromhex(case["mask"]), payload(case))]


def model_result(case, replies):
    if case.get("nomodel"):
        return {"model": "not evaluated for this length (specification only)"}
    st, vals = parse_reply(replies[0])
    assert st == "ok", replies[0]
    return {"c": _val(vals[0]), "py": _val(vals[1])}


def impl_view(case, impl):
    if case.get("nomodel"):
        return {"model": "not evaluated for this length (specification only)"}
    return {"c": impl["c"], "py": impl["py"]}


def spec_requests(case, impl):
    return [line(ID, "spec", bytes.fromhex(case["mask"]), payload(case))]


def spec_violation(case, impl, replies):
    st, vals = parse_reply(replies[0])
    assert st == "ok", replies[0]
    want = _val(vals[0])
    ml = len(case["mask"]) // 2
    n = len(payload(case))
    if impl["c"].startswith("Crashed"):
        return "native websocket_mask crashed the interpreter (%s) on a %d-byte mask, %d-byte payload" % (impl["c"], ml, n)
    if ml != 4:
        if impl["c"] != "ValueError":
            return "native websocket_mask accepted a %d-byte mask (result %s)" % (ml, impl["c"][:40])
        if impl["py"] != "ValueError":
            return "_websocket_mask_python accepted a %d-byte mask" % ml
        return None
    if impl["c"] != want:
        return "native websocket_mask(%s, <%d bytes>) differs from byte-wise XOR: first difference at byte %s" % (
            case["mask"], n, _first_diff(impl["c"], want))
    if "c_by_offset" in impl:
        o, r = sorted(impl["c_by_offset"].items())[0]
        return "native websocket_mask result depends on the source alignment (offset %s: %s)" % (o, _first_diff(r, want))
    if impl["py"] != want:
        return "_websocket_mask_python differs from byte-wise XOR at byte %s" % _first_diff(impl["py"], want)
    if impl.get("asan") not in (None, "same"):
        return "sanitizer (ASan/UBSan) build of websocket_mask disagrees or aborted: %s" % (impl["asan"],)
    return None


def _first_diff(a, b):
    if not all(ch in "0123456789abcdef" for ch in a):
        return "n/a (%s)" % a[:40]
    if len(a) != len(b):
        return "n/a (length %d vs %d)" % (len(a) // 2, len(b) // 2)
    for i in range(0, len(a), 2):
        if a[i:i + 2] != b[i:i + 2]:
            return str(i // 2)
    return "none"


def nontrivial(case, impl):
    return len(case["mask"]) == 8 and case["mask"] != "00000000" and len(payload(case)) >= 1


def stats(case, impl):
    n = len(payload(case))
    out = ["mask_len:%d" % (len(case["mask"]) // 2), "build:" + impl.get("build", "?"),
           "len%%8:%d" % (n % 8), "len:" + ("0" if n == 0 else "1-7" if n < 8 else "8-63" if n < 64 else "64-300" if n <= 300 else "301-4096"),
           "pat:" + case.get("pat", "explicit")]
    if len(case["mask"]) == 8:
        out.append("mask:" + ("structured" if case["mask"] in STRUCT_MASKS else "random"))
    if "asan" in impl:
        out.append("asan:" + ("same" if impl["asan"] == "same" else "DIFF"))
    out.append("alignments:9")
    out.append("lean-model:" + ("skipped" if case.get("nomodel") else "evaluated"))
    out.append("native:" + (_state["how"] or "?")[:160])
    return out


def signature(case, impl, why):
    if "crashed" in why:
        return "native/crash"
    if "accepted a" in why:
        return ("python" if why.startswith("_websocket_mask_python") else "native") + "/mask-length-not-rejected"
    if "alignment" in why:
        return "native/alignment-dependent"
    if why.startswith("_websocket_mask_python"):
        return "python/wrong-bytes"
    if "sanitizer" in why:
        return "native/sanitizer"
    return "native/wrong-bytes"


def shrink(case):
    data = payload(case)
    base = {"mask": case["mask"]}
    n = len(data)
    for k in (n // 2, n - 8, n - 4, n - 1):
        if 0 <= k < n:
            yield {**base, "data": data[:k].hex()}
            yield {**base, "data": data[n - k:].hex()}
    if any(data):
        yield {**base, "data": bytes(n).hex()}
    if case["mask"] not in ("00000000", "01020304") and len(case["mask"]) == 8:
        yield {"mask": "01020304", "data": data.hex()}


def neighbours(case):
    n = len(payload(case))
    for d in range(-9, 10):
        if n + d >= 0 and d:
            yield {"mask": case["mask"], "len": n + d, "pat": "rand", "dseed": 7}


def describe(case):
    d = dict(case)
    if "data" in d and len(d["data"]) > 64:
        d["data"] = d["data"][:64] + "…(%d bytes)" % (len(case["data"]) // 2)
    return d
