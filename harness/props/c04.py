"""C04 — server size limits bound what a peer can make the application buffer.

Same implementation harness as C01 (`props.c01.serve`: real HTTPServer → HTTP1ServerConnection → HTTP1Connection over
the fake transport), with small `max_header_size` / `max_body_size`, per-request `set_max_body_size` overrides made by
the delegate in `headers_received`, and `decompress_request=True` for the gzip stream (real zlib; every
`GzipDecompressor.decompress` answer is recorded and handed to the model as the oracle script).
"""
import gzip as _gzip, re, zlib
from core.wire import atom, line, parse_reply, Atom
from props import c01 as base

ID = "C04"
LEAN_TARGETS = ["TornadoModel.C04.Props"]
THEOREMS = [
    "TornadoModel.C04.delivered_le_limit",
    "TornadoModel.C04.delivered_le_limit_eof",
    "TornadoModel.C04.withinLimits_run",
    "TornadoModel.C04.gz_delivered_le_limit",
    "TornadoModel.C04.header_oversize_closed",
    "TornadoModel.C04.header_unterminated_closed",
    "TornadoModel.C04.header_at_limit_ok",
    "TornadoModel.C04.cl_oversize_rejected",
    "TornadoModel.C04.cl_at_limit_ok",
    "TornadoModel.C04.oversize_body_closed",
    "TornadoModel.C04.chunk_oversize_rejected",
    "TornadoModel.C04.chunk_at_limit_ok",
    "TornadoModel.C04.gz_oversize_rejected",
    "TornadoModel.C04.run_header_oversize_closed",
    "TornadoModel.C04.run_header_oversize_first",
    "TornadoModel.C04.run_body_refused",
    "TornadoModel.C04.run_cl_oversize_refused",
    "TornadoModel.C04.run_cl_oversize_no_data",
    "TornadoModel.C04.run_chunk_oversize_refused",
    "TornadoModel.C04.run_closed_absorbs",
    "TornadoModel.C04.gz_run_oversize_refused",
    "TornadoModel.C04.gz_run_size_gt_rejected",
    "TornadoModel.C04.gz_run_beyond_refused",
    "TornadoModel.C04.gz_run_accepted_whole",
    "TornadoModel.C04.run_cl_within_delivered",
    "TornadoModel.C04.run_cl_within_delivered_close",
    "TornadoModel.C04.run_chunk_within_delivered",
    "TornadoModel.C04.gz_beyond_conn_closed",
    "TornadoModel.C04.raw_body_limit_exact",
    "TornadoModel.C04.raw_body_limit_absent",
    "TornadoModel.C04.raw_delivered_le_configured",
    "TornadoModel.C04.raw_zero_delivers_nothing",
    "TornadoModel.C04.raw_zero_cl_rejected",
    "TornadoModel.C04.limits_monotone",
    "TornadoModel.C04.limits_monotone_state",
]
TRUSTED = base.TRUSTED + [
    "zlib / tornado.util.GzipDecompressor: only the contract 'unconsumed_tail is a suffix of the input' is used; the "
    "answers of the real decompressor are recorded per call and replayed into the model",
]
ASSUMPTIONS = base.ASSUMPTIONS[:4] + [
    "gzip bodies are well-formed or truncated gzip streams (corrupt deflate data raises zlib.error inside the delegate; "
    "not part of this property)",
    "the stream's max_buffer_size is its default (None/0 -> 100 MB) or at least the length of the whole stream, so the "
    "read-buffer cap itself is never reached (that cap is exercised by C11); it only matters as the body limit when "
    "max_body_size is None",
    "runs against the repo with the fix commit that forwards set_max_body_size() to the gzip delegate",
]
RULE = ("server options as the application passes them: max_body_size 0 / 1..4096 / None (-> max_buffer_size None|0|2048|"
        "4096 -> 100 MB), max_header_size 0 / None (-> 65536) / 40..600; sizes limit-1/limit/limit+1/10*limit (declared-only "
        "for the 100 MB default), framings Content-Length / chunked (random chunk splits) / gzip (levels, multi-member, "
        "truncated, bombs), per-request overrides 0 / above / below the default, x segmentations; plus a fixed grid "
        "{max_body_size 0,1,None} x {override none,0,1,5} x {CL, chunked one chunk, chunked 1-byte chunks} x {0,1,2,6 bytes} "
        "(whole and byte-wise) and the exact 65536 / 100 MB / max_buffer_size boundaries; non-trivial = a body or header "
        "block within 2 bytes of its limit or beyond it; distinct by canonical JSON")
EXHAUSTIVE = {"quick": False, "thorough": False}
CLAUSE_CAVEATS = [
    "the run-level acceptance theorems (run_cl_within_delivered, run_chunk_within_delivered) need the message / chunk to be completely contained in the bytes that follow the reachable state, and run_cl_within_delivered(_close) are stated for a non-empty Content-Length body; empty bodies, non-persistent chunked requests and bodies still incomplete at the end of the input are carried by the one-step lemmas *_at_limit_ok and the tie against Spec.readAll",
    "gzip: there is no single composed machine. The wrapper (gzRun) and the connection (run) are two machines; their composition is the glue gzRefusal (the wrapper's HTTPInputError = the connection's reject400) plus 'the wrapper's limit is effLimit of the request's position' -- both are compared with the implementation on every gzip case (refusal events, the limit read at each decompressor answer), and gz_beyond_conn_closed is stated over that glue, for an arbitrary connection state rather than a reachable one; gzRun takes ONE limit for the whole body (the code re-reads connection._max_body_size per answer; the harness delegate changes it only in headers_received); _GzipMessageDelegate.finish() (flush / truncated-stream errors) is not modelled",
    "limits_monotone requires that the run under the smaller limits never closed the connection, so it says nothing for a stream ending in a non-persistent (Connection: close / HTTP/1.0) request; those are covered by the tie only (the trace alone cannot tell a size refusal after a served request from a non-persistent finish, so a trace-level hypothesis does not exist)",
]
CLAUSES = {
    "header block larger than max_header_size is refused and the connection closed": "run_header_oversize_closed, run_header_oversize_first (run level: any reachable boundary, any segmentation; trace = closed only), run_closed_absorbs; one-step: header_oversize_closed, header_unterminated_closed, header_at_limit_ok",
    "declared body larger than max_body_size (or the per-request override) refused": "run_cl_oversize_refused, run_cl_oversize_no_data, run_body_refused (run level, limit = effLimit of the request's position incl. overrides; trace = req, 400, closed, connClose; no data, no fin); one-step: cl_oversize_rejected, oversize_body_closed, cl_at_limit_ok",
    "chunked body larger than the limit refused": "run_chunk_oversize_refused, run_chunk_within_delivered (run level: bytes already handed over + declared chunk size > effLimit => 400, closed, nothing more delivered); one-step: chunk_oversize_rejected, chunk_at_limit_ok",
    "gzip body decompressing beyond the limit refused": "gz_run_beyond_refused (total decompressor output over the consumed answers > limit, at any call / loop iteration => HTTPInputError, delivered <= limit), gz_run_oversize_refused, gz_run_size_gt_rejected (delegate level, all call sequences and decompressor behaviours), gz_oversize_rejected (one iteration); 400 + close: gz_beyond_conn_closed over the glue gzRefusal (compared with the implementation on every refusing gzip case)",
    "application is handed at most max_body_size body bytes": "delivered_le_limit, delivered_le_limit_eof, withinLimits_run (all streams, segmentations, overrides), gz_delivered_le_limit (all decompressor behaviours)",
    "limit values (configurations): the configured max_body_size is the limit for every value incl. 0, None falls back to max_buffer_size": "raw_body_limit_exact, raw_body_limit_absent, raw_delivered_le_configured, raw_zero_delivers_nothing, raw_zero_cl_rejected (Raw.cfg models `is not None` / `or 65536` / `or 104857600`)",
    "requests within the limits are unaffected": "run_cl_within_delivered, run_cl_within_delivered_close (run level: header block <= max_header_size and Content-Length <= limit, equality included, is delivered whole and finished), gz_run_accepted_whole (a gzip body not refused is handed over completely), limits_monotone, limits_monotone_state (raising the limits does not change a run that never closed); one-step exactness by *_at_limit_ok; checked on every case against Spec.readAll",
}
PARALLEL = True
CASE_TIMEOUT = 120


# ------------------------------------------------------------------------------------------------ implementation

class _stream_buffer:
    """`cfg["buf"]` = the `max_buffer_size` of the stream the connection is served on (what TCPServer passes to IOStream);
    base.serve builds its FakeStream without arguments, so the argument is injected here"""

    def __init__(self, cfg):
        self.buf = cfg.get("buf")

    def __enter__(self):
        if self.buf is None:
            return
        from core import faketransport as ft
        self.ft, self.orig = ft, ft.FakeStream.__init__
        orig, buf = self.orig, self.buf

        def init(stream, io_loop=None, **kw):
            kw.setdefault("max_buffer_size", buf)
            orig(stream, io_loop, **kw)

        ft.FakeStream.__init__ = init

    def __exit__(self, *a):
        if self.buf is not None:
            self.ft.FakeStream.__init__ = self.orig


def _serve_gzip(case):
    """-> (raw log with extra ("G", chunk) ("A", out, tail_len) ("GR",) entries, closed)"""
    import tornado.http1connection as h1
    data = bytes.fromhex(case["data"])
    holder = {}
    orig_dr = h1._GzipMessageDelegate.data_received
    OrigDec = h1.GzipDecompressor

    class RecDec:
        def __init__(self):
            self.d = OrigDec()

        def decompress(self, value, max_length=0):
            out = self.d.decompress(value, max_length)
            holder["log"].append(("A", bytes(out), len(self.d.unconsumed_tail), len(value), max_length))
            return out

        @property
        def unconsumed_tail(self):
            return self.d.unconsumed_tail

        def flush(self):
            return self.d.flush()

        @property
        def eof(self):      # read by _GzipMessageDelegate.finish() since the truncated-gzip fix (tornado c73f142)
            return self.d.eof

    async def data_received(self, chunk):
        lim = getattr(self, "_max_body_size", None)     # before the fix: a copy taken when the wrapper was created
        if lim is None and getattr(self, "_connection", None) is not None:
            lim = self._connection._max_body_size          # since the fix: read from the connection at every answer
        holder["log"].append(("G", bytes(chunk), lim, self._decompressor is not None))
        try:
            return await orig_dr(self, chunk)
        except h1.httputil.HTTPInputError:
            holder["log"].append(("GR",))
            raise

    h1._GzipMessageDelegate.data_received = data_received
    h1.GzipDecompressor = RecDec
    try:
        with _stream_buffer(case["cfg"]):
            log, closed_before, closed = base.serve(base.segments(data, case["cuts"]), case["cfg"],
                                                    eof=case.get("eof", False), decompress=True,
                                                    wrap=lambda lg: holder.__setitem__("log", lg))
    finally:
        h1._GzipMessageDelegate.data_received = orig_dr
        h1.GzipDecompressor = OrigDec
    return log, closed_before


def run_impl(case):
    if case["kind"] == "limit":
        with _stream_buffer(case["cfg"]):
            return base.run_impl({**case, "kind": "stream"})
    log, closed = _serve_gzip(case)
    calls, inner, limit_seen, limits = [], [], None, set()
    for e in log:
        if e[0] == "G":
            # no Content-Encoding: gzip -> the delegate passes the chunk through; as an oracle script that is one
            # "decompress" call returning its input
            calls.append([e[1].hex(), [] if e[3] else [[e[1].hex(), 0]]])
            limit_seen = e[2]
            if e[3]:
                limits.add(e[2])
        elif e[0] == "A":
            calls[-1][1].append([e[1].hex(), e[2]])
        elif e[0] == "D":
            inner.append(e[1].hex())
    ev = base.canon([e for e in log if e[0] not in ("G", "A", "GR")])
    ev = [e if not (isinstance(e, list) and e[0] == "req") else "req" for e in ev]
    gz_rejected = any(e[0] == "GR" for e in log)
    # what the connection did after the wrapper raised: everything after the head of the refused request except the
    # deliveries made before (and a 100 Continue)
    last = max((i for i, e in enumerate(ev) if e == "req"), default=-1)
    refusal = [e for e in ev[last + 1:] if isinstance(e, str) and e != "w100"] if gz_rejected else []
    return {"limits": sorted(limits), "refusal": refusal, "calls": calls, "inner": inner, "gz_rejected": gz_rejected, "limit_seen": limit_seen,
            "ev": ev, "closed": closed,
            "a_ok": all(e[3] >= e[2] and e[4] > 0 for e in log if e[0] == "A")}


# ------------------------------------------------------------------------------------------------ model / spec

def _eff(cfg, i):
    """the limit the configuration *asks for* (generators, messages; the verdicts use Lean's `Raw.cfg` / `effLimit`):
    the override, else max_body_size, else (None) the stream's max_buffer_size, itself 100 MB by default"""
    ov = cfg["ov"][i] if i < len(cfg["ov"]) else None
    if ov is not None:
        return ov
    return cfg["mb"] if cfg["mb"] is not None else (cfg.get("buf") or 104857600)


def _cfg_wire(cfg):
    """the raw options [max_header_size|~, max_body_size|~, max_buffer_size|~, overrides, no_keep_alive] (Lean `Raw`)"""
    return [cfg["mh"], cfg["mb"], cfg.get("buf"), list(cfg["ov"]), atom(bool(cfg["nk"]))]


def model_requests(case, impl):
    if case["kind"] == "limit":
        data = bytes.fromhex(case["data"])
        return [line(ID, "run", _cfg_wire(case["cfg"]), base.segments(data, case["cuts"]), atom(bool(case.get("eof", True))))]
    calls = [[bytes.fromhex(c), [[bytes.fromhex(o), t] for o, t in s]] for c, s in impl["calls"]]
    return [line(ID, "gzip", [_cfg_wire(case["cfg"]), case.get("idx", 0)], calls),
            line(ID, "eff", _cfg_wire(case["cfg"]), case.get("idx", 0))]


def model_result(case, replies):
    st, vals = parse_reply(replies[0])
    assert st == "ok", replies[0]
    if case["kind"] == "limit":
        ev, phase, got = vals
        return {"ev": base._hexify(ev), "closed": base._hexify(phase) == "closed", "got": got}
    delivered, rejected, size, within, refusal = vals
    st2, vals2 = parse_reply(replies[1])
    assert st2 == "ok", replies[1]
    return {"inner": base._hexify(delivered), "gz_rejected": str(rejected) == "T",
            "refusal": [str(e) for e in refusal],      # composition: the wrapper's HTTPInputError -> reject400 (gzRefusal)
            "limit": vals2[1]}                         # composition: the wrapper compares against effLimit (Raw.cfg) idx


def impl_view(case, impl):
    if case["kind"] == "limit":
        return {"ev": impl["ev"], "closed": impl["closed"], "got": impl["got"]}
    # the limit(s) the wrapper compared against while decompressing; nothing observed (no gzip call) = nothing to compare
    lims = impl["limits"]
    seen = lims[0] if len(lims) == 1 else lims if lims else _eff_wire_default(case)
    return {"inner": impl["inner"], "gz_rejected": impl["gz_rejected"], "refusal": impl["refusal"], "limit": seen}


def _eff_wire_default(case):
    return _eff(case["cfg"], case.get("idx", 0))


def _data_lens(ev):
    out = {}
    for e in ev:
        if isinstance(e, list) and e[0] == "data":
            out[e[1]] = out.get(e[1], 0) + len(e[2]) // 2
    return out


def spec_requests(case, impl):
    if case["kind"] == "limit":
        lens = _data_lens(impl["ev"])
        nreq = sum(1 for e in impl["ev"] if isinstance(e, list) and e[0] == "req")
        return [line(ID, "spec", _cfg_wire(case["cfg"]), bytes.fromhex(case["data"])),
                line(ID, "within", _cfg_wire(case["cfg"]), max(nreq, len(lens) and max(lens) + 1),
                     [[i, n] for i, n in sorted(lens.items())])]
    return [line(ID, "eff", _cfg_wire(case["cfg"]), case.get("idx", 0))]


def spec_violation(case, impl, replies):
    if case["kind"] == "limit":
        st, vals = parse_reply(replies[1])
        assert st == "ok", replies[1]
        if str(vals[0]) != "T":
            lens = _data_lens(impl["ev"])
            over = [(i, n, _eff(case["cfg"], i)) for i, n in sorted(lens.items()) if n > _eff(case["cfg"], i)]
            return "application handed more body bytes than the limit: request %d got %d, limit %d" % over[0]
        why = base.spec_violation({**case, "kind": "stream"}, impl, replies[:1])
        return why
    st, vals = parse_reply(replies[0])
    assert st == "ok", replies[0]
    limit = vals[1]
    got = sum(len(x) // 2 for x in impl["inner"])
    if got > limit:
        return "application handed %d decompressed bytes, limit %d" % (got, limit)
    # NOTE: an "Uncaught exception" record is *not* a C04 violation (the statement is about sizes only).  It does occur:
    # a truncated gzip body whose last bytes are only released by flush() makes _GzipMessageDelegate.finish() raise
    # ValueError("decompressor.flush returned data") -> logged at ERROR, connection closed without a response (see docs).
    if not impl["a_ok"]:
        return "decompress called with max_length <= 0"
    # the gzip request is request number idx of the connection (idx bodiless requests precede it, each finished)
    finished = impl["ev"].count("fin") > case.get("idx", 0)
    # what the real decompressor produced over all its calls, whatever the stream was (complete, truncated, multi-member):
    # "decompresses beyond max_body_size" is an observed fact then, and the body must have been refused and the connection closed
    produced = sum(len(o) // 2 for _, script in impl["calls"] for o, _ in script)
    if case.get("gz") and produced > limit and (finished or not impl["closed"]):
        return "gzip body decompressed to %d > limit %d and was not refused" % (produced, limit)
    full = case.get("plain_len")
    if full is not None and case.get("complete"):
        if full > limit and (finished or not impl["closed"]):
            return "gzip body decompressing to %d > limit %d was not refused" % (full, limit)
        if full <= limit and case.get("comp_len", 0) <= limit and (not finished or got != full):
            return "gzip body within the limit (%d <= %d) was not delivered whole (got %d)" % (full, limit, got)
    return None


def nontrivial(case, impl):
    if case["kind"] == "limit":
        return case.get("near", False)
    return len(impl["calls"]) > 0 and case.get("near", False)


def stats(case, impl):
    out = ["kind:" + case["kind"], "gen:" + case.get("gen", "?"), "seg:" + case.get("seg", "?")]
    ev = impl["ev"]
    for k in ("w400", "fin", "connClose", "uncaught"):
        if k in ev:
            out.append("ev:" + k)
    if "closed" in ev and "w400" not in ev and "fin" not in ev:
        out.append("ev:closed-silently")
    if case["kind"] == "gzip":
        out.append("gz:calls:%d" % min(8, sum(len(s) for _, s in impl["calls"])))
        out.append("gz:rejected:%s" % impl["gz_rejected"])
    cfg = case["cfg"]
    if cfg["ov"]:
        out.append("override")
        if 0 in cfg["ov"]:
            out.append("override:0")
    out.append("max_body_size:" + ("none" if cfg["mb"] is None else "0" if cfg["mb"] == 0 else "positive"))
    out.append("max_header_size:" + ("none" if cfg["mh"] is None else "0" if cfg["mh"] == 0 else "positive"))
    if "buf" in cfg:
        out.append("max_buffer_size:" + ("none" if cfg["buf"] is None else "0" if cfg["buf"] == 0 else "small"))
    return out


def signature(case, impl, why):
    if why.startswith("application handed"):
        ov, i = case["cfg"]["ov"], case.get("idx", 0)
        return "%s/over-limit-delivered/%s" % (case["kind"], "override" if len(ov) > i and ov[i] is not None else "default")
    if case["kind"] == "gzip":
        if "not refused" in why:
            return "gzip/oversize-not-refused"
        if "not delivered whole" in why:
            return "gzip/within-limit-affected/%s" % ("override" if len(case["cfg"]["ov"]) > case.get("idx", 0) else "default")
        return "gzip/" + re.sub(r"[^a-z]+", "-", why.lower())[:30]
    return "limit/" + base.signature({**case, "kind": "stream"}, impl, why)


def shrink(case):
    if case["kind"] == "gzip":
        # the expectations (plain_len, complete) describe the data: only the segmentation may shrink
        cuts = list(case["cuts"])
        if cuts:
            yield {**case, "cuts": []}
            for i in range(len(cuts)):
                yield {**case, "cuts": cuts[:i] + cuts[i + 1:]}
        return
    for c in base.shrink({**case, "kind": "stream"}):
        yield {**c, "kind": case["kind"]}


# ------------------------------------------------------------------------------------------------ generators

BIG = 50000          # limits above this are probed by *declared* sizes only (nobody sends 100 MB)


def _sizes(rng, limit):
    if limit == 0:   # "no bodies accepted": empty passes, everything else is beyond the limit
        return rng.choice([0, 0, 1, 1, 1, 2, 17, 1000])
    return max(0, limit + rng.choice([-1, 0, 0, 1, 1, 2, -2, 9 * limit, -limit // 2]))


def _chunk_split(rng, body):
    out, i = [], 0
    while i < len(body):
        n = rng.choice([1, 1, 2, 3, 5, 8, 16, 64, 300, len(body)])
        out.append(body[i:i + n])
        i += n
    return out


def _frame(rng, body, extra="", chunked=None):
    if chunked is None:
        chunked = rng.random() < 0.5
    head = "POST /u HTTP/1.1\r\nHost: x\r\n" + extra
    if chunked:
        b = b"".join(("%x" % len(c)).encode() + b"\r\n" + c + b"\r\n" for c in _chunk_split(rng, body)) + b"0\r\n\r\n"
        return (head + "Transfer-Encoding: chunked\r\n\r\n").encode() + b
    return (head + "Content-Length: %d\r\n\r\n" % len(body)).encode() + body


def _declared(declared, framing, sent=b"xyz"):
    """the start of a request that *declares* `declared` body bytes (Content-Length / first chunk / second chunk after
    a 3-byte one, so that the running total is what counts) and sends only a few of them; must end the stream"""
    head = b"POST /big HTTP/1.1\r\nHost: x\r\n"
    if framing == "cl":
        return head + b"Content-Length: %d\r\n\r\n" % declared + sent[:declared]
    head += b"Transfer-Encoding: chunked\r\n\r\n"
    if framing == "chunk-first" or declared <= 3:
        return head + b"%x\r\n" % declared + (sent[:declared] if declared else b"\r\n")
    return head + b"3\r\nabc\r\n" + b"%X\r\n" % (declared - 3) + sent


def _limit_case(rng):
    cfg = {"mh": rng.choice([65536] * 8 + [None, 0]), "ov": [], "nk": False,
           "mb": rng.choice([0, 0, 0, 1, 1, 2, 16, 17, 64, 100, 255, 256, 1000, 4096, None, None])}
    if cfg["mb"] is None or rng.random() < 0.15:
        cfg["buf"] = rng.choice([None, None, 0, 2048, 4096])
    if rng.random() < 0.35:
        cfg["ov"] = [rng.choice([None, 0, 0, 1, 8, 50, 300, 2000, 5000]) for _ in range(rng.choice([1, 2, 3]))]
    parts, gen = [], "body"
    r = rng.random()
    if r < 0.25 and not cfg.get("buf"):
        cfg["mh"] = rng.choice([40, 64, 100, 200, 600])
        gen = "header"
    nparts = rng.choice([1, 1, 2, 3])
    for i in range(nparts):
        if gen == "header" and rng.random() < 0.6:
            parts.append(base._pad_to_header_limit(rng, cfg))
            continue
        limit = _eff(cfg, i)
        if limit > BIG:
            if i == nparts - 1 and rng.random() < 0.7:
                parts.append(_declared(limit + rng.choice([-1, 0, 0, 1, 1, 2, 9 * limit]),
                                       rng.choice(["cl", "chunk-first", "chunk-total"]), b"xyz"[:rng.choice([0, 1, 3])]))
                gen = "declared"
            else:
                parts.append(_frame(rng, rng.randbytes(rng.choice([0, 1, 2, 17, 300]))))
            continue
        n = _sizes(rng, limit)
        body = rng.randbytes(min(n, 50000))
        parts.append(_frame(rng, body))
    data = b"".join(parts)
    if rng.random() < 0.08:
        data = base._mutate(rng, data)
        gen = "mutated"
    if cfg.get("buf") and len(data) + 8 > cfg["buf"]:
        cfg["buf"] = None        # stay inside the domain: the read-buffer cap itself is C11's
    return cfg, data, gen


def _grid_cases():
    """fixed enumeration around the smallest limits: what `max_body_size` 0 / 1 / None, with and without a per-request
    override (0 / 1 / 5) for the first request, do to bodies of 0 / 1 / 2 / 6 bytes in every framing; a second request
    with a 1-byte body follows (no override: the server-level limit applies again)"""
    after = b"POST /after HTTP/1.1\r\nHost: x\r\nContent-Length: 1\r\n\r\nz"
    for mb in (0, 1, None):
        for ov0 in ("-", 0, 1, 5):
            for fr in ("cl", "chunk-one", "chunk-bytes"):
                for n in (0, 1, 2, 6):
                    cfg = {"mh": 65536, "mb": mb, "ov": [] if ov0 == "-" else [ov0], "nk": False}
                    body = b"abcdef"[:n]
                    head = b"POST /g HTTP/1.1\r\nHost: x\r\n"
                    if fr == "cl":
                        req = head + b"Content-Length: %d\r\n\r\n" % n + body
                    else:
                        chunks = [body] if fr == "chunk-one" else [body[k:k + 1] for k in range(n)]
                        req = head + b"Transfer-Encoding: chunked\r\n\r\n" + b"".join(
                            b"%x\r\n" % len(c) + c + b"\r\n" for c in chunks if c) + b"0\r\n\r\n"
                    data = req + after
                    for seg, cuts in (("whole", []), ("bytes", list(range(1, len(data))))):
                        yield {"kind": "limit", "cfg": cfg, "data": data.hex(), "cuts": cuts, "eof": False, "gen": "grid",
                               "seg": seg, "near": True}


def _edge_cases():
    """the exact boundaries of the fall-back values: header block around 65536 when max_header_size is None / 0; declared
    body sizes around max_buffer_size (given, or its 100 MB default for None / 0) when max_body_size is None"""
    for mh in (None, 0):
        for want in (65535, 65536, 65537, 65600):
            b = "GET / HTTP/1.1\r\nHost: x\r\nX-Pad: "
            data = (b + "p" * (want - len(b) - 4) + "\r\n\r\n").encode() + b"GET /n HTTP/1.1\r\nHost: x\r\n\r\n"
            cfg = {"mh": mh, "mb": 16, "ov": [], "nk": False}
            # no segment longer than read_chunk_size (65536): the fake transport announces readability once per segment,
            # and the stream stops reading at max_bytes when the terminator is not in sight yet (a level-triggered socket
            # would be announced again)
            for seg, cuts in (("around-64k", [32768, 65535, 65536, 65537]), ("blocks", list(range(4096, len(data), 4096)))):
                yield {"kind": "limit", "cfg": cfg, "data": data.hex(), "cuts": cuts, "eof": False, "gen": "edge-header",
                       "seg": seg, "near": True}
    first = b"POST /s HTTP/1.1\r\nHost: x\r\nContent-Length: 2\r\n\r\nhi"
    for buf in (None, 0, 2048, 4096):
        cfg = {"mh": 65536, "mb": None, "buf": buf, "ov": [], "nk": False}
        limit = _eff(cfg, 0)
        for fr in ("cl", "chunk-first", "chunk-total"):
            for d in (-1, 0, 1, 2):
                data = first + _declared(limit + d, fr)
                for seg, cuts in (("whole", []), ("one-cut", [len(data) - 4])):
                    yield {"kind": "limit", "cfg": cfg, "data": data.hex(), "cuts": cuts, "eof": seg == "whole",
                           "gen": "edge-declared", "seg": seg, "near": True}


def _gzip_case(rng):
    limit = rng.choice([0, 0, 1, 16, 100, 255, 256, 1000, 4096] * 3 + [65536, 70000])
    cfg = {"mh": 65536, "mb": limit, "ov": [], "nk": False}
    if rng.random() < 0.3:
        eff = rng.choice([0, 1, 16, 100, 300, 2000, 5000])
        cfg["mb"] = rng.choice([0, 10, 100, 1000, 100000, None])
        cfg["ov"] = [eff]
        limit = eff
    n = _sizes(rng, limit)
    k = rng.random()
    if k < 0.3:
        plain = bytes(n)                                   # bomb-like: high ratio
    elif k < 0.6:
        plain = rng.randbytes(n)   # incompressible
    else:
        plain = (b"abcdefgh" * (n // 8 + 1))[:n]
    complete = True
    style = rng.choice(["gzip", "gzip", "level1", "multi", "truncated", "plain-identity"])
    if style == "gzip":
        comp = _gzip.compress(plain, mtime=0)
    elif style == "level1":
        comp = _gzip.compress(plain, 1, mtime=0)
    elif style == "multi":
        cut = rng.randrange(len(plain) + 1)
        comp = _gzip.compress(plain[:cut], mtime=0) + _gzip.compress(plain[cut:], mtime=0)
        plain = plain[:cut]      # GzipDecompressor stops after the first member (the rest lands in unused_data)
        complete = False         # multi-member bodies are not supported by tornado (later members are ignored, or the
                                 # request is refused with "unconsumed gzip data"): only the size bound is asserted
    elif style == "truncated":
        comp = _gzip.compress(plain, mtime=0)
        comp = comp[:max(0, len(comp) - rng.choice([1, 4, 8, 9, 20]))]
        complete = False
    else:
        comp = plain
    enc = "" if style == "plain-identity" else "Content-Encoding: %s\r\n" % rng.choice(["gzip", "gzip", "GZIP", "Gzip"])
    data = _frame(rng, comp, extra=enc)
    gz = style != "plain-identity"
    meta = {"plain_len": len(plain), "complete": complete, "comp_len": len(comp), "gen": style,
            "near": abs(len(plain) - limit) <= 2 or len(plain) > limit, "gz": gz}
    if rng.random() < 0.3:
        # the gzip request is not the first one of the connection: idx bodiless requests precede it, each with its own
        # (irrelevant) override -- the limit of the gzip request must be the one of ITS position, nothing may leak over
        idx = rng.choice([1, 1, 2])
        data = b"".join(b"GET /p%d HTTP/1.1\r\nHost: x\r\n\r\n" % j for j in range(idx)) + data
        cfg["ov"] = [rng.choice([None, 0, 7, 100000]) for _ in range(idx)] + cfg["ov"]
        meta["idx"] = idx
        meta["gen"] = style + "+after"
    return cfg, data, meta


def gen_cases(rng, tier):
    n_lim = {"quick": 1100, "thorough": 12000, "search": 800}[tier]
    n_gz = {"quick": 700, "thorough": 6000, "search": 500}[tier]
    yield from _grid_cases()
    yield from _edge_cases()
    for _ in range(n_lim):
        cfg, data, gen = _limit_case(rng)
        n = len(data)
        styles = ["whole", rng.choice(["random", "blocks", "one-cut", "bytes" if n <= 600 else "blocks"])]
        eof = rng.random() < 0.5
        for st in styles:
            yield {"kind": "limit", "cfg": cfg, "data": data.hex(), "cuts": base._cuts(rng, n, st), "eof": eof, "gen": gen,
                   "seg": st, "near": True}
    for _ in range(n_gz):
        cfg, data, meta = _gzip_case(rng)
        n = len(data)
        st = rng.choice(["whole", "random", "blocks", "one-cut"])
        yield {"kind": "gzip", "cfg": cfg, "data": data.hex(), "cuts": base._cuts(rng, n, st), "eof": False, "seg": st, **meta}


def describe(case):
    d = dict(case)
    if len(d.get("data", "")) > 2000:
        d["data"] = d["data"][:2000] + "…(%d hex chars)" % len(case["data"])
    return d
