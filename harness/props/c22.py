"""C22 — linkify output is escaped text plus safe links only (tornado.escape.linkify)."""
import re
from core.wire import atom, enc, dec, line, parse_reply, Atom
from tornado import escape as _escape_preload   # imported before any worker forks

ID = "C22"
LEAN_TARGETS = ["TornadoModel.C22.Props"]
THEOREMS = ["TornadoModel.C22." + n for n in [
    "strip_anchors_identity", "strip_anchors_labels", "shorten_label_prefix", "label_eq_url", "href_safe", "linkParts_some",
    "entity_not_split", "wfMatch_escapeSafe", "escapeSafe_dropCutEntity", "entity_split_before_fix",
]]
TRUSTED = [
    "CPython's regex engine on _URL_RE: the match list (span, group 2, group 3) is data taken from "
    "tornado.escape._URL_RE.finditer(xhtml_escape(text)); every theorem assumes only Spec.WellFormed of that list, "
    "which the harness evaluates (in Lean) on every generated input",
    "str.strip()/str.isspace table, str.split/rfind/slicing as modelled in C22/Model.lean",
    "C21 model of html.escape (xhtmlEscape), shared",
]
ASSUMPTIONS = [
    "extra_params (string, or the value returned by the callable) contains no '<' or '>' (attribute text, as documented); "
    "otherwise anchors cannot be told from text by any tokenizer",
    "callables for extra_params are drawn from three families the model can express: constant, prefix test on href, href echoed between two strings",
    "text is str (bytes input is to_unicode'd first; covered by C21)",
]
RULE = ("texts assembled from URL-like fragments (protocols incl. javascript/mixed case/hyphenated, 0-4 slashes, www., hosts of "
        "controlled length, paths with & \" ' < > ( ) ? . ; = %, trailing punctuation) and filler words/entities/Unicode; a boundary "
        "stream places & and \" at every column 18..34 of URLs of length 28..64 with and without a '/'; all option combinations; "
        "non-trivial = at least one anchor emitted; distinct by canonical JSON")
EXHAUSTIVE = {"quick": False, "thorough": False}
CLAUSE_CAVEATS = [
    "every theorem assumes Spec.WellFormed of CPython's _URL_RE match list (checked on every generated input): 'href starts with a permitted protocol' and 'the URL itself is entity-safe' come from that hypothesis, i.e. are tie-only with respect to the regex",
]
CLAUSES = {
    "output with its inserted anchor tags removed is the HTML-escaped input (no shortening)": "strip_anchors_identity",
    "when shortening, each link label is a prefix of its URL followed by '...'": "shorten_label_prefix",
    "every inserted href uses a permitted protocol or is a protocol-less www. link given an http:// prefix": "href_safe",
    "href contains no unescaped quote or angle bracket": "href_safe (uses C21.escape_no_special)",
    "no character entity is ever split": "entity_not_split (full statement; holds after the D8 fix)",
}
PARALLEL = False   # ~10^4 cases/s in-process; forking costs more than it saves here
LEVEL_TEXT = "proof"
TECHNIQUE = ("Lean 4 theorems over an executable model of linkify/make_link for every match list satisfying WellFormed; "
             "differential correspondence + Lean tokenizer oracle on every run")

PROTOS = ["http"] * 6 + ["https"] * 4 + ["ftp", "ftp", "mailto", "javascript", "HTTP", "Https", "x-y", "data", "a", "h_t-p", "http2"]
SLASHES = ["/", "//", "//", "//", "///", "////", ""]
HOSTS = ["example.com", "a.com", "www.example.com", "www.a.co.uk", "tornadoweb.org", "bücher.de", "localhost:8080", "a.b",
         "aaaaaaaaaaaaaaaaaaaaaaaaaaaaaaaaaaaaaaaaaaaaaa.com", "www.external-link.com", "1.2.3.4", "x"]
PATH_BITS = ["/", "a", "abcde", "abcdefgh", "abcdefghi", "&", "&x=1", "&amp;", '"', "'", "<", ">", "(", ")", "(x)", "?", "?q=1", ".", ".html", ";", "=",
             "%20", "#frag", "~u", "-", "_", "0123456789", "é", "/path/to/page", "&&", '"x"', "a&b", ",", "!", ":", "@", "+", "*", "|"]
TRAIL = ["", "", "", ".", ",", "!", ")", ";", ":", "?", "...", ").", '"', "'", ">", "&", "/"]
FILLER = ["Hello", " ", "  ", "\n", "\t", " ", "—", "&", "&amp;", "&quot;", "&lt;b&gt;", "<b>", "</a>", '<a href="x">', '"', "'", "(", ")", "see", ":",
          "www.", "www", "http", "http:", "://", "wwwx.", "xwww.a.com", "é", "日本", "\U0001f600", ".", ",", "x", "_", "-", "1", "@", "&#x27;", "&#39;"]
PERMITTED = [["http", "https"], ["http", "https"], ["http", "https"], ["http", "https", "ftp", "mailto"], ["javascript"], [], ["HTTP"],
             ["http"], ["x-y", "a", "data"], ["https", "http2", "h_t-p"]]
EXTRAS = [["str", ""], ["str", ""], ["str", 'rel="nofollow"'], ["str", '  class="x"  '], ["str", "\xa0rel=x  "], ["str", " "], ["str", "\n\t"],
          ["str", "x\x1f"], ["str", "\x1c a=b \x85"], ["str", "data-a='1' data-b=\"2\""], ["str", "​z​"],
          ["const", 'class="c"'], ["const", ""], ["const", "  "], ["const", " k=v\n"],
          ["prefix", "http://example.com", 'class="internal"', 'class="external" rel="nofollow"'], ["prefix", "http://www.", "w", " "],
          ["echo", 'data-href="', '"'], ["echo", " ", " "]]


def _url(rng):
    k = rng.random()
    if k < 0.7:
        head = rng.choice(PROTOS) + ":" + rng.choice(SLASHES)
    elif k < 0.95:
        head = "www."
    else:
        head = rng.choice(["WWW.", "www", "ww.", "://", "http//", "http:\\\\"])
    host = rng.choice(HOSTS)
    path = "".join(rng.choice(PATH_BITS) for _ in range(rng.choice([0, 0, 1, 2, 3, 5, 8])))
    return head + host + path + rng.choice(TRAIL)


def _boundary_url(rng):
    """& or " placed at a chosen column of a URL whose length straddles 30 / 45"""
    head = rng.choice(["http://", "https://", "www.", "ftp:/", "mailto:///", "http://", "http://", "https://", "www."])
    col = rng.randint(18, 34)
    special = rng.choice(["&", "&", '"', "&x;", "&&", '"&', "&amp;", "&quot;"])
    total = rng.randint(28, 64)
    slash_at = rng.choice([None, None, rng.randint(len(head) + 1, 40), rng.randint(len(head) + 1, 28)])
    body = []
    i = len(head)
    pool = "abcdefghij0123456789.-_?=;"
    while i < col:
        if slash_at is not None and i == slash_at:
            body.append("/")
        else:
            body.append(rng.choice(pool) if rng.random() < 0.25 else "a")
        i += 1
    body.append(special)
    i = len(head) + len("".join(body))
    while i < total:
        if slash_at is not None and i == slash_at:
            body.append("/")
        else:
            body.append(rng.choice(pool + "&\"/") if rng.random() < 0.15 else "b")
        i += 1
    return head + "".join(body) + "z"


def _text(rng):
    k = rng.random()
    parts = []
    n = rng.choice([1, 1, 2, 3, 4])
    for _ in range(n):
        if rng.random() < 0.6:
            parts.append("".join(rng.choice(FILLER) for _ in range(rng.randint(0, 3))))
        parts.append(_boundary_url(rng) if k < 0.45 else _url(rng))
        if rng.random() < 0.4:
            parts.append(rng.choice(["", " ", ")", ".", " and ", "\n", ","]))
    if rng.random() < 0.3:
        parts.append("".join(rng.choice(FILLER) for _ in range(rng.randint(0, 3))))
    return "".join(parts)


def gen_cases(rng, tier):
    n = {"quick": 4000, "thorough": 100000, "search": 6000}[tier]
    # the escape_test table inputs and the D8 witnesses first
    fixed = ["hello http://world.com/!", "hello http://world.com/with?param=true&stuff=yes", "http://url.com/w(aaaaaaaaaaaaaaaaaaaaaaaaaaaaaaaaaaaaaaaaaaaaaaaaaaaaaaaaaaaa",
             "http://url.com/withmany.......................................", "http://url.com/withmany((((((((((((((((((((((((((((((((((a)",
             "http://foo.com/blah_blah_(wikipedia)_(again)", "www.external-link.com and www.internal-link.com/blogs extra", "Just a www.example.com link.",
             "A http://reallylong.com/link/that/exceedsthelenglimit.html", "A http://reallylongdomainnamethatwillbetoolong.com/hi!",
             "http://a.com/abcde&x=1234567890123456789012345", 'http://aaaaaaaaaaaaaaaaaa"bbbbbbbbbbbbbbbbbbbbbbbbbbbbbbb',
             "http://aaaaaaaaaaaaaaaaaaaaaa&b=bbbbbbbbbbbbbbbbbbbbbbbbbbbbbbb", "www.aaaaaaaaaaaaaaaaaaaaaaaaaaaaaaaaaaaaaaaaaaaaaa.com?a=1&b=2"]
    if tier != "search":
        for t in fixed:
            for sh in (False, True):
                for rq in (False, True):
                    yield {"text": t, "shorten": sh, "require": rq, "permitted": ["http", "https"], "extra": ["str", 'rel="nofollow"']}
    for _ in range(n):
        yield {"text": _text(rng), "shorten": rng.random() < 0.6, "require": rng.random() < 0.3,
               "permitted": rng.choice(PERMITTED), "extra": rng.choice(EXTRAS)}


def _extra(e):
    k = e[0]
    if k == "str":
        return e[1]
    if k == "const":
        return lambda href: e[1]
    if k == "prefix":
        return lambda href: e[2] if href.startswith(e[1]) else e[3]
    if k == "echo":
        return lambda href: e[1] + href + e[2]
    raise AssertionError(e)


def run_impl(case):
    from tornado import escape
    try:
        out = escape.linkify(case["text"], shorten=case["shorten"], extra_params=_extra(case["extra"]),
                             require_protocol=case["require"], permitted_protocols=list(case["permitted"]))
    except Exception as e:
        out = Atom("Uncaught:" + type(e).__name__)
    esc = escape.xhtml_escape(case["text"])
    ms = [[m.start(), m.end(), m.group(2), m.group(3)] for m in escape._URL_RE.finditer(esc)]
    return {"out": out, "matches": ms}


def _wire_extra(e):
    return [atom(e[0])] + list(e[1:])


def model_requests(case, impl):
    return [line(ID, "linkify", case["text"], impl["matches"], atom(case["shorten"]), _wire_extra(case["extra"]),
                 atom(case["require"]), list(case["permitted"]))]


def _val(reply, text=False):
    st, vals = parse_reply(reply)
    assert st == "ok", reply
    v = vals[0]
    if text and isinstance(v, list):
        v = "".join(chr(c) for c in v)
    return v


def model_result(case, replies):
    return _val(replies[0], True)


def impl_view(case, impl):
    return impl["out"]


def spec_requests(case, impl):
    if isinstance(impl["out"], Atom):
        return []
    return [line(ID, "wellFormed", case["text"], impl["matches"]),
            line(ID, "check", case["text"], impl["out"], atom(case["shorten"]), list(case["permitted"]))]


def spec_violation(case, impl, replies):
    if isinstance(impl["out"], Atom):
        return "linkify raised %s" % impl["out"]
    if _val(replies[0]) != "T":
        return "regex-matches-not-well-formed"
    r = str(_val(replies[1]))
    return None if r == "ok" else r


def _links(impl):
    return 0 if isinstance(impl["out"], Atom) else impl["out"].count('<a href="')


def nontrivial(case, impl):
    return _links(impl) >= 1


def stats(case, impl):
    out = ["matches:%d" % min(4, len(impl["matches"])), "links:%d" % min(4, _links(impl)),
           "shorten=%s,require=%s" % (case["shorten"], case["require"]), "extra:" + case["extra"][0]]
    if not isinstance(impl["out"], Atom):
        if ' title="' in impl["out"]:
            out.append("shortened-label")
            m = re.search(r">([^<]*)\.\.\.</a>", impl["out"])
            if m:
                out.append("label-len:%d" % min(50, len(m.group(1)) // 5 * 5))
        if len(impl["matches"]) > _links(impl):
            out.append("match-not-linked")
    for m in impl["matches"]:
        out.append("proto:" + ("www" if m[2] is None else ("permitted" if m[2] in case["permitted"] else "other")))
    return out


def signature(case, impl, why):
    return "linkify/%s/shorten=%s" % (re.sub(r"[^A-Za-z0-9-]+", "-", why)[:50], case["shorten"])


def shrink(case):
    t = case["text"]
    for i in range(len(t)):
        yield {**case, "text": t[:i] + t[i + 1:]}
    if case["extra"] != ["str", ""]:
        yield {**case, "extra": ["str", ""]}
    if case["require"]:
        yield {**case, "require": False}


def describe(case):
    return case
