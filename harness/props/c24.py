"""C24 — XSRF protection accepts exactly the tokens issued for the cookie (tornado/web.py).

Streams (all deterministic; os.urandom and time.time are replayed from the case and handed to the model):
  decode   RequestHandler._decode_xsrf_token on arbitrary strings            vs Model.decode
  e2e      a real Application(xsrf_cookies=True) behind HTTPServer over core/faketransport + core/vloop:
           status + whether the handler method ran                            vs Model.check / Spec.accepts
  issue    request 1 renders xsrf_form_html() (and may set the cookie), request 2 posts the issued token back
                                                                              vs Model.xsrfToken + Model.check
"""
import logging, os, random, re, time, urllib.parse

from core.wire import line, parse_reply, Atom, atom

ID = "C24"
LEAN_TARGETS = ["TornadoModel.C24.Props", "TornadoModel.C24.SpecLink"]
THEOREMS = [
    "TornadoModel.C24.issued_accepted",
    "TornadoModel.C24.session_issued_accepted_partial",
    "TornadoModel.C24.session_issued_accepted_refuted",
    "TornadoModel.C24.session_all_accepted",
    "TornadoModel.C24.issue_step",
    "TornadoModel.C24.issue_step_carried",
    "TornadoModel.C24.carried_token_accepted",
    "TornadoModel.C24.issued_carries",
    "TornadoModel.C24.issued_tokenFor",
    "TornadoModel.C24.decode_issued_stamp",
    "TornadoModel.C24.decode_inv",
    "TornadoModel.C24.pyInt_digits",
    "TornadoModel.C24.decode_issued",
    "TornadoModel.C24.decode_issue_v1",
    "TornadoModel.C24.decode_issue_v2",
    "TornadoModel.C24.accept_iff",
    "TornadoModel.C24.check_eq_spec",
    "TornadoModel.C24.decode_token_now",
    "TornadoModel.C24.decode_total",
    "TornadoModel.C24.malformed_refused",
    "TornadoModel.C24.no_cookie_needs_fresh",
    "TornadoModel.C24.pick_form",
    "TornadoModel.C24.pick_h1",
    "TornadoModel.C24.pick_h2",
    "TornadoModel.C24.pyInt_toDec",
    "TornadoModel.C24.unhex_hexOfBytes",
    "TornadoModel.C24.xorFrom_involutive",
]
TRUSTED = [
    "CPython re (the version regex), str.split, binascii.a2b_hex/b2a_hex, int(str), hmac.compare_digest, utf-8 "
    "encoding as modelled in C24/Model.lean (exercised by the decode stream)",
    "the HTTP layers that carry the values to check_xsrf_cookie (cookie parsing/unquoting, header decoding, "
    "argument decoding/stripping) are NOT modelled: the harness records the values check_xsrf_cookie sees "
    "(thin subclass wrapper) and feeds those to model and specification",
    "os.urandom is unpredictable: no generated input token decodes to the fresh 16 bytes of its own case",
]
ASSUMPTIONS = [
    "xsrf cookies/tokens in the correspondence streams contain no CR/LF (cannot arrive over HTTP; the version regex "
    "treats interior newlines differently with/without re.DOTALL — the model has both variants, selected by the "
    "flag read from the code under test)",
    "int(timestamp_str): code points < 256 are modelled exactly; for code points >= 256 generators only use "
    "characters that are neither Unicode decimal digits nor Unicode whitespace",
    "the carried token is the first non-empty of: _xsrf argument, X-XSRFToken, X-CSRFToken (precedence is part of "
    "the reading of the property; a valid header behind a non-empty wrong form field is refused)",
    "4xx statuses other than 403 (400 for an undecodable argument or a malformed request) count as refusals",
]
RULE = ("cookie/token pairs: issued (v1/v2), re-masked, cross-version, other sessions', every single-byte "
        "substitution (all 256 byte values via the form body), deletions, insertions of small tokens, arbitrary "
        "strings; token in body field / query field / X-XSRFToken / X-CSRFToken with empty earlier sources; methods "
        "POST PUT PATCH DELETE (+ GET HEAD OPTIONS); both xsrf_cookie_version settings; non-trivial = a checked "
        "method whose request carries both a cookie and a token; distinct by canonical JSON")
EXHAUSTIVE = {"quick": False, "thorough": False}
CLAUSE_CAVEATS = [
    "Spec.presented takes the first non-empty of form field, X-XSRFToken, X-CSRFToken (as the code does): a valid header behind a non-empty wrong form field is refused; the property's 'carries a token (form field or header)' is read that way",
    "status codes, 'no server error logged', and GET/HEAD/OPTIONS exemption are tie-only",
]
CLAUSES = {
    "a non-GET/HEAD/OPTIONS request reaches the handler iff it carries a token that decodes to the same non-empty "
    "secret as the _xsrf cookie": "check_eq_spec (model accepts <=> Spec.accepts, unless the token decodes to the "
                                  "server's own fresh randomness) + accept_iff + no_cookie_needs_fresh + "
                                  "pick_form/pick_h1/pick_h2; reaching the handler, GET/HEAD/OPTIONS: tie only",
    "every token the application issues for a cookie (any version, any mask) is accepted with that cookie":
        "issued_accepted + decode_issued (every secret, mask, timestamp, version pair); session form: "
        "session_issued_accepted_partial (request 1 renders a token under any cookie state / version / mask / time, "
        "request 2 presents it with the cookie then in force: accepted) and session_all_accepted (any number of "
        "token-rendering requests with changing version settings, masks, clocks: every token issued is accepted with "
        "the cookie in force at the end), for every cookie that is a Python str (code points < 0x110000); the statement "
        "over raw naturals is refuted in the model by a non-Unicode code point (session_issued_accepted_refuted) - a "
        "model artefact, not a defect; also exercised by the issue stream",
    "malformed tokens or cookies yield 403, never a server error": "decode_total + malformed_refused (model); status "
                                                                   "codes and absence of logged errors: tie only",
}
PARALLEL = True
CASE_TIMEOUT = 120      # a loaded machine must not turn a scheduling stall into a verdict

NOW = 1700000000
SAFE = "".join(chr(c) for c in range(0x21, 0x7f) if chr(c) not in ';",\\ ')


def _dotall():
    from tornado import web
    return bool(web._signed_value_version_re.flags & re.DOTALL)


# --------------------------------------------------------------------------------------------- token builders
def xor(mask, data):
    m = (bytes(mask) + b"\x00\x00\x00\x00")[:4] if len(mask) != 4 else mask     # wrong-length masks: any bytes will do
    return bytes(b ^ m[i % 4] for i, b in enumerate(data))


def mk_v2(secret, mask, ts="1700000000"):
    return "2|%s|%s|%s" % (mask.hex(), xor(mask, secret).hex(), ts)


def mk_v1(secret):
    return secret.hex()


def _rb(rng, n):
    return bytes(rng.getrandbits(8) for _ in range(n))


TS_POOL = ["0", "5", "1700000000", "-3", "+7", " 12", "12 ", "1_000", "007", "\t9", "9\x0b", "\x0c1", "1\xa0", "\x851",
           "", " ", "_1", "1_", "1__0", "+", "-", "+-1", "1.0", "1e3", "0x10", "12a", "\x1c1", "1\x1f", "\xb2", "é", "€1", "1" * 4300, "1" * 4301, "0" * 4301, "-" + "9" * 4300, "1_" * 2150 + "1", "1_" * 2151]
TS_POOL_E2E = [t for t in TS_POOL if all(0x20 < ord(c) < 0x7f for c in t) and len(t) < 50]


def _token_text(rng, secret, full=True):
    """a token text for `secret`, or a near miss"""
    k = rng.random()
    if k < 0.35:
        return mk_v2(secret, _rb(rng, 4), rng.choice(["0", "5", "1700000000", "-3", "+7", "1_0", "007"]))
    if k < 0.5:
        return mk_v1(secret)
    if k < 0.55:
        return mk_v1(secret).upper()
    if k < 0.6:
        return mk_v2(secret, _rb(rng, 4)).upper()
    if k < 0.68:
        return mk_v2(secret, _rb(rng, rng.choice([0, 1, 2, 3, 5, 6, 7, 8])))          # wrong mask length
    if k < 0.76:
        return mk_v2(secret, _rb(rng, 4), rng.choice(TS_POOL if full else TS_POOL_E2E))
    if k < 0.82:
        v = rng.choice(["1", "3", "20", "02", "22", "2" * 30, "9" * 4301 if full else "99"])
        return v + mk_v2(secret, _rb(rng, 4))[1:]
    if k < 0.88:
        t = mk_v2(secret, _rb(rng, 4))
        return rng.choice([t + "|", t + "|x", "|" + t, t.replace("|", "||", 1), t.rsplit("|", 1)[0], t[:-1] + "|" + t[-1]])
    if k < 0.94:
        t = rng.choice([mk_v2(secret, _rb(rng, 4)), mk_v1(secret)])
        i = rng.randrange(len(t)) if t else 0
        return t[:i] + rng.choice("0g|zZ_-+ 2") + t[i + 1:]
    try:
        t = secret.decode("utf-8")            # raw (non-hex) legacy token
    except UnicodeDecodeError:
        t = None
    if t is None or "\n" in t or "\r" in t or (not full and not all(ch in SAFE for ch in t)):
        return mk_v1(secret)[:-1]             # odd-length hex
    return t


def _secret(rng):
    k = rng.random()
    if k < 0.5:
        return _rb(rng, 16)
    if k < 0.7:
        return _rb(rng, rng.randint(1, 3))
    if k < 0.8:
        return rng.choice([b"hello", b"abc", b"zz", b"caf\xc3\xa9", b"g", b"deadbeef", b"2x"])
    if k < 0.88:
        return b""
    return _rb(rng, rng.randint(4, 40))


def _arb(rng, full=True):
    alpha = "0123456789abcdefABCDEF|2|_-+ gz" + ("\t\x0b\x1c\x00\x7f\xa0\x85é€\ud800" if full else "!#$%&'()*./:<=>?@[]^`{}~")
    return "".join(rng.choice(alpha) for _ in range(rng.randint(0, 24)))


# --------------------------------------------------------------------------------------------- generators
CHECKED = ["POST", "PUT", "PATCH", "DELETE"]
UNCHECKED = ["GET", "HEAD", "OPTIONS"]


def _e2e(rng, cookie, token, where=None, method=None, cookie_ver=None, extra=None):
    """cookie/token: str|None as *sent*; where: body|query|h1|h2"""
    where = where or rng.choice(["body", "body", "query", "h1", "h2"])
    c = {"kind": "e2e", "method": method or rng.choice(CHECKED), "ver": cookie_ver or rng.choice([1, 2]),
         "cookie": cookie, "body": None, "query": None, "h1": None, "h2": None,
         "fresh": _rb(rng, 16).hex(), "mask": _rb(rng, 4).hex()}
    c[where] = token
    if extra:
        c.update(extra)
    return c


def _mutations(base, alphabet_bytes):
    b = base.encode("latin-1")
    for i in range(len(b)):
        for v in alphabet_bytes:
            if v != b[i] and v not in (10, 13):
                yield b[:i] + bytes([v]) + b[i + 1:]
    for i in range(len(b)):
        yield b[:i] + b[i + 1:]
    for i in range(len(b) + 1):
        for v in b"0a|2 _":
            yield b[:i] + bytes([v]) + b[i:]


def gen_cases(rng, tier):
    n = {"quick": 1, "thorough": 12, "search": 3}[tier]
    # ---- decode stream (function level)
    for _ in range((1000 if tier == "quick" else 1500 * n)):
        s = _token_text(rng, _secret(rng)) if rng.random() < 0.75 else _arb(rng)
        if "\n" in s or "\r" in s:
            continue
        yield {"kind": "decode", "s": s}
    for ts in TS_POOL:
        yield {"kind": "decode", "s": mk_v2(b"ab", b"\x01\x02\x03\x04", ts)}
    for c in range(256):
        if c in (10, 13):
            continue
        for tmpl in ("%s12", "12%s", "1%s2", "%s"):
            yield {"kind": "decode", "s": mk_v2(b"ab", b"\x01\x02\x03\x04", tmpl % chr(c))}
        yield {"kind": "decode", "s": "2|0102030%s|6163|1" % chr(c)}
        yield {"kind": "decode", "s": "%s|01020304|6163|1" % chr(c)}
        yield {"kind": "decode", "s": "ab%scd" % chr(c)}
    # ---- end-to-end: pairs
    for _ in range(900 * n):
        secret = _secret(rng)
        k = rng.random()
        cookie = _token_text(rng, secret, full=False) if k < 0.85 else (None if k < 0.92 else _arb(rng, full=False))
        k = rng.random()
        if k < 0.52:
            token = _token_text(rng, secret, full=False)                     # same session (possibly re-masked / near miss)
        elif k < 0.6:                                                        # a prefix / suffix / extension of the secret
            other = rng.choice([secret[:max(0, len(secret) - rng.randint(1, 3))], secret[1:], secret + b"\x00",
                                secret + _rb(rng, 1), secret[:1]])
            token = rng.choice([mk_v1(other), mk_v2(other, _rb(rng, 4))])
        elif k < 0.8:
            token = _token_text(rng, _secret(rng), full=False)               # another session's token
        elif k < 0.88:
            token = None
        elif k < 0.92:
            token = cookie
        else:
            token = _arb(rng, full=False)
        meth = rng.choice(CHECKED) if rng.random() < 0.9 else rng.choice(UNCHECKED)
        c = _e2e(rng, cookie, token, method=meth)
        # empty / competing earlier sources
        r = rng.random()
        if r < 0.12 and c["body"] is None:
            c["body"] = rng.choice(["", " ", _token_text(rng, _secret(rng), full=False)])
        elif r < 0.2 and c["h1"] is None:
            c["h1"] = rng.choice(["", _token_text(rng, _secret(rng), full=False)])
        elif r < 0.25 and c["h2"] is None:
            c["h2"] = _token_text(rng, secret, full=False)
        yield c
    # ---- end-to-end: every single-byte substitution / deletion / small insertion of small tokens (form body: any byte)
    secret, mask = b"\x5a", b"\xaa\xbb\xcc\xdd"
    bases = [(mk_v2(secret, mask, "5"), mk_v2(secret, b"\x01\x02\x03\x04", "7")), (mk_v1(b"\xab\xcd"), mk_v1(b"\xab\xcd")),
             (mk_v1(b"\xab\xcd"), mk_v2(b"\xab\xcd", mask, "5"))]
    allbytes = list(range(256)) if tier != "search" else rng.sample(range(256), 40)
    for bi, (cookie, tok) in enumerate(bases):
        # quick: the two same-version pairs completely (every position x all 256 byte values), the cross-version pair sampled
        vals = allbytes if tier == "thorough" or bi < 2 else sorted(rng.sample(range(256), 24))
        for m in _mutations(tok, vals):
            yield {"kind": "e2e", "method": "POST", "ver": 2, "cookie": cookie, "body_bytes": m.hex(), "body": None,
                   "query": None, "h1": None, "h2": None, "fresh": "11" * 16, "mask": "01020304", "mut": "token"}
    # mutated cookie (header-safe bytes only), intact token
    safe = [ord(ch) for ch in SAFE]
    for cookie, tok in bases[:2]:
        for m in _mutations(cookie, safe if tier == "thorough" else safe[::4]):
            if any(ch in b' ;,"\\' for ch in m):
                continue
            yield {"kind": "e2e", "method": "POST", "ver": 2, "cookie": m.decode("latin-1"), "body": tok, "query": None,
                   "h1": None, "h2": None, "fresh": "11" * 16, "mask": "01020304", "mut": "cookie"}
    # ---- issue stream: render the form, post it back
    for _ in range(250 * n):
        secret = _secret(rng)
        k = rng.random()
        cookie = None if k < 0.3 else (_token_text(rng, secret, full=False) if k < 0.85 else _arb(rng, full=False))
        yield {"kind": "issue", "ver": rng.choice([1, 2]), "cookie": cookie, "fresh": _rb(rng, 16).hex(),
               "mask": _rb(rng, 4).hex(), "mask2": _rb(rng, 4).hex(), "where": rng.choice(["body", "query", "h1", "h2"]),
               "method": rng.choice(CHECKED), "ver2": rng.choice([1, 2])}


# --------------------------------------------------------------------------------------------- implementation
class _Patched:
    def __init__(self, fresh, masks):
        self.fresh, self.masks = fresh, list(masks)

    def __enter__(self):
        self.ou, self.tt = os.urandom, time.time
        fresh, masks, ou = self.fresh, self.masks, self.ou

        def urandom(n):
            if n == 16:
                return fresh
            if n == 4 and masks:
                return masks.pop(0)
            return ou(n)
        os.urandom = urandom
        time.time = lambda: float(NOW) + 0.75
        logging.getLogger("tornado.access").disabled = True
        logging.getLogger("tornado.general").disabled = True
        self.log = _Capture()
        logging.getLogger("tornado.application").addHandler(self.log)
        logging.getLogger("tornado.application").propagate = False
        return self

    def __exit__(self, *a):
        os.urandom, time.time = self.ou, self.tt
        logging.getLogger("tornado.application").removeHandler(self.log)


class _Capture(logging.Handler):
    def __init__(self):
        super().__init__()
        self.records = []

    def emit(self, record):
        self.records.append(record.getMessage()[:200])


def _app(ver, rec):
    from tornado import web

    class H(web.RequestHandler):
        def check_xsrf_cookie(self):
            seen = {"cookie": self.get_cookie("_xsrf")}
            try:
                seen["form"] = self.get_argument("_xsrf", None)
            except web.HTTPError as e:
                seen["form"] = None
                seen["form_error"] = e.status_code
            seen["h1"] = self.request.headers.get("X-Xsrftoken")
            seen["h2"] = self.request.headers.get("X-Csrftoken")
            rec["seen"] = seen
            try:
                super().check_xsrf_cookie()
                rec["check"] = "pass"
            except web.HTTPError as e:
                rec["check"] = "HTTPError:%d" % e.status_code
                raise
            except Exception as e:
                rec["check"] = "Uncaught:" + type(e).__name__
                raise

        def _run(self):
            rec["ran"] = True
            self.write("ok")
        get = head = options = post = put = patch = delete = _run

    class Form(web.RequestHandler):
        def get(self):
            rec["cookie1"] = self.get_cookie("_xsrf")
            rec["token"] = self.xsrf_token.decode("latin-1")
            self.write(self.xsrf_form_html())

    return web.Application([("/x", H), ("/form", Form)], xsrf_cookies=True, xsrf_cookie_version=ver)


def _serve(app, raw):
    from core import vloop, faketransport
    from tornado.httpserver import HTTPServer
    with vloop.installed() as lp:
        srv = HTTPServer(app)
        st = faketransport.FakeStream(lp.io_loop)
        srv.handle_stream(st, ("1.2.3.4", 5))
        lp.drain()
        st.feed(raw)
        lp.drain()
        out = bytes(st.written)
        st.feed_eof()
        lp.drain()
    return out


def _status(resp):
    m = re.match(rb"HTTP/1\.[01] (\d{3}) ", resp)
    return int(m.group(1)) if m else 0


def _enc_field(v):
    return urllib.parse.quote_from_bytes(v if isinstance(v, bytes) else v.encode("utf-8", "surrogatepass"), safe="")


def _request(method, path, cookie, body, query, h1, h2):
    """-> raw request bytes.  body: str|bytes|None (the `_xsrf` form field)"""
    if query is not None:
        path += "?_xsrf=" + _enc_field(query)
    hs = ["Host: t"]
    if cookie is not None:
        hs.append("Cookie: other=1; _xsrf=" + cookie)
    if h1 is not None:
        hs.append("X-XSRFToken: " + h1)
    if h2 is not None:
        hs.append("X-CSRFToken: " + h2)
    payload = b""
    if body is not None:
        payload = b"_xsrf=" + _enc_field(body).encode("ascii") + b"&z=1"
        hs.append("Content-Type: application/x-www-form-urlencoded")
    if body is not None or method in ("POST", "PUT", "PATCH"):
        hs.append("Content-Length: %d" % len(payload))
    head = "%s %s HTTP/1.1\r\n%s\r\n\r\n" % (method, path, "\r\n".join(hs))
    return head.encode("latin-1") + payload


def _transparent(v):
    return v is None or (isinstance(v, str) and all(ch in SAFE for ch in v))


def run_impl(case):
    from tornado import web
    if case["kind"] == "decode":
        tt = time.time
        time.time = lambda: float(NOW) + 0.75
        lg = logging.getLogger("tornado.general")
        old = lg.disabled
        lg.disabled = True
        try:
            v, tok, ts = web.RequestHandler._decode_xsrf_token(None, case["s"])
        except Exception as e:
            return {"decode": "Uncaught:" + type(e).__name__}
        finally:
            time.time = tt
            lg.disabled = old
        return {"decode": None if tok is None and v is None else [v, tok.hex() if isinstance(tok, bytes) else repr(tok), ts]}
    if case["kind"] == "e2e":
        rec = {}
        body = bytes.fromhex(case["body_bytes"]) if case.get("body_bytes") is not None else case["body"]
        raw = _request(case["method"], "/x", case["cookie"], body, case["query"], case["h1"], case["h2"])
        with _Patched(bytes.fromhex(case["fresh"]), [bytes.fromhex(case["mask"])]) as p:
            resp = _serve(_app(case["ver"], rec), raw)
        return {"status": _status(resp), "ran": bool(rec.get("ran")), "seen": rec.get("seen"), "check": rec.get("check"),
                "errors_logged": len(p.log.records), "dotall": _dotall()}
    if case["kind"] == "issue":
        rec = {}
        cookie = case["cookie"]
        raw = _request("GET", "/form", cookie, None, None, None, None)
        with _Patched(bytes.fromhex(case["fresh"]), [bytes.fromhex(case["mask"])]) as p:
            app = _app(case["ver"], rec)
            resp = _serve(app, raw)
        out = {"status1": _status(resp), "token": rec.get("token"), "cookie1": rec.get("cookie1"), "errors_logged": len(p.log.records), "dotall": _dotall()}
        m = re.search(rb'name="_xsrf" value="([^"]*)"', resp)
        out["form_value"] = m.group(1).decode("latin-1") if m else None
        sc = re.search(rb"\r\nSet-Cookie: _xsrf=([^;\r]*)", resp)
        out["set_cookie"] = sc.group(1).decode("latin-1") if sc else None
        cookie2 = out["set_cookie"] if out["set_cookie"] is not None else cookie
        tok = out["form_value"]
        rec2 = {}
        kw = {"body": None, "query": None, "h1": None, "h2": None}
        kw[case["where"]] = tok
        if tok is not None:
            raw2 = _request(case["method"], "/x", cookie2, kw["body"], kw["query"], kw["h1"], kw["h2"])
            with _Patched(bytes.fromhex(case["fresh"])[::-1], [bytes.fromhex(case["mask2"])]) as p2:
                resp2 = _serve(_app(case["ver2"], rec2), raw2)
            out.update({"status2": _status(resp2), "ran2": bool(rec2.get("ran")), "seen2": rec2.get("seen"),
                        "errors_logged2": len(p2.log.records)})
        return out
    raise AssertionError(case)


# --------------------------------------------------------------------------------------------- model / spec
def _seen(case, impl, key="seen"):
    """the values check_xsrf_cookie saw; when it was never reached: what was sent, if transport-transparent"""
    s = impl.get(key)
    if s is not None:
        return s
    if case["kind"] == "e2e" and case.get("body_bytes") is None and all(
            _transparent(case[k]) for k in ("cookie", "body", "query", "h1", "h2")) \
            and not (case["body"] is not None and case["query"] is not None):
        form = case["body"] if case["body"] is not None else case["query"]
        return {"cookie": case["cookie"], "form": form, "h1": case["h1"], "h2": case["h2"]}
    return None


def _judgeable(case, impl, key="seen"):
    """values known and the `_xsrf` argument decodable (an undecodable argument is a 400 inside get_argument)"""
    s = _seen(case, impl, key)
    return s if s is not None and not s.get("form_error") else None


def model_requests(case, impl):
    if case["kind"] == "decode":
        return [line(ID, "decode", atom(_dotall()), NOW, case["s"])]
    d = atom(bool(impl.get("dotall")))
    if case["kind"] == "e2e":
        s = _judgeable(case, impl)
        if s is None or case["method"] in UNCHECKED:
            return []
        return [line(ID, "check", d, NOW, s["cookie"], bytes.fromhex(case["fresh"]), s["form"], s["h1"], s["h2"])]
    if case["kind"] == "issue":
        ls = [line(ID, "issue", d, case["ver"], NOW, impl.get("cookie1"), bytes.fromhex(case["fresh"]), bytes.fromhex(case["mask"]))]
        s = _judgeable(case, impl, "seen2")
        if s is not None:
            ls.append(line(ID, "check", d, NOW, s["cookie"], bytes.fromhex(case["fresh"])[::-1], s["form"], s["h1"], s["h2"]))
        return ls
    raise AssertionError(case)


def _vals(reply):
    st, vals = parse_reply(reply)
    assert st == "ok", reply
    return [str(v) if isinstance(v, Atom) else (v.hex() if isinstance(v, bytes) else v) for v in vals]


def _cps(v):
    return "".join(map(chr, v)) if isinstance(v, list) else v


def _outcome(reply):
    o = _vals(reply)[0]
    return "accept" if o == "accept" else "refuse"       # the 403 reason is not observable from outside


def model_result(case, replies):
    if case["kind"] == "decode":
        v = _vals(replies[0])
        return {"decode": None if v == [None] else v}
    if case["kind"] == "e2e":
        if case["method"] in UNCHECKED:
            return {"outcome": "unchecked-runs"}
        if not replies:
            return {"outcome": "refused-before-or-inside-argument-decoding"}
        return {"outcome": _outcome(replies[0])}
    if case["kind"] == "issue":
        v = _vals(replies[0])
        out = {"token": _cps(v[0]), "set_cookie": _cps(v[1]) if len(v) > 1 else None}
        if len(replies) > 1:
            out["outcome2"] = _outcome(replies[1])
        return out


def _impl_outcome(ran, status):
    if ran and status == 200:
        return "accept"
    if not ran and status == 403:
        return "refuse"
    return "ran=%s status=%d" % (ran, status)


def impl_view(case, impl):
    if case["kind"] == "decode":
        return {"decode": impl["decode"]}
    if case["kind"] == "e2e":
        if case["method"] in UNCHECKED:
            return {"outcome": "unchecked-runs" if impl["ran"] and impl["status"] == 200 else _impl_outcome(impl["ran"], impl["status"])}
        if _judgeable(case, impl) is None:
            ok = not impl["ran"] and 400 <= impl["status"] < 500 and impl["status"] != 403
            return {"outcome": "refused-before-or-inside-argument-decoding" if ok else _impl_outcome(impl["ran"], impl["status"])}
        return {"outcome": _impl_outcome(impl["ran"], impl["status"])}
    if case["kind"] == "issue":
        out = {"token": impl["token"], "set_cookie": impl["set_cookie"]}
        if _judgeable(case, impl, "seen2") is not None:
            out["outcome2"] = _impl_outcome(impl["ran2"], impl["status2"])
        return out


def spec_requests(case, impl):
    key = "seen" if case["kind"] == "e2e" else "seen2"
    if case["kind"] == "e2e" and case["method"] in UNCHECKED or case["kind"] == "decode":
        return []
    s = _judgeable(case, impl, key)
    if s is None:
        return []
    return [line(ID, "spec", atom(bool(impl.get("dotall"))), s["cookie"], s["form"], s["h1"], s["h2"])]


def spec_violation(case, impl, replies):
    if case["kind"] == "decode":
        if isinstance(impl["decode"], str):
            return "_decode_xsrf_token raised %s" % impl["decode"]
        return None
    if case["kind"] == "e2e":
        if impl["status"] >= 500 or impl["status"] == 0 or impl["errors_logged"] or str(impl.get("check", "")).startswith("Uncaught"):
            return "server error instead of a refusal: status %d, check=%s, %d error(s) logged" % (
                impl["status"], impl.get("check"), impl["errors_logged"])
        if case["method"] in UNCHECKED:
            return None if impl["ran"] else "%s request did not reach the handler (status %d)" % (case["method"], impl["status"])
        if impl["ran"] and impl["status"] != 200:
            return "handler ran but status is %d" % impl["status"]
        if not impl["ran"] and not (400 <= impl["status"] < 500):
            return "refused with status %d" % impl["status"]
        if not replies:
            s = _seen(case, impl)
            if s is not None and s.get("form_error") and impl["ran"]:
                return "handler ran although the _xsrf argument is undecodable"
            return None
        want = _vals(replies[0])[0] == "T"
        if impl["ran"] != want:
            s = _seen(case, impl)
            return "%s: handler %s but the cookie/token pair %s match (cookie=%r token sources=%r)" % (
                case["method"], "ran" if impl["ran"] else "did not run", "does" if want else "does not",
                s["cookie"], [s[k] for k in ("form", "h1", "h2")])
        return None
    if case["kind"] == "issue":
        if impl["status1"] != 200 or impl["errors_logged"]:
            return "rendering the form failed: status %d" % impl["status1"]
        if impl["form_value"] is None:
            return "xsrf_form_html() produced no _xsrf field"
        if impl.get("status2", 0) >= 500 or impl.get("errors_logged2"):
            return "server error on the post-back: status %s" % impl.get("status2")
        if not impl.get("ran2"):
            return "the token issued by xsrf_form_html() (cookie version %d, checked under version %d, sent in %s) was refused with status %s" % (
                case["ver"], case["ver2"], case["where"], impl.get("status2"))
        return None
    return None


def nontrivial(case, impl):
    if case["kind"] == "decode":
        return impl["decode"] is not None
    if case["kind"] == "e2e":
        s = impl.get("seen")
        return case["method"] in CHECKED and s is not None and bool(s["cookie"]) and any(s[k] for k in ("form", "h1", "h2"))
    return impl.get("ran2") is not None


def stats(case, impl):
    out = ["kind:" + case["kind"]]
    if case["kind"] == "decode":
        d = impl["decode"]
        out.append("decode:" + ("none" if d is None else "v%s" % d[0] if isinstance(d, list) else "raised"))
    elif case["kind"] == "e2e":
        out += ["method:" + case["method"], "status:%d" % impl["status"], "ran:%s" % impl["ran"],
                "check:%s" % impl.get("check"), "cookie_version_setting:%d" % case["ver"]]
        if case.get("mut"):
            out.append("mutation-of:" + case["mut"])
        for k in ("body", "query", "h1", "h2"):
            if case.get(k) is not None or (k == "body" and case.get("body_bytes") is not None):
                out.append("source:" + k)
        out.append("observed:%s" % (impl.get("seen") is not None))
    else:
        out += ["issue:incoming-cookie:" + ("none" if case["cookie"] is None else "some"),
                "issue:set-cookie:%s" % (impl.get("set_cookie") is not None), "issue:ran2:%s" % impl.get("ran2"),
                "issue:versions:%d->%d" % (case["ver"], case["ver2"]), "issue:where:" + case["where"]]
    return out


def signature(case, impl, why):
    if case["kind"] == "decode":
        return "decode/raises"
    if "server error" in why:
        return case["kind"] + "/server-error"
    if case["kind"] == "issue":
        return "issue/" + ("refused" if "refused" in why else "render")
    if "did not run but" in why or ("did not run" in why and "does match" in why):
        return "e2e/valid-token-refused"
    if "handler ran but the" in why or ("ran" in why and "does not match" in why):
        return "e2e/invalid-token-accepted"
    return "e2e/" + re.sub(r"[^a-z]+", "-", why.lower())[:40]


def shrink(case):
    if case["kind"] == "decode":
        s = case["s"]
        for i in range(len(s)):
            yield {**case, "s": s[:i] + s[i + 1:]}
    if case["kind"] == "e2e":
        for k in ("h2", "h1", "query"):
            if case.get(k) is not None and sum(case.get(x) is not None for x in ("body", "query", "h1", "h2")) > 1:
                yield {**case, k: None}
        for k in ("cookie", "body", "query", "h1", "h2"):
            v = case.get(k)
            if isinstance(v, str) and len(v) > 1:
                for i in range(len(v)):
                    yield {**case, k: v[:i] + v[i + 1:]}


def describe(case):
    return case
