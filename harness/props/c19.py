"""C19 — compiled templates produce what the template language defines (tornado.template)."""
import posixpath
import re
from core.wire import atom, line, parse_reply, Atom

ID = "C19"
LEAN_TARGETS = ["TornadoModel.C19.Props"]
_T = "TornadoModel.C19."
THEOREMS = [_T + n for n in [
    "lex_src", "lex_line_invariant", "scan_total", "text_verbatim", "text_only_output", "escape_sequences",
    "triple_brace_innermost", "parse_error_line", "parse_error_located", "unterminated_error_line",
    "filter_all_identity", "filter_oneline_idempotent", "filter_idempotent",
    "filter_single_idempotent", "filter_whitespace_idempotent",
    "gen_balanced", "gen_stack_balanced", "control_body_nonempty",
    "interp_matches_gen_structure_partial", "interp_matches_gen_outcome_partial",
    "parse_flat_roundtrip", "bytes_literal_roundtrip",
    "cache_keyed_by_resolved_name", "load_history_independent", "resolve_toplevel",
    "break_inside_loop_refuted", "break_inside_loop_partial",
]]
TRUSTED = [
    "CPython executes the generated source as Python defines (exec of Template.code); the generated source itself is "
    "compared line by line, comments included, with the Lean generator on every case",
    "re `\\s` = str.isspace table, bytes.__repr__, str.encode('utf-8'), str.strip/partition as modelled in C19/Base.lean "
    "(each also compared directly in the `prim` stream)",
]
ASSUMPTIONS = [
    "template text consists of Unicode scalar values (lone surrogates cannot be UTF-8 encoded by _Text.generate)",
    "loaders are DictLoaders (flat names and directory-structured names: sub-directories, `/absolute` and `<pseudo>` "
    "keys, relative references with `./`, `../`, `//`, trailing `/`; DictLoader.resolve_path = posixpath "
    "dirname/join/normpath is modelled in C19/Path.lean and compared directly in the `prim resolve` stream; "
    "tornado.template.Loader shares BaseLoader.load and is not run); several top-level loads on ONE loader instance "
    "are modelled with the cache carried along (compileSeq) only for loaders without malformed files; "
    "include/extends graphs are acyclic, "
    "`{% extends %}` occurs only at the top level of entry/parent files (elsewhere _ExtendsBlock.generate raises "
    "NotImplementedError: outside the language), at most one file of a loader is malformed",
    "executed templates (stream ii) use the fixed expression pool: identifiers, `not x`, modules M(x), apply/autoescape "
    "functions up/wrap/ident/xhtml_escape/escape, `set v = x`, for over lists, while guarded by a variable, try with "
    "NameError; variables are read only after their assignment in the same body (Python function scoping of the "
    "generated code is not part of the template language); arbitrary Python expressions/statements, import/from and "
    "the order of elif/else/except/finally inside a block are checked by CPython only (SyntaxError), they take part in "
    "the code-generation stream (i) but not in the interpretation stream (ii)",
    "values of type bytes are valid UTF-8",
]
RULE = ("grammar-directed templates (nesting <= 4, DictLoader with extends chains <= 3 and includes, flat and "
        "directory-structured names with clashing base names / decoy files stored under the unresolved spelling of a "
        "relative reference, 0-6 earlier loads on the same loader instance in several orders, all whitespace modes, "
        "literal text with quotes/backslashes/braces/!/non-ASCII/<pre>/Unicode spaces), a fault-injection stream (one "
        "malformed directive at a known place), a systematic stream of break/continue inside blocks (one file, parent block inside / "
        "outside a loop / inside apply, overridden) and inside finally, a mutation stream, a brace-soup stream and a primitives stream; "
        "non-trivial = at least one directive nested in another or a loader with >= 2 files, or a ParseError; "
        "distinct by canonical JSON of the case")
EXHAUSTIVE = {"quick": False, "thorough": False}
CLAUSE_CAVEATS = [
    'parse_error_located pins every ParseError to the first directive the builder rejects (all 21 kinds); the line named is reader.line just BEHIND that directive (its last line when it spans several lines - the behaviour of the code, the oracle accepts the span first..last line); that the real _parse rejects the same directive as the model is the fault-injection tie',
    'KNOWN FINDING valid/compile-error/break-in-moved-block: a break/continue in a block body that extends moves out of its loop is accepted by _parse and fails with SyntaxError at load (break_inside_loop_refuted); break_inside_loop_partial has its side condition on the generated lines only, the source-level statement (break_inside_loop_goal: no block body with a loose break/continue => the module compiles) is open and decided per case by CPython',
    'interp_matches_gen_structure_partial covers text, expressions, raw, if/elif/else, for, set, break, continue; apply, block/extends/include, while, try, import are tie-only',
]
CLAUSES = {
    "generating yields the output a direct interpretation defines":
        "tie: Lean Gen == Template.code line by line (stream i) and Spec.render (Interp) == Template.generate() (stream ii); "
        "gen_balanced, control_body_nonempty, gen_stack_balanced; interp_matches_gen_structure_partial / "
        "interp_matches_gen_outcome_partial: on the decidable fragment `frag` (text, expression, raw/module, if/elif/else, "
        "for/else over finite lists, set, break, continue, any whitespace mode and autoescape function) the interpreter's outcome equals the "
        "denotation `pyRun` of the generated line list (parse_flat_roundtrip, bytes_literal_roundtrip are its generic parts); "
        "outside the fragment (apply, block/extends/include, while, try, import) tie only "
        "(interp_matches_gen_structure_goal)",
    "templates that are not well-formed raise a ParseError naming the correct line":
        "parse_error_located (every error: raised by the first directive stepTok rejects after all earlier tokens were accepted, that "
        "directive sits at the stated source offset, opens on lineAt(offset) and the reported line is lineAt(offset just behind its "
        "closing marker); or the input ran out and the line is that of the offset where the rest / the unclosed directive starts), "
        "parse_error_line (weaker: some offset), unterminated_error_line, lex_line_invariant + fault-injection oracle (file and line "
        "span of the injected fault); known finding: break/continue in a block moved out of its loop by extends gives a SyntaxError, not a "
        "ParseError (break_inside_loop_full / _refuted / _partial, loop_block_cases stream)",
    "literal text is reproduced byte-for-byte apart from the selected whitespace filtering":
        "lex_src, text_verbatim, text_only_output, escape_sequences, triple_brace_innermost, filter_all_identity, filter_single_idempotent, filter_whitespace_idempotent (all three modes; also checked on every filter case)",
    "extends, block and include through a loader":
        "names are resolved against the file that mentions them (Path.lean resolvePath = DictLoader.resolve_path, tied in the "
        "`prim resolve` stream; Model.resolveBody) and the cache is keyed by the resolved name: cache_keyed_by_resolved_name, "
        "load_history_independent (two load histories agree on every cached name), resolve_toplevel; tie: compileSeq (several "
        "loads on ONE loader instance, cache carried along) == Template.code of every load, and the oracle interprets every "
        "loaded template on its own (history_cases: all orders of earlier loads over clashing base names)",
    "termination of the reader": "scan_total (structural recursion, no fuel) + lex_src",
}
PARALLEL = False   # measured: 2600 cases take 3 s in-process, 20 s through a fork pool
CASE_TIMEOUT = 20
LEVEL_NOTE = ("interp_matches_gen_structure (semantics of the generated Python) is proved on the fragment `frag` "
              "(interp_matches_gen_structure_partial, sem = pyRun of PySem.lean); for apply/block/include/while/try it "
              "stays a Prop covered by the two tie streams")

# ----------------------------------------------------------------------------------------------- pools
WS_MODES = ["all", "single", "oneline"]
STD_ENV = [
    ["sx", "s", "<b>\"Tom\" & 'Jerry'</b>"], ["sy", "s", "plain text"], ["es", "s", ""], ["su", "s", "ü€\U0001f600 x"],
    ["bz", "b", "<i>bytes&é</i>"], ["n0", "i", 0], ["n5", "i", 5], ["nm", "i", -12], ["nn", "n", None],
    ["t1", "t", True], ["f0", "t", False], ["ob", "o", "<obj 'q'>"],
    ["l3", "l", [["s", "a<"], ["s", "b"], ["i", 3]]], ["l0", "l", []], ["li", "l", [["i", 1], ["i", 2]]],
]
EXPR_NAMES = ["sx", "sy", "es", "su", "bz", "n0", "n5", "nm", "nn", "t1", "f0", "ob"]
COND_NAMES = ["sx", "es", "n0", "n5", "nn", "t1", "f0", "ob", "l3", "l0", "bz"]
LIST_NAMES = ["l3", "l0", "li"]
APPLY_FNS = ["up", "wrap", "ident", "xhtml_escape", "escape"]
AE_VALUES = ["xhtml_escape", "escape", "None", "up", "xhtml_escape", "None"]
BLOCK_NAMES = ["b1", "b2", "b3", "Bé"]
TEXT_ATOMS = ["a", "b", "Z", "0", " ", " ", "  ", "\t", "\n", "\n", "\r\n", "\n\n", " \n ", "\f", "\v", "\xa0", " ", "　",
              "\x1c", "\x85", "'", '"', "'\"", "\\", "\\n", "\\'", "{", "}", "}}", "%}", "#}", "{ {", "!", "%", "#", "<pre>", "<pre>\n  x\n</pre>",
              "é", "漢", "\U0001f600", "\x00", "\x7f", "<b>", "&amp;", "word", "b'x'", "</p>", "\x1b", "{'k': 1}", "$", "\\x41"]


class Obj:
    def __init__(self, s):
        self.s = s

    def __str__(self):
        return self.s


class _Mods:
    def __getattr__(self, name):
        return lambda v: v


def _atom_py(t, v):
    if t == "s":
        return v
    if t == "b":
        return v.encode("utf-8")
    if t == "i":
        return v
    if t == "n":
        return None
    if t == "t":
        return bool(v)
    if t == "o":
        return Obj(v)
    raise AssertionError(t)


def env_kwargs(env):
    kw = {}
    for name, t, v in env:
        kw[name] = [_atom_py(a, b) for a, b in v] if t == "l" else _atom_py(t, v)
    kw["up"] = lambda b: b.upper()
    kw["wrap"] = lambda b: b"[" + b + b"]"
    kw["ident"] = lambda b: b
    kw["_tt_modules"] = _Mods()
    return kw


def env_wire(env):
    out = []
    for name, t, v in env:
        if t == "l":
            out.append([name, atom("l"), [[atom(a), (atom(bool(b)) if a == "t" else b)] for a, b in v]])
        elif t == "t":
            out.append([name, atom("t"), atom(bool(v))])
        else:
            out.append([name, atom(t), v])
    return out


# ----------------------------------------------------------------------------------------------- generator
def sanitize_text(s):
    """literal text of *valid* templates: no directive opener by accident, no dangling brace at the end"""
    s = re.sub(r"\{(?=[{%#])", "{ ", s)
    if s.endswith("{"):
        s += "."
    return s


def rand_text(rng, maxn=6):
    return sanitize_text("".join(rng.choice(TEXT_ATOMS) for _ in range(rng.randint(1, maxn))))


class Ctx:
    def __init__(self, depth, in_loop=False, vars_=(), files=(), exec_ok=True, in_finally=False, cur=None):
        self.depth, self.in_loop, self.vars, self.files, self.exec_ok, self.in_finally = depth, in_loop, tuple(vars_), files, exec_ok, in_finally
        self.cur = cur        # name of the file being generated (None: flat names, references are spelled as they are)

    def sub(self, **kw):
        c = Ctx(self.depth + 1, self.in_loop, self.vars, self.files, self.exec_ok, self.in_finally, self.cur)
        for k, v in kw.items():
            setattr(c, k, v)
        return c


class TGen:
    """grammar-directed generator of one loader"""

    def __init__(self, rng, max_depth=4, wild=False):
        self.rng, self.max_depth, self.nvar, self.wild = rng, max_depth, 0, wild
        self.feat = set()
        self.refs = []        # (file that mentions, spelling, resolved target) of every include/extends written

    def fresh(self):
        self.nvar += 1
        return "v%d" % self.nvar

    def sp(self):
        return self.rng.choice(["", " ", " ", "  ", "\n", "\t", " \n "])

    def tag(self, inner):
        a, b = self.sp(), self.sp()
        if not a and inner.startswith("!"):
            a = " "
        return "{%" + a + inner + b + "%}"

    def expr_name(self, ctx):
        r = self.rng
        pool = EXPR_NAMES + list(ctx.vars) * 2
        if r.random() < 0.02:
            return "boom"
        return r.choice(pool)

    def cond(self, ctx):
        r = self.rng
        n = r.choice(COND_NAMES + list(ctx.vars))
        if r.random() < 0.02:
            n = "boom"
        return ("not " + n) if r.random() < 0.25 else n

    def body(self, ctx, lo=0, hi=4):
        r = self.rng
        out = []
        ctx = Ctx(ctx.depth, ctx.in_loop, ctx.vars, ctx.files, ctx.exec_ok, ctx.in_finally, ctx.cur)
        for _ in range(r.randint(lo, hi)):
            out.append(self.item(ctx))
        return "".join(out)

    def item(self, ctx):
        r = self.rng
        deep = ctx.depth < self.max_depth
        k = r.random()
        if k < 0.30:
            self.feat.add("text")
            return rand_text(r)
        if k < 0.46:
            self.feat.add("expr")
            a, b = self.sp(), self.sp()
            return "{{" + (a or (" " if r.random() < 0.5 else "")) + self.expr_name(ctx) + b + "}}"
        if k < 0.49:
            self.feat.add("raw")
            return self.tag("raw " + self.expr_name(ctx))
        if k < 0.505:
            self.feat.add("module")
            return self.tag("module %s(%s)" % (r.choice(["M", "Entry", "m_2"]), self.expr_name(ctx)))
        if k < 0.53:
            self.feat.add("comment")
            body = re.sub(r"#\}|%\}", "x", "".join(r.choice(TEXT_ATOMS + ["{{ x }}", "{% end %}"]) for _ in range(r.randint(0, 3))))
            if r.random() < 0.5:
                if body.startswith("!"):
                    body = " " + body
                return "{#" + body + "#}"
            return self.tag("comment " + body.replace("%", ""))
        if k < 0.56:
            self.feat.add("escape")
            return r.choice(["{{!", "{%!", "{#!"]) + r.choice(["", "x}}", " if %}", "!", "{"]).replace("{", "")
        if k < 0.575:
            self.feat.add("triple")
            n = r.choice([1, 1, 2, 3])
            return "{" * n + "{{" + self.expr_name(ctx) + "}}" + "}" * r.choice([0, n])
        if k < 0.62:
            self.feat.add("set")
            v = self.fresh()
            s = self.tag("set %s%s=%s%s" % (v, r.choice([" ", "", "  "]), r.choice([" ", ""]), r.choice(EXPR_NAMES + list(ctx.vars))))
            ctx.vars = ctx.vars + (v,)
            return s
        if k < 0.635:
            self.feat.add("wsdir")
            return self.tag("whitespace " + r.choice(WS_MODES))
        if k < 0.645:
            self.feat.add("aedir")
            return self.tag("autoescape " + r.choice(AE_VALUES))
        if k < 0.655:
            self.feat.add("import")
            return self.tag(r.choice(["import math", "from math import pi", "import os.path"]))
        if k < 0.69 and ctx.in_loop and not ctx.in_finally:
            self.feat.add("break")
            kw = r.choice(["break", "continue"])
            if r.random() < 0.6:
                return self.tag("if " + self.cond(ctx)) + self.tag(kw) + self.tag("end")
            return self.tag(kw)
        if k < 0.72 and ctx.files:
            q = r.choice(['"', "'", "", '"'])
            name = self.spell(r.choice(ctx.files), ctx.cur)
            if name is None:
                self.feat.add("text")
                return rand_text(r, 3)
            self.feat.add("include")
            return self.tag("include " + q + name + q)
        if not deep:
            self.feat.add("text")
            return rand_text(r, 3)
        if k < 0.80:
            self.feat.add("if")
            s = self.tag("if " + self.cond(ctx)) + self.body(ctx.sub())
            for _ in range(r.choice([0, 0, 1, 2])):
                s += self.tag("elif " + self.cond(ctx)) + self.body(ctx.sub())
            if r.random() < 0.5:
                s += self.tag("else") + self.body(ctx.sub())
            return s + self.tag(r.choice(["end", "end", "end if"]))
        if k < 0.86:
            self.feat.add("for")
            v = self.fresh()
            s = self.tag("for %s in %s" % (v, r.choice(LIST_NAMES))) + self.body(ctx.sub(in_loop=True, vars=ctx.vars + (v,), in_finally=False))
            if r.random() < 0.3:
                s += self.tag("else") + self.body(ctx.sub())
            return s + self.tag("end")
        if k < 0.88:
            self.feat.add("while")
            v = self.fresh()
            s = self.tag("set %s = %s" % (v, r.choice(["t1", "n5", "sx", "f0"])))
            s += self.tag("while " + v) + self.tag("set %s = f0" % v) + self.body(ctx.sub(in_loop=True, vars=ctx.vars + (v,), in_finally=False))
            if r.random() < 0.3:
                s += self.tag("else") + self.body(ctx.sub())
            ctx.vars = ctx.vars + (v,)
            return s + self.tag("end")
        if k < 0.91:
            self.feat.add("try")
            s = self.tag("try") + self.body(ctx.sub())
            if r.random() < 0.5:
                s += "{{ boom }}" + self.body(ctx.sub(), 0, 1)
            nexc = r.choice([1, 1, 2, 0])
            clauses = sorted((r.choice(["except", "except NameError", "except KeyError", "except Exception"]) for _ in range(nexc)),
                             key=lambda c: c == "except")        # a bare `except:` must be the last clause (Python syntax)
            if clauses.count("except") > 1:
                clauses = [c for c in clauses if c != "except"] + ["except"]
            for c in clauses:
                s += self.tag(c) + self.body(ctx.sub())
            if nexc and r.random() < 0.4:
                s += self.tag("else") + self.body(ctx.sub())
            if nexc == 0 or r.random() < 0.4:
                s += self.tag("finally") + self.body(ctx.sub(in_finally=True, in_loop=False))
            return s + self.tag("end")
        if k < 0.95:
            self.feat.add("apply")
            fn = r.choice(APPLY_FNS)
            return self.tag("apply " + fn) + self.body(ctx.sub(in_loop=False, in_finally=False)) + self.tag("end")
        self.feat.add("block")
        return self.tag("block " + r.choice(BLOCK_NAMES)) + self.body(ctx.sub(vars=(), in_loop=False, in_finally=False)) + self.tag("end")

    def spell(self, target, cur):
        """how the file `cur` refers to the file `target`: a spelling that DictLoader.resolve_path maps to `target`
        (None when there is none).  Flat generators (cur None) use the name itself."""
        if cur is None:
            return target
        r = self.rng
        if not py_unresolved(cur, target):
            d, t = _comps(posixpath.dirname(cur)), _comps(target)
            k = 0
            while k < len(d) and k < len(t) - 1 and d[k] == t[k]:
                k += 1
            if ".." in d[k:]:
                return None
            rel = "/".join([".."] * (len(d) - k) + t[k:])
            v = r.random()
            if v < 0.70:
                s = rel
            elif v < 0.78:
                s = "./" + rel
            elif v < 0.84:
                s = rel.replace("/", "//", 1) if "/" in rel else "./" + rel
            elif v < 0.90:
                s = r.choice(["zz", "a", "admin", "."]) + "/../" + rel
            elif v < 0.95:
                s = rel + r.choice(["/", "/."])
            else:
                s = ".//" + rel
            if py_resolve(s, cur) != target:
                s = rel
        else:
            s = target
        if py_resolve(s, cur) != target:
            return None
        self.refs.append((cur, s, target))
        if s != target:
            self.feat.add("relref")
        return s

    def loader_dirs(self):
        """directory-structured loader -> (files, entry, decoys): the same roles as `loader`, every file in a
        directory of its own choice; base names clash across directories; every reference is spelled relative to
        the file that mentions it; `decoys` = extra files stored under the *unresolved* spelling of a reference
        (what a loader that forgets to resolve would pick up)."""
        r = self.rng
        pool = r.choice([["", "admin/"], ["", "a/", "a/b/"], ["a/", "b/"], ["", "a/", "/abs/"], ["", "x/", "<gen>/"],
                         ["a/", "a/b/", ""], ["admin/", "admin/inc/", ""], ["", "a/", "../"], ["a/b/", "a/c/", "a/"]])
        n_par = r.choice([0, 0, 1, 1, 2])
        n_inc = r.choice([0, 1, 1, 2, 3])
        exts = [".html", ".txt", ".js", ".html", ""]
        used = set()

        def place(base):
            for _ in range(8):
                nm = r.choice(pool) + base
                if nm not in used:
                    used.add(nm)
                    return nm
            nm = r.choice(pool) + "q%d-%s" % (len(used), base)
            used.add(nm)
            return nm

        bases = []
        for i in range(n_inc + n_par + 1):
            role = "i%d" % i if i < n_inc else ("p%d" % (i - n_inc) if i < n_inc + n_par else "e")
            b = role + r.choice(exts)
            if bases and r.random() < 0.35:
                b = r.choice(bases)         # the same base name in another directory
            bases.append(b)
        names = [place(b) for b in bases]
        inc_names, par_names, entry = names[:n_inc], names[n_inc:n_inc + n_par], names[-1]
        files = []
        for i, nm in enumerate(inc_names):
            files.append([nm, self.body(Ctx(1, files=tuple(inc_names[i + 1:]), cur=nm), 1, 4)])
        chain = [entry] + par_names
        for i, nm in enumerate(chain):
            body = self.body(Ctx(0, files=tuple(inc_names), cur=nm), 1, 5)
            if i + 1 < len(chain):
                up = self.spell(chain[i + 1], nm)
                if up is not None:
                    q = r.choice(['"', "'", ""])
                    ext = self.tag("extends " + q + up + q)
                    extra = "".join(self.tag("block " + r.choice(BLOCK_NAMES)) + self.body(Ctx(1, files=tuple(inc_names), cur=nm)) + self.tag("end")
                                    for _ in range(r.randint(0, 3)))
                    body = (rand_text(r, 2) if r.random() < 0.3 else "") + ext + extra + body
                    self.feat.add("extends")
            files.append([nm, body])
        decoys = []
        for cur, s, target in self.refs:
            if s != target and s not in used and r.random() < 0.7:
                used.add(s)
                decoys.append(s)
                text = "decoy<" + s + ">" + self.body(Ctx(1, cur=s), 0, 2)
                if r.random() < 0.5:
                    text += self.tag("block " + r.choice(BLOCK_NAMES)) + "decoy block" + self.tag("end")
                files.append([s, text])
                self.feat.add("decoy")
        r.shuffle(files)
        return files, entry, decoys

    def loads_for(self, files, entry, decoys):
        """names loaded (and rendered) on the same loader instance before the entry"""
        r = self.rng
        names = [f[0] for f in files]
        k = r.random()
        if k < 0.25:
            return []
        if k < 0.50 and decoys:
            out = list(decoys)
            r.shuffle(out)
            return out[:r.randint(1, len(out))]
        if k < 0.60:
            return [n for n in names if n != entry]                      # everything else first, in dictionary order
        if k < 0.68:
            return [entry] + r.sample(names, r.randint(0, min(3, len(names))))   # the entry itself first: then it is cached
        out = r.sample(names, r.randint(1, min(5, len(names))))
        if r.random() < 0.2:
            out.insert(r.randrange(len(out) + 1), r.choice(["nope.html", "./" + entry, entry + "/", "a/../" + entry]))   # KeyError: top-level names are not resolved
        if r.random() < 0.2:
            out.append(r.choice(out))
        return out

    def loader(self):
        """-> (files [[name, text]], entry)"""
        r = self.rng
        n_par = r.choice([0, 0, 1, 1, 2])
        n_inc = r.choice([0, 0, 1, 2, 3])
        exts = [".html", ".txt", ".js", ".html", ""]
        inc_names = ["i%d%s" % (i, r.choice(exts)) for i in range(n_inc)]
        par_names = ["p%d%s" % (i, r.choice(exts)) for i in range(n_par)]
        entry = "e" + r.choice(exts)
        files = []
        # included files: only include later ones (acyclic)
        for i, nm in enumerate(inc_names):
            files.append([nm, self.body(Ctx(1, files=tuple(inc_names[i + 1:])), 1, 4)])
        chain = [entry] + par_names
        for i, nm in enumerate(chain):
            ctx = Ctx(0, files=tuple(inc_names))
            body = self.body(ctx, 1, 5)
            if i + 1 < len(chain):
                q = r.choice(['"', "'", ""])
                ext = self.tag("extends " + q + chain[i + 1] + q)
                # blocks that override the parents'
                extra = "".join(self.tag("block " + r.choice(BLOCK_NAMES)) + self.body(Ctx(1, files=tuple(inc_names))) + self.tag("end")
                                for _ in range(r.randint(0, 3)))
                body = (rand_text(r, 2) if r.random() < 0.3 else "") + ext + extra + body
                self.feat.add("extends")
            files.append([nm, body])
        r.shuffle(files)
        return files, entry


FAULTS = {
    # kind: (candidate directive texts, where)   where: any | top | noloop
    "emptyExpr": (["{{}}", "{{ }}", "{{\n}}", "{{ \n\n }}"], "any"),
    "emptyBlock": (["{%%}", "{% %}", "{%\n\n%}"], "any"),
    "unknownOp": (["{% foo %}", "{% endif %}", "{% if\tsx %}", "{% Else %}", "{% elsif x %}", "{% foo\n\n %}", "{%\nendfor\n%}"], "any"),
    "setMissing": (["{% set %}", "{% set  \n %}"], "any"),
    "includeMissing": (["{% include %}", "{% include \"\" %}", "{% include '' %}"], "any"),
    "extendsMissing": (["{% extends %}", "{% extends \"\" %}"], "any"),
    "importMissing": (["{% import %}", "{% from %}"], "any"),
    "autoescapeMissing": (["{% autoescape %}", "{% autoescape  %}", "{%autoescape\n%}"], "any"),
    "badWhitespace": (["{% whitespace bogus %}", "{% whitespace %}", "{% whitespace All %}", "{% whitespace single line %}"], "any"),
    "rawMissing": (["{% raw %}", "{%raw\n%}"], "any"),
    "moduleMissing": (["{% module %}"], "any"),
    "applyMissing": (["{% apply %}x\n\n{{ sx }}\n{% end %}", "{% apply %}{% end %}", "{%apply\n%}\n\n{% end %}"], "any"),
    "blockMissing": (["{% block %}x\n\ny\n{% end %}", "{% block %}{% end %}"], "any"),
    "extraEnd": (["{% end %}", "{% end if %}", "{%end\n%}"], "top"),
    "interOutside": (["{% else %}", "{% elif sx %}", "{% except %}", "{% finally %}"], "top"),
    "breakOutside": (["{% break %}", "{% continue %}", "{% if sx %}{% break %}{% end %}", "{% apply up %}{% continue %}{% end %}",
                      # the else clause of a loop is not in the loop (fix/hC19)
                      "{% for q in l3 %}a\n{% else %}\n{% break %}{% end %}", "{% while f0 %}{% else %}b{% continue %}\n{% end %}",
                      "{% for q in l3 %}{% else %}{% if sx %}\n{% break %}{% end %}{% end %}",
                      "{% for q in l3 %}{% for r in li %}{% end %}{% else %}{% try %}{% finally %}{% continue %}{% end %}{% end %}"], "top"),
    "interNotAttachable": (["{% for q in l3 %}{% elif sx %}{% end %}", "{% if sx %}{% except %}{% end %}", "{% apply up %}{% else %}{% end %}",
                            "{% block b9 %}\n{% else %}{% end %}", "{% while f0 %}{% finally %}{% end %}", "{% try %}{% elif sx %}{% end %}"], "any"),
    "missingEndExpr": (["{{ sx", "{{", "{{ sx }", "{{ sx %}"], "eof"),
    "missingEndTag": (["{% if sx", "{%", "{% if sx }}", "{% end %"], "eof"),
    "missingEndComment": (["{# never closed", "{#", "{# x }}"], "eof"),
    "missingEnd": (["{% if sx %}", "{% for q in l3 %}x", "{% apply up %}", "{% block b1 %}", "{% try %}", "{% while f0 %}{% if sx %}{% end %}"], "open"),
}
# offset (in lines) inside the fault text at which the offending directive ends, for multi-directive faults
_FAULT_SPAN = {
    "{% for q in l3 %}a\n{% else %}\n{% break %}{% end %}": ("{% for q in l3 %}a\n{% else %}\n", "{% break %}"),
    "{% while f0 %}{% else %}b{% continue %}\n{% end %}": ("{% while f0 %}{% else %}b", "{% continue %}"),
    "{% for q in l3 %}{% else %}{% if sx %}\n{% break %}{% end %}{% end %}": ("{% for q in l3 %}{% else %}{% if sx %}\n", "{% break %}"),
    "{% for q in l3 %}{% for r in li %}{% end %}{% else %}{% try %}{% finally %}{% continue %}{% end %}{% end %}":
        ("{% for q in l3 %}{% for r in li %}{% end %}{% else %}{% try %}{% finally %}", "{% continue %}"),
    "{% if sx %}{% break %}{% end %}": ("{% if sx %}", "{% break %}"),
    "{% apply up %}{% continue %}{% end %}": ("{% apply up %}", "{% continue %}"),
    "{% for q in l3 %}{% elif sx %}{% end %}": ("{% for q in l3 %}", "{% elif sx %}"),
    "{% if sx %}{% except %}{% end %}": ("{% if sx %}", "{% except %}"),
    "{% apply up %}{% else %}{% end %}": ("{% apply up %}", "{% else %}"),
    "{% block b9 %}\n{% else %}{% end %}": ("{% block b9 %}\n", "{% else %}"),
    "{% while f0 %}{% finally %}{% end %}": ("{% while f0 %}", "{% finally %}"),
    "{% try %}{% elif sx %}{% end %}": ("{% try %}", "{% elif sx %}"),
    "{% apply %}x\n\n{{ sx }}\n{% end %}": ("", "{% apply %}"),
    "{% apply %}{% end %}": ("", "{% apply %}"),
    "{%apply\n%}\n\n{% end %}": ("", "{%apply\n%}"),
    "{% block %}x\n\ny\n{% end %}": ("", "{% block %}"),
    "{% block %}{% end %}": ("", "{% block %}"),
}


def top_level_split_points(text):
    """offsets of `text` that lie between top-level items of a generated body (depth 0, outside directives)"""
    pts, depth, i = [0], 0, 0
    for m in re.finditer(r"\{\{!|\{%!|\{#!|\{\{.*?\}\}|\{#.*?#\}|\{%(.*?)%\}", text, re.S):
        if m.group(1) is not None:
            op = m.group(1).strip().split(" ")[0].split("\n")[0].split("\t")[0]
            if op in ("if", "for", "while", "try", "apply", "block"):
                if depth == 0:
                    pts.append(m.start())
                depth += 1
                continue
            if op == "end":
                depth -= 1
                if depth == 0:
                    pts.append(m.end())
                continue
        if depth == 0:
            pts.append(m.start())
            pts.append(m.end())
    pts.append(len(text))
    return sorted(set(pts))


def _comps(p):
    return [c for c in p.split("/") if c]


def py_unresolved(parent, name):
    """the guard of DictLoader.resolve_path: the name is used as it is"""
    return not parent or parent.startswith("<") or parent.startswith("/") or name.startswith("/")


def py_resolve(name, parent):
    """generator-side mirror of DictLoader.resolve_path (used to SPELL references and to find the reachable files;
    the model of it is Lean `resolvePath`, tied in the `prim resolve` stream)"""
    if py_unresolved(parent, name):
        return name
    return posixpath.normpath(posixpath.join(posixpath.dirname(parent), name))


def _refs(text, parent):
    for m in re.finditer(r"\{%\s*(?:include|extends)\s(.*?)%\}", text, re.S):
        ref = m.group(1).strip().strip('"').strip("'")
        if ref:
            yield py_resolve(ref, parent)


def cyclic(files, entry):
    """does the include/extends graph below `entry` contain a cycle (over-approximated by a regex)?"""
    d = dict(map(tuple, files))
    state = {}

    def visit(n):
        if n not in d:
            return False
        if state.get(n) == 1:
            return True
        if state.get(n) == 2:
            return False
        state[n] = 1
        if any(visit(m) for m in _refs(d[n], n)):
            return True
        state[n] = 2
        return False

    return visit(entry)


def reachable(files, entry):
    d = dict(map(tuple, files))
    seen, todo = set(), [entry]
    while todo:
        n = todo.pop()
        if n in seen or n not in d:
            continue
        seen.add(n)
        todo += list(_refs(d[n], n))
    return seen


def inject_fault(rng, files, entry):
    """put one malformed directive into one file at a top-level split point -> (files, fault) or None"""
    kind = rng.choice(sorted(FAULTS))
    cands, where = FAULTS[kind]
    ftxt = rng.choice(cands)
    reach = reachable(files, entry)
    fi = rng.choice([i for i, f in enumerate(files) if f[0] in reach])
    name, text = files[fi]
    # triple-brace items and text may merge with a following '{': keep a separator
    pts = top_level_split_points(text)
    off = rng.choice(pts)
    sep = " " if (off > 0 and text[off - 1] == "{") else ""
    if where == "eof":
        new = text[:off] + sep + ftxt
        tail = ""
    else:
        tail = text[off:]
        if where == "open":
            # an unclosed block: the rest of the file must not close it by accident -> keep the rest (it is balanced)
            pass
        new = text[:off] + sep + ftxt + tail
    start = off + len(sep)
    pre, bad = _FAULT_SPAN.get(ftxt, ("", ftxt))
    lo_off = start + len(pre)
    hi_off = lo_off + len(bad)
    if where == "open":
        hi_off = len(new)
    files = [list(f) for f in files]
    files[fi][1] = new
    return files, {"kind": kind, "file": name, "lo_off": lo_off, "hi_off": hi_off, "text": ftxt}


SOUP = ["{", "{", "}", "%", "#", "!", " ", "\n", "a", "{{", "}}", "{%", "%}", "{#", "#}", "if x", "end", "else", "for a in b", "\"", "x", "{{{", "block b",
        "apply f", "set a=1", "raw", "try", "break", "whitespace all", "autoescape None", "include 'i0'", "extends 'i0'", "\t", "é"]


def loop_block_cases():
    """systematic: `break` / `continue` next to the constructs that move a body somewhere else.  `{% block %}` inherits
    `in_loop` from its surroundings (template.py _parse), but the body of a block is generated at the place of the block
    of the ROOT template: a child's block that sits inside a loop of the child can land outside every loop (or inside an
    `{% apply %}` function) of the parent.  Also `break` / `continue` inside `finally` of a `try` inside a loop."""
    loops = [("{% for y in l3 %}", "{% end %}"), ("{% set w = t1 %}{% while w %}{% set w = f0 %}", "{% end %}")]
    for kw in ("break", "continue"):
        for stmt in ("{% " + kw + " %}", "{% if t1 %}{% " + kw + " %}{% end %}", "{% if f0 %}{% " + kw + " %}{% end %}"):
            for lo, le in loops:
                def case(files, entry, known=False):
                    c = {"kind": "tpl", "files": files, "entry": entry, "ws": None, "ae": "xhtml_escape", "exec": True, "valid": True,
                         "feat": ["loopblock", "block", "break"]}
                    if known:
                        c["break_in_block"] = True
                    return c
                child = "{% extends \"p.html\" %}{% for q in li %}{% block b1 %}c{{ q }}" + stmt + "d{% end %}{% end %}"
                # A: one file, the block inside the loop
                yield case([["e.html", "a" + lo + "[{% block b1 %}{{ sx }}" + stmt + "z{% end %}]" + le + "c"]], "e.html")
                # B: the parent's block is inside a loop of the parent
                yield case([["p.html", "a" + lo + "[{% block b1 %}p{% end %}]" + le + "c"], ["e.html", child]], "e.html")
                # C: the parent's block is outside every loop          (known finding: SyntaxError instead of ParseError)
                yield case([["p.html", "a[{% block b1 %}p{% end %}]c"], ["e.html", child]], "e.html", known=True)
                # D: the parent's block is inside an apply inside a loop (known finding)
                yield case([["p.html", "a" + lo + "{% apply wrap %}{% block b1 %}p{% end %}{% end %}" + le + "c"], ["e.html", child]],
                           "e.html", known=True)
                # E: the parent's block has the statement, the child overrides it with text
                yield case([["p.html", "a" + lo + "[{% block b1 %}p" + stmt + "r{% end %}]" + le + "c"],
                            ["e.html", "{% extends \"p.html\" %}{% block b1 %}child{% end %}"]], "e.html")
                # G: in the else clause of an inner loop the statement belongs to the outer loop
                yield case([["e.html", "a" + lo + "[{% for q in li %}x{% else %}e" + stmt + "f{% end %}]" + le + "c"]], "e.html")
                yield case([["e.html", "a" + lo + "[{% set u = f0 %}{% while u %}x{% else %}e" + stmt + "f{% end %}]" + le + "c"]], "e.html")
                # F: inside `finally` (with and without an exception on its way)
                for boom in ("", "{{ boom }}"):
                    yield case([["e.html", "a" + lo + "{% try %}t" + boom + "{% finally %}f" + stmt + "g{% end %}z" + le + "c"]], "e.html")
                    yield case([["e.html", "a" + lo + "{% try %}t" + boom + "{% except NameError %}x{% finally %}f" + stmt + "g{% end %}z" + le + "c"]],
                               "e.html")


def gen_cases(rng, tier):
    n = {"quick": 2600, "thorough": 52000, "search": 3000}[tier]
    # dense boundary cases of the reader first (always)
    for t in ["", "{", "a{", "{{", "{%", "{#", "{{!", "{%!", "{#!", "{{!}}", "{{{x}}}", "{{{{x}}}}", "{{{", "{{{{", "{{ }}", "{% %}", "{##}", "{#}", "{%}",
              "{{x}}", "{{x}", "{%end%}", "a\n{{\nx\n}}\nb", "{ {x}}", "{{x}}}", "x{!", "{{ ! }}", "{{ !x }}", "{%! if %}", "{{!{{x}}", "{{{!x}}", "{{{{!",
              "{% raw x %}", "{% comment %}", "{% comment", "a\n\n{% if x %}\n\n", "{% apply %}\n\n{% end %}", "{% block %}\n\n{% end %}",
              "{% autoescape %}{{x}}", "{% whitespace bogus %}", "{% raw %}", "{% module %}", "<pre> a  b </pre>  c  d\n\n e", "{% end\n %}"]:
        yield {"kind": "tpl", "files": [["e.html", t]], "entry": "e.html", "ws": None, "ae": "xhtml_escape", "exec": False, "valid": None}
    # the neighbourhood of "a relative name is resolved against the file that mentions it; the cache is keyed by the
    # resolved name": two directories with the same base names, relative include / extends / include inside an
    # overriding block, every order of earlier loads on the same loader instance
    yield from history_cases(tier)
    yield from loop_block_cases()
    # DictLoader.resolve_path: all short names over {a . /} (and `..` `<`) against a set of parents
    alpha = ["a", ".", "/"]
    names = [""]
    for ln in range(1, 4 if tier != "thorough" else 6):
        names += ["".join(t) for t in __import__("itertools").product(alpha, repeat=ln)]
    parents = [None, "", "p", "d/p", "d/e/p", "/d/p", "<s>", "<s>/p", "d//p", "./p", "../p", "d/../p", "d/", "é/p"]
    for nm in names + ["../a", "../../a", "a/../../b", "<a", "//a/b", "a/b/../c/./d//"]:
        for par in (parents if tier == "thorough" else parents[:9]):
            yield {"kind": "prim", "op": "resolve", "name": nm, "parent": par}
    for _ in range(n):
        k = rng.random()
        ws = rng.choice([None, None, "all", "single", "oneline"])
        ae = rng.choice(["xhtml_escape", "xhtml_escape", None, "escape", "up"])
        if k < 0.55:
            g = TGen(rng, max_depth=rng.choice([2, 3, 4]))
            if rng.random() < 0.45:
                files, entry, decoys = g.loader_dirs()
                case = {"kind": "tpl", "files": files, "entry": entry, "ws": ws, "ae": ae, "exec": True, "valid": True}
                loads = g.loads_for(files, entry, decoys)
                if loads:
                    case["loads"] = loads
                case["feat"] = sorted(g.feat | {"dirs"})
                yield case
                continue
            files, entry = g.loader()
            case = {"kind": "tpl", "files": files, "entry": entry, "ws": ws, "ae": ae, "exec": True, "valid": True, "feat": sorted(g.feat)}
            if rng.random() < 0.15:
                case["loads"] = g.loads_for(files, entry, []) or [entry]
            yield case
        elif k < 0.72:
            g = TGen(rng, max_depth=rng.choice([1, 2, 3]))
            if rng.random() < 0.35:
                files, entry, _ = g.loader_dirs()
            else:
                files, entry = g.loader()
            got = inject_fault(rng, files, entry)
            files, fault = got
            yield {"kind": "tpl", "files": files, "entry": entry, "ws": ws, "ae": ae, "exec": False, "valid": False, "fault": fault}
        elif k < 0.80:
            g = TGen(rng, max_depth=2)
            if rng.random() < 0.25:
                files, entry, _ = g.loader_dirs()
            else:
                files, entry = g.loader()
            files = [f for f in files if f[0] == entry] if rng.random() < 0.5 else files
            fi = rng.randrange(len(files))
            t = files[fi][1]
            for _ in range(rng.randint(1, 3)):
                if not t:
                    break
                i = rng.randrange(len(t))
                m = rng.random()
                if m < 0.5:
                    t = t[:i] + t[i + 1:]
                elif m < 0.8:
                    t = t[:i] + rng.choice(["{", "}", "%", "!", "#", "\n", " "]) + t[i:]
                else:
                    t = t[:i]
            files[fi][1] = t
            if cyclic(files, entry):
                continue        # an edit made a file include itself (RecursionError): outside the language (ASSUMPTIONS)
            yield {"kind": "tpl", "files": files, "entry": entry, "ws": ws, "ae": ae, "exec": False, "valid": None, "mut": True}
        elif k < 0.88:
            t = "".join(rng.choice(SOUP) for _ in range(rng.randint(1, 14)))
            files = [["e.txt", t]] + ([["i0", rng.choice(["inc", "{{x}}", "{% block b %}q{% end %}"])]] if "i0" in t else [])
            yield {"kind": "tpl", "files": files, "entry": "e.txt", "ws": ws, "ae": ae, "exec": False, "valid": None, "soup": True}
        elif k < 0.945:
            t = "".join(rng.choice(TEXT_ATOMS + [" ", "\n", "\t", " \n", "\n ", "  "]) for _ in range(rng.randint(0, 12)))
            yield {"kind": "prim", "op": "filter", "mode": rng.choice(WS_MODES), "text": t}
        elif k < 0.96:
            pa = ["a", "b.html", "..", ".", "", "", "/", "admin", "<s>", " ", "é", "x y", "...", "a.b", "\n", "'"]
            mk = lambda lo, hi: rng.choice(["", "", "/", "//", "///", "./", "../"]) + "/".join(rng.choice(pa) for _ in range(rng.randint(lo, hi)))
            yield {"kind": "prim", "op": "resolve", "name": mk(0, 5), "parent": rng.choice([None, mk(0, 4), mk(1, 3), mk(1, 3)])}
        else:
            b = bytes(rng.choice([39, 34, 92, 10, 13, 9, 0, 65, 127, 128, 255, 32, rng.randrange(256)]) for _ in range(rng.randint(0, 8)))
            yield {"kind": "prim", "op": "repr", "bytes": b.hex()}


def history_cases(tier):
    """systematic: one loader, the same base names at the top level and in sub-directories, a sub-directory template
    that refers to its sibling by relative name, and every order of earlier loads (on the SAME loader instance)."""
    import itertools
    base = {
        "footer.html": "root footer {{ sx }}",
        "base.html": "root base [{% block b1 %}root b1{% end %}]",
        "admin/footer.html": "admin footer {{ n5 }}",
        "admin/base.html": "admin base [{% block b1 %}admin b1{% end %}]",
        "admin/inc/footer.html": "inc footer",
        "../footer.html": "outside footer",
    }
    entries = {
        "admin/page.html": "page: {% include 'footer.html' %}",
        "admin/page2.html": "page2: {% include \"./footer.html\" %}|{% include ../footer.html %}|{% include inc/footer.html %}",
        "admin/child.html": "{% extends 'base.html' %}{% block b1 %}child{% end %}",
        "admin/child2.html": "{% extends \"../base.html\" %}{% block b1 %}child2 {% include 'footer.html' %}{% end %}",
        "admin/inc/deep.html": "{% include '../footer.html' %}+{% include '../../footer.html' %}+{% include footer.html %}",
        "admin/grand.html": "{% extends 'child.html' %}{% block b1 %}grand {% include \"inc/footer.html\" %}{% end %}",
        "top.html": "{% include 'admin/page.html' %}/{% include \"footer.html\" %}/{% include '../footer.html' %}",
        "/abs/page.html": "{% include 'footer.html' %}",
        "<s>/page.html": "{% include 'footer.html' %}{% include admin/footer.html %}",
    }
    allf = dict(base)
    allf.update(entries)
    files = [[k, v] for k, v in allf.items()]
    pre_pool = ["footer.html", "base.html", "admin/footer.html", "admin/base.html", "../footer.html", "admin/inc/footer.html"]
    for entry in entries:
        orders = [()]
        for k in (1, 2):
            orders += list(itertools.permutations(pre_pool[:4], k))
        orders += [tuple(pre_pool), tuple(reversed(pre_pool)), (entry,), ("footer.html", entry, "base.html")]
        orders += [(e2,) for e2 in entries if e2 != entry]
        if tier == "thorough":
            orders += list(itertools.permutations(pre_pool[:4], 3)) + list(itertools.permutations(pre_pool[:4], 4))
        for ws in ([None] if tier != "thorough" else [None, "all"]):
            for o in orders:
                case = {"kind": "tpl", "files": files, "entry": entry, "ws": ws, "ae": "xhtml_escape", "exec": True, "valid": True,
                        "feat": ["dirs", "history"]}
                if o:
                    case["loads"] = list(o)
                yield case


# ----------------------------------------------------------------------------------------------- implementation
_MSG_KIND = [
    (r"Missing \{% end %\} block for ", "missingEnd"), (r"Missing end comment", "missingEndComment"),
    (r"Missing end expression", "missingEndExpr"), (r"Missing end block", "missingEndTag"),
    (r"Empty expression", "emptyExpr"), (r"Empty block tag", "emptyBlock"),
    (r"\w+ outside \{.*\} block", None), (r"\w+ block cannot be attached to", "interNotAttachable"),
    (r"Extra \{% end %\} block", "extraEnd"), (r"extends missing file path", "extendsMissing"),
    (r"import missing statement", "importMissing"), (r"include missing file path", "includeMissing"),
    (r"set missing statement", "setMissing"), (r"autoescape missing", "autoescapeMissing"),
    (r"invalid whitespace mode", "badWhitespace"), (r"raw missing", "rawMissing"), (r"module missing", "moduleMissing"),
    (r"apply missing method name", "applyMissing"), (r"block missing name", "blockMissing"),
    (r"unknown operator", "unknownOp"),
]


def _err_kind(msg):
    for pat, kind in _MSG_KIND:
        if re.match(pat, msg):
            if kind is None:
                return "breakOutside" if re.match(r"(break|continue) ", msg) else "interOutside"
            return kind
    return "other:" + msg[:30]


def run_template(case, env=None):
    """shared with C20: compile through a DictLoader, capture Template.code of the entry, optionally generate()"""
    import logging
    from tornado import template as T
    logging.getLogger("tornado.application").disabled = True
    codes = {}
    orig = T.Template._generate_python

    def patched(self, loader):
        code = orig(self, loader)
        codes[self.name] = code
        return code

    T.Template._generate_python = patched
    syntax = []
    import builtins

    def soft_compile(src, fname, *a, **k):
        # keep going when a generated module is not valid Python (CPython's verdict is recorded, not raised), so that
        # the order in which a loader happens to compile its templates does not hide the entry's generated source
        try:
            return builtins.compile(src, fname, *a, **k)
        except (SyntaxError, ValueError) as e:
            syntax.append(type(e).__name__)
            return builtins.compile("", fname, *a, **k)

    T.compile = soft_compile
    try:
        loader = T.DictLoader(dict((n, t) for n, t in case["files"]), autoescape=case["ae"], whitespace=case["ws"])
        def one(name):
            res = {}
            tpl = None
            nsyn = len(syntax)
            try:
                tpl = loader.load(name)
                res["compile"] = ["code", tpl.code.split("\n")[:-1] if tpl.code.endswith("\n") else tpl.code.split("\n")]
            except T.ParseError as e:
                res["compile"] = ["ParseError", _err_kind(e.message), e.filename, e.lineno]
            except Exception as e:
                res["compile"] = ["Raised", type(e).__name__]
            if len(syntax) > nsyn:
                res["syntax_error"] = syntax[nsyn]
            if tpl is not None and case.get("exec") and not syntax:
                try:
                    out = tpl.generate(**env_kwargs(env if env is not None else STD_ENV))
                    res["render"] = ["out", out.hex()]
                except Exception as e:
                    res["render"] = ["Raised", type(e).__name__]
            return res

        # earlier loads on the SAME loader instance (the cache BaseLoader.templates is carried along), then the entry
        pre = [one(name) for name in case.get("loads", [])]
        res = one(case["entry"])
        if pre:
            res["pre"] = pre
        return res
    finally:
        T.Template._generate_python = orig
        del T.compile


def run_impl(case):
    if case["kind"] == "prim":
        from tornado.template import filter_whitespace
        if case["op"] == "filter":
            return {"out": filter_whitespace(case["mode"], case["text"])}
        if case["op"] == "resolve":
            from tornado.template import DictLoader
            return {"out": DictLoader({}).resolve_path(case["name"], parent_path=case["parent"])}
        return {"out": repr(bytes.fromhex(case["bytes"]))}
    return run_template(case)


# ----------------------------------------------------------------------------------------------- model / spec
def compile_line(case):
    if case.get("loads"):
        return line(ID, "compileseq", case["ws"], case["ae"], list(case["loads"]) + [case["entry"]], case["files"])
    return line(ID, "compile", case["ws"], case["ae"], case["entry"], case["files"])


def render_line(case, env=None, entry=None):
    return line(ID, "render", case["ws"], case["ae"], entry if entry is not None else case["entry"], case["files"],
                env_wire(env if env is not None else STD_ENV))


def model_requests(case, impl):
    if case["kind"] == "prim":
        if case["op"] == "filter":
            return [line(ID, "filter", case["mode"], case["text"])]
        if case["op"] == "resolve":
            return [line(ID, "resolve", case["name"], case["parent"])]
        return [line(ID, "repr", bytes.fromhex(case["bytes"]))]
    if _loopok_case(case):
        return [compile_line(case), line(ID, "loopok", case["ws"], case["ae"], case["entry"], case["files"])]
    return [compile_line(case)]


def _loopok_case(case):
    """well-formed templates (one load): CPython's verdict on the generated module is compared with Spec.loopOK"""
    return case["kind"] == "tpl" and case.get("valid") is True and not case.get("loads")


def norm_reply(reply):
    st, vals = parse_reply(reply)
    assert st == "ok", reply
    out = []
    for v in vals:
        if isinstance(v, Atom):
            out.append(str(v))
        elif isinstance(v, bytes):
            out.append(v.hex())
        elif isinstance(v, list):
            out.append(["".join(map(chr, x)) if isinstance(x, list) else x for x in v])
        else:
            out.append(v)
    return out


def _norm_outcome(o):
    o = [str(x) if isinstance(x, Atom) else x for x in o]
    if o[0] == "code":
        # expressions may span lines: compare the source text, not the writer's calls
        lines = ["".join(map(chr, x)) if isinstance(x, list) else x for x in o[1]]
        return ["code", "\n".join(lines).split("\n")]
    return o


def model_result(case, replies):
    if case["kind"] == "tpl" and case.get("loads"):
        st, vals = parse_reply(replies[0])
        assert st == "ok", replies[0]
        return [_norm_outcome(o) for o in vals]        # one outcome per load, the entry last
    r = norm_reply(replies[0])
    if case["kind"] == "prim":
        return r[0]
    if _loopok_case(case):
        return [_norm_outcome(r), norm_reply(replies[1])[0]]
    return _norm_outcome(r)


def impl_view(case, impl):
    if case["kind"] == "prim":
        return impl["out"]
    if case.get("loads"):
        return [p["compile"] for p in impl.get("pre", [])] + [impl["compile"]]
    if _loopok_case(case):
        return [impl["compile"], "N" if impl["compile"][0] != "code" else ("F" if "syntax_error" in impl else "T")]
    return impl["compile"]


def spec_requests(case, impl):
    if case["kind"] != "tpl":
        return []
    if case.get("fault"):
        f = case["fault"]
        text = dict(map(tuple, case["files"]))[f["file"]]
        return [line(ID, "lineat", text, f["lo_off"]), line(ID, "lineat", text, f["hi_off"])]
    if case.get("exec") and case.get("valid") and "render" in impl:
        # the language defines the output of a template from the loader's sources alone: every template loaded
        # earlier on the same instance is interpreted on its own, and so is the entry
        return [render_line(case)] + [render_line(case, entry=n) for n, p in zip(case.get("loads", []), impl.get("pre", []))
                                      if "render" in p]
    return []


def spec_violation(case, impl, replies):
    if case["kind"] == "prim" and case["op"] == "filter":
        from tornado.template import filter_whitespace
        once = impl["out"]
        if filter_whitespace(case["mode"], once) != once:
            return "filter_whitespace(%s) is not idempotent on %r" % (case["mode"], case["text"])
        if case["mode"] == "all" and once != case["text"]:
            return "filter_whitespace(all) changed the text"
        return None
    if case["kind"] != "tpl":
        return None
    c = impl["compile"]
    if case.get("fault"):
        f = case["fault"]
        lo, hi = norm_reply(replies[0])[0], norm_reply(replies[1])[0]
        if c[0] != "ParseError":
            return "malformed template (%s) did not raise ParseError but %s" % (
                f["kind"], c[1] if c[0] == "Raised" else impl.get("syntax_error", "compiled"))
        if c[2] != f["file"]:
            return "ParseError (%s) names file %r, the malformed directive is in %r" % (f["kind"], c[2], f["file"])
        if not (lo <= c[3] <= hi):
            return "ParseError (%s) names line %d, the malformed directive spans lines %d..%d" % (f["kind"], c[3], lo, hi)
        return None
    if case.get("valid"):
        if c[0] == "ParseError":
            return "well-formed template rejected: ParseError %s" % c[1]
        if c[0] == "Raised" or "syntax_error" in impl:
            return "well-formed template failed to compile: %s" % (c[1] if c[0] == "Raised" else impl["syntax_error"])
        if case.get("exec"):
            want = norm_reply(replies[0])
            got = impl["render"]
            if want != got:
                return "generate() gave %s, direct interpretation gives %s%s" % (
                    _short(got), _short(want), " (after loading %s on the same loader)" % ", ".join(case["loads"]) if case.get("loads") else "")
            k = 1
            for n, p in zip(case.get("loads", []), impl.get("pre", [])):
                if "render" in p:
                    want = norm_reply(replies[k])
                    k += 1
                    if want != p["render"]:
                        return "generate() of %s (loaded before the entry) gave %s, direct interpretation gives %s" % (
                            n, _short(p["render"]), _short(want))
                elif p["compile"][0] == "ParseError" or "syntax_error" in p:
                    return "well-formed template %s (loaded before the entry) failed to compile: %s" % (n, p["compile"][1])
    return None


def _short(r):
    if r[0] == "out":
        try:
            return "out %r" % bytes.fromhex(r[1])[:300]
        except Exception:
            return str(r)[:300]
    return " ".join(map(str, r))


def nontrivial(case, impl):
    if case["kind"] != "tpl":
        if case.get("op") == "resolve":
            return bool(case["parent"]) and "/" in (case["name"] + case["parent"])
        return len(case.get("text", case.get("bytes", ""))) > 2
    if impl["compile"][0] == "ParseError":
        return True
    if len(case["files"]) >= 2:
        return True
    t = case["files"][0][1]
    return len(re.findall(r"\{%|\{\{", t)) >= 3


def stats(case, impl):
    if case["kind"] == "prim":
        return ["kind:prim:" + case["op"]]
    if case.get("loads") is not None:
        pre_stat = ["loads:%d" % min(6, len(case["loads"]))]
    else:
        pre_stat = ["loads:none"]
    out = ["kind:" + ("valid" if case.get("valid") else "fault" if case.get("fault") else "mut" if case.get("mut") else "soup" if case.get("soup") else "edge")]
    c = impl["compile"]
    out.append("compile:" + c[0] + (":" + str(c[1]) if c[0] != "code" else ""))
    if "render" in impl:
        out.append("render:" + (impl["render"][0] if impl["render"][0] == "out" else impl["render"][1]))
    out.append("files:%d" % min(8, len(case["files"])))
    out += pre_stat
    if any("/" in f[0] for f in case["files"]):
        out.append("names:dirs")
    out.append("ws:%s" % case["ws"])
    for f in case.get("feat", []):
        out.append("feat:" + f)
    if case.get("fault"):
        out.append("fault:" + case["fault"]["kind"])
    if c[0] == "code":
        out.append("lines:%d" % (min(200, len(c[1])) // 20 * 20))
    return out


def _break_and_block(case):
    """some file has a `{% block %}` and a `{% break %}` / `{% continue %}`"""
    return any(re.search(r"\{%\s*block\b", t) and re.search(r"\{%\s*(break|continue)\s*%\}", t) for _, t in case.get("files", []))


def signature(case, impl, why):
    if case.get("fault"):
        k = case["fault"]["kind"]
        if "did not raise ParseError" in why:
            return "fault/%s/no-ParseError" % k
        if "names file" in why:
            return "fault/%s/wrong-file" % k
        return "fault/%s/wrong-line" % k
    if "rejected" in why:
        return "valid/rejected"
    if "failed to compile" in why:
        if (case.get("break_in_block") or _break_and_block(case)) and why.endswith("SyntaxError"):
            return "valid/compile-error/break-in-moved-block"
        return "valid/compile-error"
    if "direct interpretation" in why:
        return "valid/output-differs"
    return "other/" + re.sub(r"[^a-zA-Z]+", "-", why)[:40]


def shrink(case):
    if case["kind"] != "tpl":
        return
    files = case["files"]
    if case.get("valid") is None:
        for fi, (n, t) in enumerate(files):
            step = max(1, len(t) // 8)
            for i in range(0, len(t), step):
                nf = [list(f) for f in files]
                nf[fi][1] = t[:i] + t[i + step:]
                yield {**case, "files": nf}
        return
    # generated cases: fewer earlier loads; drop files that are not referenced any more
    for i in range(len(case.get("loads", []))):
        yield {**case, "loads": case["loads"][:i] + case["loads"][i + 1:]}
    # generated cases: only drop files that are not referenced any more
    keep = set()
    for n in list(case.get("loads", [])) + [case["entry"]]:
        keep |= reachable(files, n)
    for fi, (n, t) in enumerate(files):
        if n not in keep:
            yield {**case, "files": files[:fi] + files[fi + 1:]}


def describe(case):
    return case
