"""C14 — WebSocket messages arrive intact and in order under every configuration.

A case is a *script*: messages (text/binary, payload spec, compressed or not, fragmentation cuts, ping/pong
frames in the gaps) + a permessage-deflate configuration + masking direction + a TCP segmentation.
run_impl:  a real sending `WebSocketProtocol13` (real `_write_frame`/`write_message`/compressor, masks from a
           recorded `os.urandom`) produces the wire bytes; a real receiving `WebSocketProtocol13` over
           `FakeStream` + `vloop` is fed those bytes in the scripted segments and its handler calls are recorded,
           together with every call of its zlib decompressor.
model:     `encodeFrame` over the same frame list must give the same wire bytes; `runBytes` over the wire bytes
           (decompressor = the recorded calls) must give the same events / status / written bytes; `runFrames`
           over the frame list too; `Spec.scriptFrames` must give the same frame list.
oracle:    delivered messages == sent messages (Spec.expected), connection still open.
This module is also the library of c15.py (same receive machine).
"""
import asyncio, os, random, struct, zlib
from core.wire import atom, line, parse_reply, Atom

ID = "C14"
LEAN_TARGETS = ["TornadoModel.C14.Props"]
THEOREMS = [
    "TornadoModel.C14.mask_involution",
    "TornadoModel.C14.frame_roundtrip",
    "TornadoModel.C14.write_frame_roundtrip",
    "TornadoModel.C14.stepBytes_encode",
    "TornadoModel.C14.runBytes_encode",
    "TornadoModel.C14.runBytes_fuel_indep",
    "TornadoModel.C14.control_frames_transparent",
    "TornadoModel.C14.message_intact",
    "TornadoModel.C14.messages_intact",
    "TornadoModel.C14.messages_intact_bytes",
    "TornadoModel.C14.segmentation_independent",
    "TornadoModel.C14.segmentations_agree",
]
TRUSTED = [
    "zlib: the (compress, decompress) pair is a parameter with the contract Spec.Codec (decompress after compress "
    "is the identity for matched histories); the tie runs the real zlib objects and feeds their recorded calls to the model",
    "IOStream.read_bytes delivers exactly the next n bytes whatever the segmentation (property C11); the tie feeds "
    "every script under several segmentations",
    "CPython bytes.decode('utf-8') strictness as modelled by validUtf8 (tied on every text message and on a malformed corpus)",
]
ASSUMPTIONS = [
    "model = tornado/websocket.py after the three fix: commits recorded in known_findings/C14.json (run with VERIF_REPO=<fixed tree>)",
    "the receiving handler's callbacks return None and do not raise; close frames carry a valid UTF-8 reason",
    "payloads with RSV1 are genuine outputs of the sender's zlib compressor (a corrupt deflate stream raises zlib.error "
    "out of _receive_frame_loop: observed, listed in docs/C14.md, outside the property's list)",
    "max_message_size > 0; receiving side is the server side (unmasked pong/close echo); both masking directions on the sender",
]
RULE = ("scripts of 1-6 messages over length classes {0,1,125,126,127,65535,65536,~100k} x compressible/incompressible x "
        "text/binary, deflate off / takeover on-off / window bits 9-15 / levels, masked or not, fragmentations with "
        "ping/pong in the gaps, segmentations (whole, fixed-size, random cuts, byte-wise); non-trivial = at least one "
        "message is fragmented or compressed or >125 bytes; distinct by canonical JSON")
EXHAUSTIVE = {"quick": False, "thorough": False}
CLAUSES = {
    "any length incl. 0/125/126/65535/65536, either masking direction": "frame_roundtrip + write_frame_roundtrip + mask_involution (every length < 2^64)",
    "same messages in the same order": "messages_intact (frames) + messages_intact_bytes (wire bytes)",
    "any permessage-deflate configuration": "messages_intact under the contract Spec.Codec; zlib parameters: tie only",
    "fragmented messages with interleaved control frames": "messages_intact (every chunking, every ping/pong list before every fragment) + control_frames_transparent",
    "any TCP segmentation": "segmentation_independent + segmentations_agree (the receive loop fed segment by segment, pending bytes of an "
        "incomplete frame kept, = the loop on the reassembled stream, for every split); that IOStream.read_bytes hands over exactly "
        "the next n bytes is C11, and every script is also fed to the real receiver under several segmentations",
}
PARALLEL = False     # 850 cases take ~5 s sequentially; the fork pool was slower than that on a loaded machine
CASE_TIMEOUT = 60
LEVEL_NOTE = "frame codec, receive machine and TCP-segmentation independence of the receive loop proved for all inputs; zlib by correspondence"
TECHNIQUE = "Lean 4 model of _write_frame/_receive_frame/_handle_message + correspondence against real protocol objects over a fake transport"

LENS = [0, 1, 2, 5, 124, 125, 126, 127, 128, 300, 4000]
BIG_LENS = [65535, 65536, 65537, 100000]
ALPHA = "abcXYZ 09\n\x7féÿĀ߿ࠀ€퟿￿\U00010000\U0001f600\U0010ffff"


# ------------------------------------------------------------------------------------------- payloads
def payload(spec):
    k = spec[0]
    if k == "hex":
        return bytes.fromhex(spec[1])
    if k == "rep":
        pat = bytes.fromhex(spec[1]) or b"\x00"
        n = spec[2]
        return (pat * (n // len(pat) + 1))[:n]
    if k == "rnd":
        return random.Random(spec[1]).randbytes(spec[2])
    if k == "txt":
        r = random.Random(spec[1])
        n = spec[2]
        out, size = [], 0
        while size + 4 <= n:
            c = r.choice(ALPHA)
            out.append(c)
            size += len(c.encode("utf-8"))
        return "".join(out).encode("utf-8") + b"a" * (n - size)
    if k == "word":
        r = random.Random(spec[1])
        words = [b"lorem", b"ipsum", b"dolor", b"sit", b"amet", b"\xc3\xa9t\xc3\xa9", b"{\"k\":", b"12345"]
        out = bytearray()
        while len(out) < spec[2]:
            out += r.choice(words) + b" "
        return bytes(out[:spec[2]]).decode("utf-8", "ignore").encode("utf-8").ljust(spec[2], b".")
    raise AssertionError(spec)


def rand_payload_spec(rng, n, text):
    k = rng.random()
    if text:
        if k < 0.4:
            return ["txt", rng.randrange(1 << 30), n]
        if k < 0.8:
            return ["word", rng.randrange(1 << 30), n]
        return ["rep", rng.choice(["61", "6162", "20"]), n]
    if k < 0.4:
        return ["rnd", rng.randrange(1 << 30), n]
    if k < 0.6:
        return ["rep", rng.choice(["00", "ff", "0001", "deadbeef", "80"]), n]
    if k < 0.8:
        return ["word", rng.randrange(1 << 30), n]
    return ["txt", rng.randrange(1 << 30), n]


# ------------------------------------------------------------------------------------------- frames
def py_encode(f):
    """harness-side frame encoder (needed for length forms / bit patterns `_write_frame` never produces);
    it is itself compared with the model's encodeFrame on every case."""
    pl = f["payload"]
    b0 = (0x80 if f["fin"] else 0) | (f["rsv"] << 4) | f["op"]
    mb = 0x80 if f["mask"] is not None else 0
    n = len(pl)
    if f["ext"] == 0:
        assert n < 126
        h = bytes([b0, mb | n])
    elif f["ext"] == 1:
        h = bytes([b0, mb | 126]) + struct.pack("!H", n)
    else:
        h = bytes([b0, mb | 127]) + struct.pack("!Q", n)
    if f["mask"] is not None:
        m = f["mask"]
        return h + m + bytes(b ^ m[i & 3] for i, b in enumerate(pl))
    return h + pl


def min_ext(n):
    return 0 if n < 126 else 1 if n <= 0xFFFF else 2


def wframe(f):
    return [atom(bool(f["fin"])), f["rsv"], f["op"], f["ext"], f["mask"], f["payload"]]


class Stub:
    """the receiving application (`_WebSocketDelegate`)"""

    def __init__(self):
        self.ev = []
        self.closed = None

    def on_message(self, m):
        self.ev.append(["M", isinstance(m, str), (m.encode("utf-8", "surrogatepass") if isinstance(m, str) else bytes(m)).hex()])

    def on_ping(self, d):
        self.ev.append(["PING", bytes(d).hex()])

    def on_pong(self, d):
        self.ev.append(["PONG", bytes(d).hex()])

    def on_ws_connection_close(self, code=None, reason=None):
        self.closed = [code, reason]

    def log_exception(self, *a):
        self.ev.append(["LOGEXC", getattr(a[0], "__name__", str(a[0]))])


class _OsShim:
    def __init__(self, seed):
        self._r = random.Random(seed)
        self.masks = []

    def urandom(self, n):
        b = self._r.randbytes(n)
        self.masks.append(b)
        return b

    def __getattr__(self, name):
        return getattr(os, name)


def deflate_args(d):
    """-> (agreed_parameters, compression_options) shared by both ends; the sender is side d['side']"""
    agreed = {}
    for side in ("client", "server"):
        if d.get(side + "_nct"):
            agreed[side + "_no_context_takeover"] = None
        if d.get(side + "_wbits") is not None:
            agreed[side + "_max_window_bits"] = str(d[side + "_wbits"])
    opts = {}
    if d.get("level") is not None:
        opts["compression_level"] = d["level"]
    if d.get("mem") is not None:
        opts["mem_level"] = d["mem"]
    return agreed, opts


def build_wire(case, lp):
    """run the real sending side.  -> frames (dicts, payload = unmasked wire payload), wire bytes, sent messages,
    spec table [(compressed, plain)], script in Spec.SMsg form"""
    from tornado import websocket
    from tornado.websocket import WebSocketProtocol13, _WebSocketParams
    from core.faketransport import FakeStream
    d = case.get("deflate")
    side = (d or {}).get("side", "client")
    masked = bool(case.get("mask"))
    agreed, opts = deflate_args(d) if d else ({}, None)
    sender = WebSocketProtocol13(Stub(), mask_outgoing=masked,
                                 params=_WebSocketParams(compression_options=opts if d else None))
    out = FakeStream(lp.io_loop)
    sender.stream = out
    if d:
        sender._create_compressors(side, agreed, opts)
    shim = _OsShim(case.get("mseed", 1))
    frames, sent, table, smsgs = [], [], [], []
    old_os = websocket.os
    websocket.os = shim
    try:
        def emit(fin, op, data, rsv, how="frame"):
            n0 = len(shim.masks)
            if how == "ping":
                sender.write_ping(data)
            elif how == "frame":
                sender._write_frame(fin, op, data, flags=rsv << 4)
            mask = shim.masks[n0] if masked else None
            assert len(shim.masks) == n0 + (1 if masked else 0)
            frames.append({"fin": fin, "rsv": rsv, "op": op, "ext": min_ext(len(data)), "mask": mask, "payload": bytes(data)})
            return mask

        def ctls(lst):
            res = []
            for c in lst:
                data = bytes.fromhex(c[1])
                m = emit(True, c[0], data, 0, "ping" if c[0] == 9 and c[2:] != ["raw"] else "frame")
                res.append([c[0], data, m])
            return res

        for item in case["script"]:
            text = item["text"]
            data = payload(item["p"])
            z = bool(d) and item.get("z", True)
            pre0 = ctls(item.get("pre", []))
            cuts = sorted(set(item.get("cuts", [])))
            if not cuts and item.get("api", True) and (z or not d):
                n0 = len(shim.masks)
                fut = sender.write_message(data.decode("utf-8") if text else data, binary=not text)
                mask = shim.masks[n0] if masked else None
                lp.drain()
                wire_payload = None
            else:
                wire_payload = sender._compressor.compress(data) if z else data
            if wire_payload is None:
                # recover the wire payload of the frame write_message produced (needed for the frame list)
                raw = bytes(out.written)
                try:
                    f, rest = py_parse(raw[sum(len(py_encode(x)) for x in frames):])
                except Exception:     # a broken sender: keep going, the receiver and the model encoder will tell
                    f = {"fin": True, "rsv": 4 if z else 0, "op": 1 if text else 2, "ext": 0, "mask": mask, "payload": b""}
                frames.append(f)
                wire_payload = f["payload"]
                parts = [[pre0, wire_payload, mask, f["ext"]]]
            else:
                cuts = [c for c in cuts if 0 <= c <= len(wire_payload)]
                bounds = [0] + cuts + [len(wire_payload)]
                chunks = [wire_payload[bounds[i]:bounds[i + 1]] for i in range(len(bounds) - 1)]
                gaps = item.get("gaps", {})
                parts = []
                for i, ch in enumerate(chunks):
                    pre = pre0 if i == 0 else ctls(gaps.get(str(i), []))
                    m = emit(i == len(chunks) - 1, (1 if text else 2) if i == 0 else 0, ch, 4 if (z and i == 0) else 0)
                    parts.append([pre, ch, m, min_ext(len(ch))])
            if z:
                table.append((wire_payload, data))
            sent.append([text, data.hex()])
            smsgs.append(("msg", [atom(bool(text)), data, atom(bool(z)), parts]))
        lp.drain()
    finally:
        websocket.os = old_os
    return frames, bytes(out.written), sent, table, smsgs


def py_parse(b):
    """harness-side parser for one frame (only used to recover what write_message wrote)"""
    b0, b1 = b[0], b[1]
    n = b1 & 0x7F
    i = 2
    ext = 0
    if n == 126:
        n = struct.unpack("!H", b[2:4])[0]; i = 4; ext = 1
    elif n == 127:
        n = struct.unpack("!Q", b[2:10])[0]; i = 10; ext = 2
    mask = None
    if b1 & 0x80:
        mask = b[i:i + 4]; i += 4
    pl = b[i:i + n]
    if mask is not None:
        pl = bytes(x ^ mask[j & 3] for j, x in enumerate(pl))
    return ({"fin": bool(b0 & 0x80), "rsv": (b0 >> 4) & 7, "op": b0 & 15, "ext": ext, "mask": mask, "payload": pl},
            b[i + n:])


def segments(seg, wire):
    k = seg[0]
    if k == "all":
        return [wire] if wire else []
    if k == "each":
        n = max(1, seg[1])
        return [wire[i:i + n] for i in range(0, len(wire), n)]
    if k == "cuts":
        cs = sorted(set(c for c in seg[1] if 0 < c < len(wire)))
        bounds = [0] + cs + [len(wire)]
        return [wire[bounds[i]:bounds[i + 1]] for i in range(len(bounds) - 1)]
    if k == "frac":
        r = random.Random(seg[1])
        cs = sorted(set(r.randrange(1, max(2, len(wire))) for _ in range(seg[2])))
        return segments(["cuts", cs], wire)
    raise AssertionError(seg)


def max_of(case, table=None, frames=None):
    return case.get("max", 10 * 1024 * 1024)


def receive(case, lp, wire, maxsize=None):
    """feed `wire` (already truncated if the case has a TCP cut) to a real receiving protocol object."""
    from tornado.websocket import WebSocketProtocol13, _WebSocketParams, _DecompressTooLargeError
    from core.faketransport import FakeStream
    d = case.get("deflate")
    side = (d or {}).get("side", "client")
    agreed, opts = deflate_args(d) if d else ({}, None)
    st = Stub()
    p = WebSocketProtocol13(st, mask_outgoing=False,
                            params=_WebSocketParams(max_message_size=maxsize or max_of(case),
                                                    compression_options=opts if d else None))
    s = FakeStream(lp.io_loop)
    p.stream = s
    calls = []
    if d:
        p._create_compressors("server" if side == "client" else "client", agreed, opts)
        real = p._decompressor.decompress

        def rec(data):
            try:
                r = real(data)
            except _DecompressTooLargeError:
                calls.append([bytes(data).hex(), "TOOLARGE"])
                raise
            except zlib.error:
                calls.append([bytes(data).hex(), "ERROR"])
                raise
            calls.append([bytes(data).hex(), bytes(r).hex()])
            return r
        p._decompressor.decompress = rec
    aborted = []
    real_abort = p._abort

    def abort():
        aborted.append(1)
        real_abort()
    p._abort = abort
    task = asyncio.ensure_future(p._receive_frame_loop())
    lp.drain()
    for sg in segments(case.get("segs", ["all"]), wire):
        s.feed(sg)
        lp.drain()
    if case.get("eof"):
        s.feed_eof()
        lp.drain()
    timers = len(lp.live_timers())
    uncaught = None
    if task.done():
        exc = None if task.cancelled() else task.exception()
        if exc is not None:
            status, uncaught = "CRASHED", type(exc).__name__
        else:
            status = "ABORTED" if aborted else "CLOSED"
    else:
        status = "OPEN"
    return {"events": st.ev, "status": status, "uncaught": uncaught, "stream_closed": bool(s.closed()),
            "written": bytes(s.written).hex(), "on_close": st.closed, "calls": calls, "timers": timers,
            "leftover": s._read_buffer_size + sum(len(c) for c in s.incoming)}


def run_impl(case):
    from core import vloop
    with vloop.installed() as lp:
        frames, wire, sent, table, smsgs = build_wire(case, lp)
        # the receiving side must tell "closed by a close frame" from "aborted": instrument nothing, derive it from
        # the frame the peer was sent (a close echo is written only for a received close frame or 1009)
        cut = case.get("cut")
        fed = wire if cut is None else wire[:max(0, min(len(wire), cut))]
        mx = max_of(case)
        if case.get("max_fit"):
            # tight limit: the largest message (on the wire and after decompression) is exactly at the limit
            mx = max([125] + [len(d) // 2 for t, d in sent] + [sum(len(pt[1]) for pt in m[1][3]) for m in smsgs])
        r = receive(case, lp, fed, mx)
    return {"max": mx, "frames": [[f["fin"], f["rsv"], f["op"], f["ext"], None if f["mask"] is None else f["mask"].hex(), f["payload"].hex()]
                       for f in frames],
            "wire": wire.hex(), "fed": len(fed), "sent": sent, "table": [[a.hex(), b.hex()] for a, b in table],
            "smsgs": _hexify(smsgs), "recv": r}


def _hexify(x):
    if isinstance(x, (bytes, bytearray)):
        return {"hex": bytes(x).hex()}
    if isinstance(x, Atom):
        return {"atom": str(x)}
    if isinstance(x, (list, tuple)):
        return [_hexify(y) for y in x]
    return x


def _unhex(x):
    if isinstance(x, dict) and "hex" in x:
        return bytes.fromhex(x["hex"])
    if isinstance(x, dict) and "atom" in x:
        return Atom(x["atom"])
    if isinstance(x, list):
        return [_unhex(y) for y in x]
    return x


# ------------------------------------------------------------------------------------------- model side
def wire_frames(impl):
    return [[atom(bool(f[0])), f[1], f[2], f[3], None if f[4] is None else bytes.fromhex(f[4]), bytes.fromhex(f[5])]
            for f in impl["frames"]]


def wire_table(calls):
    return [[bytes.fromhex(i), Atom(o) if o in ("TOOLARGE", "ERROR") else bytes.fromhex(o)] for i, o in calls]


def cfg_of(case, impl):
    return [atom(bool(case.get("deflate"))), impl["max"]]


def model_requests(case, impl):
    if "harness_exc" in impl:
        return []
    wire = bytes.fromhex(impl["wire"])
    fed = wire[:impl["fed"]]
    tbl = wire_table(impl["recv"]["calls"])
    eof = atom(bool(case.get("eof")))
    reqs = [line(ID, "enc", wire_frames(impl)),
            line(ID, "recv", cfg_of(case, impl), fed, eof, tbl)]
    if len(wire) > 30000:
        return reqs      # large payloads: the two principal lines only (the driver costs ~2 us per hex digit)
    if impl["fed"] == len(wire):
        reqs.append(line(ID, "frames", cfg_of(case, impl), wire_frames(impl), eof, tbl))
    reqs.append(line(ID, "send", [m for k, m in _unhex(impl["smsgs"])]))
    return reqs


def _events(v):
    out = []
    for e in v:
        k = str(e[0])
        if k == "M":
            out.append(["M", str(e[1]) == "T", e[2].hex()])
        elif k in ("PING", "PONG"):
            out.append([k, e[1].hex()])
        elif k == "CLOSE":
            out.append(["CLOSE", e[1], e[2].hex()])
        elif k == "ABORT":
            out.append(["ABORT", str(e[1])])
        else:
            out.append([k])
    return out


def _model_recv(reply):
    st, vals = parse_reply(reply)
    assert st == "ok", reply
    evs = _events(vals[0])
    return {"events": [e for e in evs if e[0] in ("M", "PING", "PONG")],
            "status": str(vals[1]), "written": vals[2].hex(),
            "close": next(([e[1], e[2]] for e in evs if e[0] == "CLOSE"), None),
            "abort": next((e[1] for e in evs if e[0] == "ABORT"), None),
            "uncaught": any(e[0] == "UNCAUGHT" for e in evs)}


def impl_view(case, impl):
    r = impl["recv"]
    abort = None
    if r["status"] == "ABORTED":
        w = bytes.fromhex(r["written"])
        abort = "BIGAFTER" if w.endswith(b"after decompression") else "BIG" if w.endswith(b"message too big") else "PLAIN"
    return {"wire": impl["wire"], "events": r["events"], "status": r["status"], "written": r["written"],
            "close": _impl_close(r), "abort": abort, "uncaught": r["uncaught"] is not None,
            "frames_agree": True, "send_agree": True}


def _impl_close(r):
    if r["status"] != "CLOSED":
        return None
    code, reason = r["on_close"]
    return [code, (reason or "").encode("utf-8").hex()]


# model_result must be comparable with impl_view: fold the secondary replies (frames / send) into agreement flags
def model_result(case, replies):
    st, vals = parse_reply(replies[0])
    assert st == "ok", replies[0]
    res = {"wire": vals[0].hex()}
    main = _model_recv(replies[1])
    res.update(main)
    res["frames_agree"] = True
    res["send_agree"] = True
    for rp in replies[2:]:
        st, vals = parse_reply(rp)
        assert st == "ok", rp
        if len(vals) == 3:      # frames
            res["frames_agree"] = (_model_recv(rp) == main) or {"frames": _model_recv(rp)}
        else:                   # send: the Spec's frame list, re-encoded by the harness encoder
            got = b"".join(py_encode({"fin": str(f[0]) == "T", "rsv": f[1], "op": f[2], "ext": f[3], "mask": f[4],
                                      "payload": f[5]}) for f in vals[0])
            res["send_agree"] = (got.hex() == res["wire"]) or "Spec.scriptFrames differs from the frames sent"
    return res


# ------------------------------------------------------------------------------------------- oracle
def spec_requests(case, impl):
    if "harness_exc" in impl:
        return []
    msgs = [m for k, m in _unhex(impl["smsgs"]) if k == "msg"]
    return [line(ID, "expect", msgs)]


def spec_violation(case, impl, replies):
    st, vals = parse_reply(replies[0])
    assert st == "ok", replies[0]
    want = [[str(t) == "T", d.hex()] for t, d in vals[0]]
    assert want == impl["sent"], "Spec.expected disagrees with the harness's own record of what was sent"
    r = impl["recv"]
    got = [[e[1], e[2]] for e in r["events"] if e[0] == "M"]
    complete = impl["fed"] == len(bytes.fromhex(impl["wire"]))
    if not complete:
        # TCP cut: what was delivered must be a prefix of what was sent
        if got != want[:len(got)]:
            return "after a TCP cut the delivered messages are not a prefix of the sent ones: %s" % _diff(want, got)
        return None
    if got != want:
        return "delivered != sent: %s (status %s)" % (_diff(want, got), r["status"])
    if r["status"] != "OPEN" and not case.get("eof"):
        return "connection not open after a valid sequence: %s" % r["status"]
    return None


def _diff(want, got):
    for i, (w, g) in enumerate(zip(want, got)):
        if w != g:
            return "message %d: sent %s %d bytes %s.., got %s %d bytes %s.." % (
                i, "text" if w[0] else "binary", len(w[1]) // 2, w[1][:24], "text" if g[0] else "binary", len(g[1]) // 2, g[1][:24])
    return "sent %d messages, delivered %d" % (len(want), len(got))


# ------------------------------------------------------------------------------------------- generators
def rand_deflate(rng):
    k = rng.random()
    if k < 0.3:
        return None
    d = {"side": rng.choice(["client", "server"])}
    for side in ("client", "server"):
        if rng.random() < 0.4:
            d[side + "_nct"] = True
        if rng.random() < 0.5:
            d[side + "_wbits"] = rng.randint(9, 15)
    if rng.random() < 0.5:
        d["level"] = rng.choice([0, 1, 6, 9, -1])
    if rng.random() < 0.2:
        d["mem"] = rng.choice([1, 5, 9])
    return d


def rand_ctl(rng):
    op = rng.choice([9, 9, 10])
    n = rng.choice([0, 0, 1, 2, 5, 124, 125])
    data = rng.randbytes(n) if rng.random() < 0.5 else (b"ping" * 40)[:n]
    c = [op, data.hex()]
    if op == 9 and rng.random() < 0.3:
        c.append("raw")
    return c


def rand_msg(rng, big_ok, deflate):
    text = rng.random() < 0.5
    if big_ok and rng.random() < 0.5:
        n = rng.choice(BIG_LENS)
    else:
        n = rng.choice(LENS) if rng.random() < 0.8 else rng.randint(0, 700)
    item = {"t": "msg", "text": text, "p": rand_payload_spec(rng, n, text)}
    if deflate and rng.random() < 0.15:
        item["z"] = False
    k = rng.random()
    if k < 0.35:
        item["api"] = True      # one frame through write_message
    else:
        # fragmentation: cut positions on the wire payload (its length is not known here when compressed;
        # out-of-range cuts are dropped, duplicates merged); boundary-sized chunks on purpose
        m = rng.choice([1, 1, 2, 3, 5])
        pool = [0, 1, 2, 125, 126, 127, n // 2, n - 1, n, 65535, 65536, 65537]
        item["cuts"] = sorted(set(rng.choice(pool) if rng.random() < 0.6 else rng.randint(0, max(1, n)) for _ in range(m)))
        item["api"] = False
        gaps = {}
        for i in range(1, len(item["cuts"]) + 1):
            if rng.random() < 0.6:
                gaps[str(i)] = [rand_ctl(rng) for _ in range(rng.choice([1, 1, 2]))]
        item["gaps"] = gaps
    if rng.random() < 0.25:
        item["pre"] = [rand_ctl(rng) for _ in range(rng.choice([1, 2]))]
    return item


def rand_segs(rng, small):
    k = rng.random()
    if k < 0.3:
        return ["all"]
    if k < 0.5:
        return ["each", rng.choice([1, 2, 3, 7]) if small else rng.choice([1000, 4096, 65536, 70000])]
    if k < 0.8:
        return ["frac", rng.randrange(1 << 30), rng.choice([1, 3, 10])]
    return ["each", rng.choice([13, 64, 127])] if small else ["frac", rng.randrange(1 << 30), 40]


def rand_case(rng, big_ok=False):
    d = rand_deflate(rng)
    big = big_ok and rng.random() < 0.5
    n_msgs = rng.choice([1, 2, 3]) if big else rng.choice([1, 2, 3, 4, 6])
    script = []
    used_big = False
    for _ in range(n_msgs):
        m = rand_msg(rng, big and not used_big, d)
        used_big = used_big or m["p"][-1] >= 65535
        script.append(m)
    case = {"kind": "pair", "deflate": d, "mask": rng.random() < 0.6, "mseed": rng.randrange(1 << 30),
            "script": script, "segs": rand_segs(rng, not used_big)}
    if rng.random() < 0.1:
        # tight limit: the largest wire payload is exactly at max_message_size (set in run_impl via "max_fit")
        case["max_fit"] = True
    return case


def boundary_cases():
    """every boundary length x masked/unmasked x deflate off/on x (single frame | split with a ping in the gap)"""
    for n in [0, 1, 125, 126, 127, 65535, 65536]:
        for mask in (False, True):
            for d in (None, {"side": "client"}, {"side": "server", "client_nct": True, "server_nct": True, "server_wbits": 9}):
                for text in (False, True):
                    for split in (False, True):
                        if n >= 65535 and (text != mask or split != (d is not None and "server_wbits" in d) or (d and "server_wbits" not in d and not mask)):
                            continue   # keep the number of large cases down (the driver costs ~2 us per hex digit)
                        item = {"t": "msg", "text": text, "p": ["txt" if text else "rnd", n + 7, n]}
                        if split:
                            item.update({"api": False, "cuts": [n // 2], "gaps": {"1": [[9, "6869"]]}})
                        yield {"kind": "pair", "deflate": d, "mask": mask, "mseed": n, "script": [item, dict(item)] if n < 1000 else [item],
                               "segs": ["all"] if n < 1000 else ["each", 16384]}


def gen_cases(rng, tier):
    n_small, n_big = {"quick": (700, 6), "thorough": (14000, 120), "search": (1500, 4)}[tier]
    if tier != "search":
        yield from boundary_cases()
    for _ in range(n_small):
        c = rand_case(rng)
        if rng.random() < 0.08:
            c["cut"] = rng.randint(0, 400)
            c["eof"] = True
        yield c
    for _ in range(n_big):
        yield rand_case(rng, big_ok=True)


def nontrivial(case, impl):
    return any(len(f[5]) // 2 > 125 or f[1] or not f[0] for f in impl["frames"])


def stats(case, impl):
    out = ["deflate:" + ("off" if not case.get("deflate") else "on"), "mask:%s" % bool(case.get("mask")),
           "segs:" + case.get("segs", ["all"])[0], "status:" + impl["recv"]["status"]]
    for f in impl["frames"]:
        n = len(f[5]) // 2
        out.append("len:" + ("0" if n == 0 else "1-125" if n < 126 else "126-65535" if n < 65536 else ">=65536"))
        out.append("op:%d%s" % (f[2], "" if f[0] else "-nofin"))
        if n in (125, 126, 127, 65535, 65536):
            out.append("boundary:%d" % n)
    if case.get("deflate"):
        d = case["deflate"]
        out.append("takeover:%s" % (not d.get(("client" if d["side"] == "client" else "server") + "_nct")))
        out.append("wbits:%s" % d.get(d["side"] + "_wbits"))
    out.append("decompress-calls:%d" % min(6, len(impl["recv"]["calls"])))
    return out


def signature(case, impl, why):
    if "harness_exc" in impl:
        return "harness-escape/" + str(impl["harness_exc"]).split(":")[0]
    kind = "cut" if case.get("cut") is not None else "complete"
    inter = any(item.get("gaps") for item in case["script"] if item["t"] == "msg")
    what = "uncaught" if impl["recv"]["uncaught"] else "lost-or-wrong" if "delivered" in why else "closed"
    return "%s/deflate=%s/ctl-in-gap=%s/%s" % (kind, bool(case.get("deflate")), inter, what)


def shrink(case):
    sc = case["script"]
    for i in range(len(sc)):
        if len(sc) > 1:
            yield {**case, "script": sc[:i] + sc[i + 1:]}
    for i, item in enumerate(sc):
        if item["t"] != "msg":
            continue
        if item["p"][0] != "hex" and item["p"][-1] > 8:
            yield {**case, "script": sc[:i] + [{**item, "p": item["p"][:-1] + [item["p"][-1] // 2]}] + sc[i + 1:]}
        if item.get("pre"):
            yield {**case, "script": sc[:i] + [{k: v for k, v in item.items() if k != "pre"}] + sc[i + 1:]}
        if item.get("cuts") and len(item["cuts"]) > 1:
            yield {**case, "script": sc[:i] + [{**item, "cuts": item["cuts"][:1]}] + sc[i + 1:]}
    if case.get("segs", ["all"]) != ["all"]:
        yield {**case, "segs": ["all"]}
    if case.get("mask"):
        yield {**case, "mask": False}


def describe(case):
    return case
