"""C31 — routing picks the first matching rule and reverse URLs route back
(tornado.routing RuleRouter/ReversibleRuleRouter/PathMatches, tornado.web Application)."""
import json, re, urllib.parse
from core.wire import atom, line, parse_reply, Atom

ID = "C31"
LEAN_TARGETS = ["TornadoModel.C31.Props"]
THEOREMS = [
    "TornadoModel.C31.first_match_wins",
    "TornadoModel.C31.app_first_match_wins",
    "TornadoModel.C31.first_match_characterised",
    "TornadoModel.C31.no_match_default",
    "TornadoModel.C31.groups_unescaped",
    "TornadoModel.C31.unquote_quote",
    "TornadoModel.C31.re_unescape_escape",
    "TornadoModel.C31.reverse_eq_spec",
    "TornadoModel.C31.reverse_then_match",
    "TornadoModel.C31.reverse_routes_back",
    "TornadoModel.C31.reverse_url_sound",
    "TornadoModel.C31.reverse_url_routes_back",
    "TornadoModel.C31.app_reverse_url_routes_back",
]
TRUSTED = [
    "CPython `re` for arbitrary user patterns: the model takes match results as the parameter `m` (a table computed by "
    "CPython per case); `first_match_wins` holds for every `m`",
    "`str % tuple` on a format string whose only directives are `%s` and `%%` (modelled as interleaving, `fillFmt`)",
    "urllib.parse.quote/unquote_to_bytes, re.escape, str.split/index/count as modelled in C31/Model.lean "
    "(each one is also compared directly with CPython in the `prim` stream)",
]
ASSUMPTIONS = [
    "request paths and hosts contain no line feed (the `$` of a pattern also matches before a final LF; HTTP request "
    "targets cannot contain control characters); `matchPat` models `re` under that assumption",
    "nested routers are ReversibleRuleRouter/_ApplicationRouter instances; targets are RequestHandler classes, callables, "
    "routers, or an inert object; patterns are given as `str` (pre-compiled/bytes patterns are not generated)",
    "path patterns use positional groups or names g1,g2,… in order (keyword arguments are compared in group order)",
    "reverse clause, oracle: `reversible rule` = path rule whose pattern has the shape lit0(g1)lit1…(gn)litn (capturing groups "
    "without nested parentheses, escaped non-alphanumerics in literals, no parentheses in literals, no quantifier/alternation "
    "outside groups); `that rule` = the rule reverse_url resolves the name to (last of that name at a level, else first nested "
    "router that knows it); `routes to that rule` is demanded only when every rule it is nested in accepts the url/host and no "
    "earlier rule takes the url (both decided by the Lean first-match Spec on sub-trees), and only for handler targets",
    "reverse_then_match: literals between two groups contain a character the preceding group refuses (e.g. `/`), "
    "no parentheses in literals, pattern written with an explicit trailing `$` in the theorem "
    "(the generator also omits it when the last literal does not end in `$`)",
]
RULE = ("rule trees (host/any rules also inside Applications, nested routers depth<=3, literal/capturing/raw patterns over / a b - . _ % ~ +), hosts, paths "
        "derived from the patterns plus percent-escapes and mutations; named reversible rules reversed with generated arguments "
        "and routed back.  non-trivial = at least two leaves' chains accept the request, or a nested router falls through, or a "
        "reversal succeeds and routes back; distinct by canonical JSON")
EXHAUSTIVE = {"quick": False, "thorough": False}
CLAUSES = {
    "dispatched to the first rule (host rules, path rules, nested routers) whose patterns match":
        "first_match_wins + app_first_match_wins + first_match_characterised (for every regex engine `m`: the theorems are about "
        "the ORDER in which rules are consulted and fall-through, whatever `matches` means)",
    "match the WHOLE host and path":
        "tie only: the regex engine is the parameter `m`; whole-match is the `$` the code appends (`normDollar`) together with "
        "CPython `re`. The table for `m` is read off the implementation's own compiled `regex`/`host_pattern` objects and keyed "
        "by their `.pattern`, the model looks it up under `normDollar p` (a missing `$` is a key miss -> mismatch; mutant "
        "C31-host-dollar); for fragment patterns `matchPat` (whole-string by definition) is compared with CPython on every case",
    "or to the 404/default handler if none does": "no_match_default",
    "with the captured groups URL-unescaped": "groups_unescaped (which groups reach the handler) + unquote_quote (unquote is the "
        "inverse of quote); that `unquote` IS urllib's unquote_to_bytes is tie only (prim stream)",
    "reverse_url returns a path ... (named lookup, nested routers, Application)":
        "reverse_url_sound (any patterns, any nesting: the result is PathMatches.reverse of a path rule carrying that name) + "
        "reverse_eq_spec (fragment patterns lit(G)lit…(G)lit, G in {[^/]+,[0-9]+}: reverse = literals interleaved with quoted args)",
    "... that routes to that rule with the same arguments":
        "reverse_then_match + reverse_routes_back + reverse_url_routes_back + app_reverse_url_routes_back: fragment patterns only, "
        "the rule registered under the name standing anywhere in ONE router's list / in the handler list of an Application without "
        "host groups, handler target, no earlier rule taking the url (shadowing is a hypothesis), engine = `matchPat` on that "
        "pattern (tied to CPython `re` by the correspondence stream). "
        "tie only: named rules inside nested routers / host groups, and every other reversible pattern ((.*), (\\d+), (\\w+), "
        "named groups, …): the oracle decides `representable` with CPython `re` as the matcher parameter (pattern matches the WHOLE "
        "spec url lit0+quote(a1)+lit1… with groups that unquote to the args) and then demands: reverse_url succeeds, the pattern "
        "matches the whole returned url with the same args, and real routing of the url reaches that rule's handler with the same "
        "args unless the first-match Spec says a rule above it refuses or an earlier rule takes it",
}
PARALLEL = True
CASE_TIMEOUT = 120
LEVEL_NOTE = "regex engine is a parameter; Lean-defined matcher for the reversible fragment compared with CPython re on every case"

LIT_ALPHA = "/ab-._%~+"
HOST_PATS = [r"www\.example\.com", r".*", r"a\.b", r"(www\.)?ex\.com", r"[a-z]+\.test", r"localhost", r"ex\.com$", r"EX\.com",
             r"\[::1\]", r"ex"]
HOSTS = ["www.example.com", "ex.com:8080", "EX.com", "a.b", "[::1]:80", "x.test", "localhost", "www.ex.com", "ex.comx", "ex.com",
         "a.b:", "127.0.0.1:8888"]
RAW_PATS = [r"/a.*", r"/(\d+)/(\w*)", r"/(?P<g1>[^/]+)/(?P<g2>\d+)", r"/a(?:/(b))?", r".*", r"/x/(a|b)", r"/a\.b", r"/\d+",
            r"^/a", r"/a$", r"/(a)?(b)?", r"/b/(.*)", r"/a/(?P<g1>.*)", r"/(a+)(a*)", r"/%41", r"/a%b/(\w+)", r"/a\)b",
            r"/([^/]*)", r"/a/b", r"/", r"", r"/(?:a|b)/([0-9]+)", r"/a\-b/(.+)", r"/\(x\)", r"/a(/b)", r"/%s/(a)",
            r"/(.*)", r"/(\w+)", r"/(\d+)", r"/p/(\w+)/(\d+)", r"/(.*)/x", r"/([a-z]+)-([0-9]+)", r"/b/(?P<g1>\w+)/(?P<g2>.*)",
            r"/login", r"/a/7"]
GROUP_FILL = ["a", "b", "ab", "7", "42", "007", "a%20b", "%2F", "%2f", "%41", "%zz", "%", "%4", "a-b", "a.b", "~", "+", "a+b", "\xe9",
              "%E9", "%C3%A9", "x%", "%%41", "_", "0", "a_b%2Fc"]
ARG_POOL = ["a", "b", "ab", "7", "42", "007", "a b", "a/b", "", "\xe9", "a%b", "%41", "~", "a+b", "x.y-z_", "€", "0", "a\nb", "?", "#"]



# ------------------------------------------------------------------------------------------- the reverse clause, oracle side
_RE_META = set(".^$*+?{}[]|()")


def _parse_reversible(pat):
    """(literals, group sources) of a pattern of the shape  lit0 (g1) lit1 … (gn) litn :
    capturing groups (positional or `(?P<name>…)`) without nested parentheses, literal text made of plain characters and
    backslash escapes of non-alphanumerics other than parentheses, optional leading `^` / trailing `$`.
    None = not a pattern the reverse clause of the property is applied to (alternation/quantifiers outside groups,
    nested or non-capturing groups, parentheses in literals: the code refuses or is not asked to reverse those)."""
    s = pat
    if s.startswith("^"):
        s = s[1:]
    if s.endswith("$"):
        if s.endswith("\\$"):
            return None
        s = s[:-1]
    lits, groups = [""], []
    i = 0
    while i < len(s):
        c = s[i]
        if c == "\\":
            if i + 1 >= len(s):
                return None
            d = s[i + 1]
            if (d.isascii() and d.isalnum()) or d in "()":
                return None
            lits[-1] += d
            i += 2
        elif c == "(":
            j = s.find(")", i)
            if j < 0:
                return None
            body = s[i + 1:j]
            if "(" in body or body.endswith("\\"):
                return None
            if body.startswith("?") and not re.match(r"\?P<\w+>", body):
                return None
            groups.append(body)
            lits.append("")
            i = j + 1
        elif c in _RE_META:
            return None
        else:
            lits[-1] += c
            i += 1
    return lits, groups


def _spec_tree(case):
    """the ordered rule tree the property speaks about.  Application (web.py `__init__` / `add_handlers`): the host
    groups in call order, then the application's own handlers followed by the `default_host` copies of the host groups."""
    if case["kind"] != "app":
        return case["rules"]
    blank = {"kw": None, "name": None}
    hg = case["host_groups"]
    wild = list(case["rules"])
    if case["default_host"] is not None:
        wild += [dict(blank, m=["dhost", p], t=["r", rs]) for p, rs in hg]
    return [dict(blank, m=["host", p], t=["r", rs]) for p, rs in hg] + [dict(blank, m=["any"], t=["r", wild])]


def _resolve(rules, name):
    """index path of the rule `reverse_url(name)` means: the last rule of that name at a level, else the first nested
    router (in rule order) that knows the name"""
    hit = None
    for i, r in enumerate(rules):
        if r["name"] == name:
            hit = i
    if hit is not None:
        return [hit]
    for i, r in enumerate(rules):
        if r["t"][0] == "r":
            sub = _resolve(r["t"][1], name)
            if sub is not None:
                return [i] + sub
    return None


def _rule_at(rules, idx):
    r = rules[idx[0]]
    return r if len(idx) == 1 else _rule_at(r["t"][1], idx[1:])


def _pruned(rules, idx):
    """only the rule and the rules it is nested in"""
    r = rules[idx[0]]
    return [r] if len(idx) == 1 else [dict(r, t=["r", _pruned(r["t"][1], idx[1:])])]


def _prefix(rules, idx):
    """everything that stands before the rule in depth-first rule order"""
    i = idx[0]
    r = rules[i]
    return rules[:i] if len(idx) == 1 else rules[:i] + [dict(r, t=["r", _prefix(r["t"][1], idx[1:])])]


def _rev_checks(case, impl):
    """per reversal: None, or what the reverse clause demands —
    {"rule", "idx", "args": [hex], "url": spec url} when the resolved rule is a path rule of the reversible shape and the
    arguments are representable in its groups: the pattern, matched against the WHOLE spec url by CPython `re` (the matcher
    parameter), gives back groups that percent-decode to the arguments."""
    tree = _spec_tree(case)
    out = []
    for rv in case["revs"]:
        out.append(None)
        idx = _resolve(tree, rv["name"])
        if idx is None:
            continue
        rule = _rule_at(tree, idx)
        if rule["m"][0] != "path":
            continue
        shape = _parse_reversible(rule["m"][1])
        if shape is None:
            out[-1] = "not-reversible-shape"
            continue
        lits, groups = shape
        args = [_arg_bytes(a) for a in rv["args"]]
        if len(args) != len(groups):
            out[-1] = "wrong-count"
            continue
        url = lits[0] + "".join(urllib.parse.quote(a) + l for a, l in zip(args, lits[1:]))
        if _whole_match(rule["m"][1], url) != [a.hex() for a in args]:
            out[-1] = "unrepresentable"
            continue
        out[-1] = {"rule": rule, "idx": idx, "args": [a.hex() for a in args], "url": url}
    return out


def _whole_match(pat, url):
    """groups (percent-decoded, hex) of the pattern matched against the whole url by CPython `re`; None = no match"""
    mm = re.compile(pat).fullmatch(url)
    if mm is None:
        return None
    return [urllib.parse.unquote_to_bytes(g).hex() if g is not None else None for g in mm.groups()]


# ------------------------------------------------------------------------------------------- generators
def _lit(rng, n_max=4, must=None):
    s = "".join(rng.choice(LIT_ALPHA) for _ in range(rng.randint(0, n_max)))
    if must and must not in s:
        i = rng.randint(0, len(s))
        s = s[:i] + must + s[i:]
    return s


def _gen_P(rng):
    """a pattern of the reversible fragment; mostly well-formed (inner literals contain '/')"""
    n = rng.choice([0, 1, 1, 1, 2, 2, 3])
    lit0 = "/" + _lit(rng, 3) if rng.random() < 0.9 else _lit(rng, 3)
    segs = []
    for i in range(n):
        g = rng.choice(["seg", "seg", "digits"])
        inner = i < n - 1
        if inner and rng.random() < 0.85:
            l = _lit(rng, 3, must="/")
        else:
            l = _lit(rng, 3)
        segs.append([g, l])
    dollar = rng.random() < 0.4
    return {"lit0": lit0, "segs": segs, "dollar": dollar}


def render_P(P):
    src = re.escape(P["lit0"])
    for g, l in P["segs"]:
        src += "(" + ("[^/]+" if g == "seg" else "[0-9]+") + ")" + re.escape(l)
    return src + ("$" if P["dollar"] else "")


def _path_matcher(rng):
    if rng.random() < 0.6:
        P = _gen_P(rng)
        return ["path", render_P(P), P]
    return ["path", rng.choice(RAW_PATS), None]


def _gen_rules(rng, depth, names, top=False, app=False):
    rules = []
    for _ in range(rng.randint(0 if not top else 1, 4)):
        k = rng.random()
        if k < 0.70:
            m = _path_matcher(rng)
        elif k < 0.85 and (not app or rng.random() < 0.5):
            m = ["host", rng.choice(HOST_PATS)]
        elif k < 0.93 and (not app or rng.random() < 0.5):
            m = ["any"]
        else:
            m = _path_matcher(rng)
        k = rng.random()
        if k < 0.22 and depth > 0:
            t = ["r", _gen_rules(rng, depth - 1, names, app=app)]
        elif k < 0.28 and not app:
            t = ["inert"]
        else:
            t = ["h", rng.randint(0, 9)]
        kw = rng.randint(1, 5) if rng.random() < 0.3 else None
        name = None
        if rng.random() < 0.45:
            name = rng.randint(0, 4)
            names.append(name)
        rules.append({"m": m, "t": t, "kw": kw, "name": name})
    return rules


def _walk(rules):
    for r in rules:
        yield r
        if r["t"][0] == "r":
            yield from _walk(r["t"][1])


def _fill(rng, P, good=True):
    """a path for pattern P: literals with group fillers in between"""
    s = P["lit0"]
    for g, l in P["segs"]:
        if g == "digits" and rng.random() < 0.8:
            f = rng.choice(["7", "42", "007", "0", "12345"])
        else:
            f = rng.choice(GROUP_FILL)
        s += f + l
    return s


def _mutate(rng, s):
    k = rng.random()
    if k < 0.3 and s:
        i = rng.randrange(len(s))
        return s[:i] + s[i + 1:]
    if k < 0.6:
        i = rng.randint(0, len(s))
        return s[:i] + rng.choice(LIT_ALPHA + "7x") + s[i:]
    if k < 0.8:
        return s + rng.choice(["/", "a", "%", "/x", "//"])
    return s[: rng.randint(0, len(s))]


def _gen_paths(rng, rules, n):
    pats = [r["m"] for r in _walk(rules) if r["m"][0] == "path"]
    out = []
    for _ in range(n):
        k = rng.random()
        if pats and k < 0.75:
            m = rng.choice(pats)
            if m[2] is not None:
                p = _fill(rng, m[2])
            else:
                p = rng.choice(["/a", "/a/b", "/1/x", "/12/", "/x/7", "/a/", "/b/q/r", "/aaa", "/x/a", "/x/b", "/a.b", "/axb", "/%41",
                                "/a%b/w", "/a)b", "/", "", "/a/5", "/b/9", "/a-b/zz", "/(x)", "/7", "/%s/a", "/a%2Fb",
                                "/login", "/a/7", "/p/ab/7", "/q/x", "/ab-12", "/b/a_b/", "/b/w/x/y", "/%E9"])
            if rng.random() < 0.3:
                p = _mutate(rng, p)
        else:
            p = "".join(rng.choice(LIT_ALPHA + "17") for _ in range(rng.randint(0, 8)))
        out.append(p)
    return out


def _gen_args(rng, P, raw=None):
    n = len(P["segs"]) if P else rng.randint(0, 3) if raw is None else re.compile(raw).groups
    k = rng.random()
    if k < 0.12:
        n = max(0, n + rng.choice([-1, 1]))
    args = []
    shape = _parse_reversible(raw) if (raw is not None and not P) else None
    for i in range(n):
        if shape is not None and i < len(shape[1]) and rng.random() < 0.7:
            # an argument aimed at what the i-th group of a raw pattern can take
            g = shape[1][i]
            if "d" in g or "0-9" in g:
                a = rng.choice(["7", "42", "007", "0", 5, 1234, ""])
            elif "w" in g or "a-z" in g:
                a = rng.choice(["a", "ab", "a_b", "7", "", "x9", "\xe9"])
            elif "." in g or "^" in g:
                a = rng.choice(["a", "a b", "", "a/b", "\xe9", "%41", "a+b", "?", "x.y-z_", "a%b"])
            else:
                a = rng.choice(["a", "b", "/b", "ab", ""])
            if isinstance(a, str) and rng.random() < 0.15:
                a = {"b": a.encode("utf-8").hex()}
            args.append(a)
            continue
        g = P["segs"][i][0] if P and i < len(P["segs"]) else "seg"
        r = rng.random()
        if g == "digits" and r < 0.8:
            a = rng.choice(["7", "42", "007", "0", 5, 1234])
        elif r < 0.75:
            a = rng.choice(["a", "b", "ab", "a b", "\xe9", "a%b", "%41", "~", "a+b", "x.y-z_", "€", "0", "?", "#", 12])
        else:
            a = rng.choice(ARG_POOL)
        if isinstance(a, str) and rng.random() < 0.15:
            a = {"b": a.encode("utf-8").hex()}
        args.append(a)
    return args


def _gen_case(rng, kind):
    names = []
    app = kind == "app"
    depth = rng.choice([0, 1, 1, 2, 3]) if not app else rng.choice([0, 0, 1, 2])
    case = {"kind": kind, "rules": _gen_rules(rng, depth, names, top=True, app=app)}
    allrules = list(case["rules"])
    if app:
        case["host_groups"] = [[rng.choice(HOST_PATS), _gen_rules(rng, rng.choice([0, 1]), names, app=True)]
                               for _ in range(rng.choice([0, 0, 1, 2, 3]))]
        case["default_host"] = rng.choice([None, None, "www.example.com", "a.b", "ex.com", "zzz"])
        case["default_handler"] = rng.choice([None, None, 7])
        case["e2e"] = rng.random() < 0.12
        for _, rs in case["host_groups"]:
            allrules += rs
    paths = _gen_paths(rng, allrules, rng.randint(1, 5))
    case["reqs"] = [{"host": rng.choice(HOSTS), "path": p, "xreal": rng.random() < 0.2,
                     "query": rng.choice(["", "", "?x=1", "?"])} for p in paths]
    revs = []
    named = [r for r in _walk(allrules) if r["name"] is not None]
    for _ in range(rng.choice([0, 1, 2, 3])):
        if named and rng.random() < 0.9:
            r = rng.choice(named)
            P = r["m"][2] if r["m"][0] == "path" else None
            revs.append({"name": r["name"], "args": _gen_args(rng, P, r["m"][1] if r["m"][0] == "path" else None)})
        else:
            revs.append({"name": rng.randint(0, 5), "args": _gen_args(rng, None)})
    case["revs"] = revs
    case["rev_host"] = rng.choice(HOSTS)
    return case


PRIM_ALPHA = "%%%aAfFgG09/ \\\\().-_~+$^é€\n"


def _gen_prim(rng):
    k = rng.random()
    s = "".join(rng.choice(PRIM_ALPHA) for _ in range(rng.randint(0, 10)))
    if k < 0.3:
        return {"kind": "prim", "op": "unquote", "s": s}
    if k < 0.5:
        return {"kind": "prim", "op": "quote", "b": bytes(rng.randrange(256) for _ in range(rng.randint(0, 8))).hex()}
    if k < 0.65:
        return {"kind": "prim", "op": "reescape", "s": s}
    if k < 0.8:
        return {"kind": "prim", "op": "reunescape", "s": s}
    P = _gen_P(rng)
    subj = _fill(rng, P)
    if rng.random() < 0.4:
        subj = _mutate(rng, subj)
    return {"kind": "prim", "op": "matchpat", "P": P, "s": subj}


def gen_cases(rng, tier):
    n = {"quick": 2600, "thorough": 60000, "search": 3000}[tier]
    for i in range(n):
        k = rng.random()
        if k < 0.42:
            yield _gen_case(rng, "app")
        elif k < 0.78:
            yield _gen_case(rng, "router")
        else:
            yield _gen_prim(rng)


# ------------------------------------------------------------------------------------------- implementation
class _Conn:
    """connection stub for requests that are only routed (never answered)"""
    context = None

    def set_close_callback(self, cb):
        pass


class Marker:
    """callable rule target recording what it is called with"""

    def __init__(self, n, log):
        self.n, self.log = n, log

    def __call__(self, request, **kw):
        self.log.append((self.n, kw))


_HANDLERS = {}


def _handler_class(n):
    from tornado.web import RequestHandler
    if n not in _HANDLERS:
        class H(RequestHandler):
            num = n

            def initialize(self, **kw):
                self.init_kw = kw

            def decode_argument(self, value, name=None):
                return value        # documented override point: keep the raw bytes the router delivered

            def get(self, *args, **kwargs):
                self.write(json.dumps({"h": self.num, "kw": self.init_kw.get("tag"),
                                       "args": [a.hex() if a is not None else None for a in args],
                                       "kwargs": {k: (v.hex() if v is not None else None) for k, v in kwargs.items()}}))
        H.__name__ = "H%d" % n
        _HANDLERS[n] = H
    return _HANDLERS[n]


def _build_rules(rules, app, log):
    """-> list of tornado Rule objects (app=True: handler classes and plain lists as nested targets)"""
    from tornado.routing import Rule, PathMatches, HostMatches, AnyMatches, ReversibleRuleRouter
    out = []
    for r in rules:
        m = r["m"]
        matcher = {"any": lambda: AnyMatches(), "host": lambda: HostMatches(m[1]), "path": lambda: PathMatches(m[1])}[m[0]]()
        t = r["t"]
        if t[0] == "h":
            target = _handler_class(t[1]) if app else Marker(t[1], log)
        elif t[0] == "r":
            sub = _build_rules(t[1], app, log)
            target = sub if app else ReversibleRuleRouter(sub)
        else:
            target = object()
        kw = {"tag": r["kw"]} if r["kw"] is not None else None
        name = "n%d" % r["name"] if r["name"] is not None else None
        out.append(Rule(matcher, target, kw, name))
    return out


def _canon_exc(e):
    """a small enum; never formats the exception (`str(e)` of e.g. tornado.web.HTTPError can itself raise)"""
    if type(e).__name__ == "Hang":
        raise e                      # the runner's watchdog, not an outcome of the implementation
    for t in (ValueError, AssertionError, TypeError, KeyError):
        if type(e) is t:
            return t.__name__
    return "Uncaught:" + type(e).__name__


def _collect_tables(router, reqs, default_host, acc_m, acc_ng, seen=None):
    """walk the REAL router objects: regex results for every compiled pattern (the model's parameter `m`)"""
    from tornado.routing import PathMatches, HostMatches, DefaultHostMatches, Router
    for rule in router.rules:
        mt = rule.matcher
        if isinstance(mt, PathMatches):
            acc_ng[mt.regex.pattern] = mt.regex.groups
            for rq in reqs:
                mm = mt.regex.match(rq["path"])
                acc_m[(mt.regex.pattern, rq["path"])] = None if mm is None else list(mm.groups())
        elif isinstance(mt, HostMatches):
            for rq in reqs:
                mm = mt.host_pattern.match(rq["host_name"])
                acc_m[(mt.host_pattern.pattern, rq["host_name"])] = None if mm is None else list(mm.groups())
        elif isinstance(mt, DefaultHostMatches):
            if default_host is not None:
                mm = mt.host_pattern.match(default_host)
                acc_m[(mt.host_pattern.pattern, default_host)] = None if mm is None else list(mm.groups())
        if hasattr(rule.target, "rules"):
            _collect_tables(rule.target, reqs, default_host, acc_m, acc_ng)


def _mk_request(rq):
    from tornado.httputil import HTTPServerRequest, RequestStartLine, HTTPHeaders
    h = HTTPHeaders()
    h.add("Host", rq["host"])
    if rq.get("xreal"):
        h.add("X-Real-Ip", "9.9.9.9")
    return HTTPServerRequest(start_line=RequestStartLine("GET", rq["path"] + rq.get("query", ""), "HTTP/1.1"), headers=h,
                             connection=_Conn())


def _kwargs_to_list(kwargs):
    return [kwargs[k] for k in sorted(kwargs, key=lambda s: int(s[1:]))]


def _hexargs(args):
    return [a.hex() if a is not None else None for a in args]


def _route_app(app, req):
    from tornado.web import ErrorHandler
    d = app.find_handler(req)
    cls = d.handler_class
    if cls is ErrorHandler and d.handler_kwargs == {"status_code": 404}:
        return "notfound"
    if getattr(cls, "num", None) == 7 and d.handler_kwargs == {"dflt": 1}:
        return ["default", 7]
    args = d.path_args if not d.path_kwargs else _kwargs_to_list(d.path_kwargs)
    if d.path_kwargs and d.path_args:
        return "both-args-and-kwargs"
    return ["hit", cls.num, d.handler_kwargs.get("tag"), _hexargs(args)]


def _route_router(router, req, log):
    from tornado.httputil import RequestStartLine
    del log[:]
    d = router.find_handler(req)
    if d is None:
        return "none"
    d.headers_received(RequestStartLine("GET", req.uri, "HTTP/1.1"), req.headers)
    d.finish()
    if len(log) != 1:
        return "marker-calls:%d" % len(log)
    n, kw = log[0]
    pa, pk = kw.get("path_args") or [], kw.get("path_kwargs") or {}
    args = pa if not pk else _kwargs_to_list(pk)
    tk = kw.get("target_kwargs") or {}
    return ["hit", n, tk.get("tag"), _hexargs(args)]


def _e2e(app, rq):
    """the same request through the real HTTPServer on the fake transport; the marker handler reports what it got"""
    from core import vloop, faketransport
    from tornado.httpserver import HTTPServer
    import logging
    target = rq["path"] + rq.get("query", "")
    if not re.fullmatch(r"[\x21-\x7e\x80-\xff]+", target):
        return "skip"      # not a request-target the server would accept (empty / non latin-1)
    logging.getLogger("tornado.access").disabled = True
    with vloop.installed() as lp:
        srv = HTTPServer(app)
        s = faketransport.FakeStream(lp.io_loop)
        srv.handle_stream(s, ("1.2.3.4", 5))
        lp.drain()
        data = "GET %s HTTP/1.1\r\nHost: %s\r\n%s\r\n" % (rq["path"] + rq.get("query", ""), rq["host"],
                                                        "X-Real-Ip: 9.9.9.9\r\n" if rq.get("xreal") else "")
        s.feed(data.encode("latin-1"))
        lp.drain()
        out = bytes(s.written)
    head, _, body = out.partition(b"\r\n\r\n")
    if body.startswith(b"dflt "):
        return ["default", 7]
    status = head.split(b"\r\n")[0].split(b" ")[1:2]
    if status == [b"404"]:
        return "notfound"
    if status != [b"200"]:
        return "status:%r" % status
    if b"Transfer-Encoding: chunked" in head:
        return "chunked"
    j = json.loads(body.decode())
    args = j["args"] if not j["kwargs"] else _kwargs_to_list(j["kwargs"])
    return ["hit", j["h"], j["kw"], args]


def _arg_py(a):
    return bytes.fromhex(a["b"]) if isinstance(a, dict) else a


def _arg_bytes(a):
    a = _arg_py(a)
    if isinstance(a, bytes):
        return a
    return str(a).encode("utf-8")


def _run_impl(case):
    import warnings, logging
    warnings.simplefilter("ignore")
    logging.getLogger("tornado.application").disabled = True
    logging.getLogger("tornado.general").disabled = True
    if case["kind"] == "prim":
        return _run_prim(case)
    from tornado.routing import ReversibleRuleRouter
    from tornado.web import Application
    log = []
    is_app = case["kind"] == "app"
    try:
        app, top = _build(case, log)
    except Exception as e:
        # building a router from valid patterns never raises in the code as it is; a changed implementation may
        return {"build_error": _canon_exc(e)}
    return _run_built(case, app, top, log)


def _build(case, log):
    from tornado.routing import ReversibleRuleRouter
    from tornado.web import Application
    is_app = case["kind"] == "app"
    if is_app:
        settings = {}
        if case["default_handler"] is not None:
            class D(_handler_class(7)):
                def get(self, *a, **k):
                    self.write("dflt " + json.dumps({"h": 7, "kw": None, "args": [], "kwargs": {}}))
            D.num = 7
            settings = {"default_handler_class": D, "default_handler_args": {"dflt": 1}}
        app = Application(_build_rules(case["rules"], True, log), default_host=case["default_host"], **settings)
        for pat, rs in case["host_groups"]:
            app.add_handlers(pat, _build_rules(rs, True, log))
        top = app.default_router
    else:
        app = None
        top = ReversibleRuleRouter(_build_rules(case["rules"], False, log))
    return app, top


def _run_built(case, app, top, log):
    is_app = case["kind"] == "app"
    reqs = []
    for rq in case["reqs"]:
        try:
            req = _mk_request(rq)
        except Exception as e:
            reqs.append({"req_error": _canon_exc(e)})
            continue
        reqs.append({"req": req, "host_name": req.host_name, "path": req.path, "host": rq["host"], "xreal": rq["xreal"],
                     "query": rq.get("query", "")})
    out = {"routes": [], "host_names": [r.get("host_name") for r in reqs], "paths": [r.get("path") for r in reqs]}
    for r in reqs:
        if "req" not in r:
            out["routes"].append(r["req_error"])
            continue
        try:
            res = _route_app(app, r["req"]) if is_app else _route_router(top, r["req"], log)
        except Exception as e:
            res = _canon_exc(e)
        out["routes"].append(res)
    if is_app and case.get("e2e"):
        out["e2e"] = []
        for r, rq in zip(reqs, case["reqs"]):
            if "req" in r:
                try:
                    out["e2e"].append(_e2e(app, rq))
                except Exception as e:
                    out["e2e"].append(_canon_exc(e))
            else:
                out["e2e"].append(None)
    # ---- reversals, each routed back
    out["revs"] = []
    back_reqs = []
    for rv in case["revs"]:
        args = [_arg_py(a) for a in rv["args"]]
        try:
            u = (app.reverse_url if is_app else top.reverse_url)("n%d" % rv["name"], *args)
            res = ["ok", u] if u is not None else "none"
        except KeyError:
            res = "none"
        except Exception as e:
            res = ["err", _canon_exc(e)]
        entry = {"res": res}
        if isinstance(res, list) and res[0] == "ok":
            rq = {"host": case["rev_host"], "path": u, "xreal": False, "query": ""}
            try:
                req = _mk_request(rq)
                entry["back"] = _route_app(app, req) if is_app else _route_router(top, req, log)
                entry["back_path"] = req.path
                entry["back_host_name"] = req.host_name
                back_reqs.append({"host_name": req.host_name, "path": req.path})
            except Exception as e:
                entry["back"] = _canon_exc(e)
            # does the named rule itself take the URL back, with the same arguments?
            try:
                entry["own"] = _own_match(top, "n%d" % rv["name"], u)
            except Exception as e:
                entry["own"] = _canon_exc(e)
        out["revs"].append(entry)
    acc_m, acc_ng = {}, {}
    _collect_tables(top, [r for r in reqs if "req" in r] + back_reqs, case.get("default_host"), acc_m, acc_ng)
    out["table"] = sorted([[p, s, g] for (p, s), g in acc_m.items()], key=lambda e: (e[0], e[1]))
    out["ng"] = sorted([[p, n] for p, n in acc_ng.items()])
    # the fragment matcher of the model against CPython, on every (fragment pattern, path) pair of this case
    out["frag"] = []
    allrules = list(case["rules"]) + [r for _, rs in case.get("host_groups", []) for r in rs]
    subjects = [r["path"] for r in reqs if "req" in r] + [b["path"] for b in back_reqs]
    for r in _walk(allrules):
        if r["m"][0] == "path" and r["m"][2] is not None:
            cre = re.compile(render_P(dict(r["m"][2], dollar=True)))
            for s in subjects:
                mm = cre.match(s)
                out["frag"].append(None if mm is None else list(mm.groups()))
    return out


def _find_named(router, name):
    if name in getattr(router, "named_rules", {}):
        return router.named_rules[name]
    for rule in router.rules:
        if hasattr(rule.target, "rules"):
            r = _find_named(rule.target, name)
            if r is not None:
                return r
    return None


def _own_match(top, name, u):
    from tornado.routing import PathMatches
    rule = _find_named(top, name)
    if rule is None or not isinstance(rule.matcher, PathMatches):
        return None
    mm = rule.matcher.regex.match(u)
    if mm is None:
        return "nomatch"
    return [urllib.parse.unquote_to_bytes(g).hex() if g is not None else None for g in mm.groups()]


def _run_prim(case):
    from tornado.util import re_unescape
    from tornado.escape import url_escape, url_unescape
    op = case["op"]
    try:
        if op == "unquote":
            return {"v": url_unescape(case["s"], encoding=None, plus=False).hex()}
        if op == "quote":
            return {"v": url_escape(bytes.fromhex(case["b"]), plus=False)}
        if op == "reescape":
            return {"v": re.escape(case["s"])}
        if op == "reunescape":
            return {"v": re_unescape(case["s"])}
        if op == "matchpat":
            P = case["P"]
            src = render_P(dict(P, dollar=False))
            mm = re.compile(src + "$").match(case["s"])
            return {"v": None if mm is None else list(mm.groups()), "src": src}
    except Exception as e:
        return {"v": _canon_exc(e)}
    raise AssertionError(op)


def run_impl(case):
    """the runner's wall-clock watchdog also fires when the whole machine stalls (seen under load 40+: three trivial cases
    'hung' at the same moment).  A case that was interrupted without having used CPU time is run again once; a case that
    burnt CPU (a genuinely looping implementation) is reported as the Hang it is."""
    import time
    c0 = time.process_time()
    try:
        return _run_impl_safe(case)
    except BaseException as e:
        if type(e).__name__ == "Hang" and time.process_time() - c0 < 10:
            return _run_impl_safe(case)
        raise


def _run_impl_safe(case):
    """every exception of the implementation is an outcome, mapped to a small enum here (never via `str(e)`); only the
    runner's watchdog (a KeyboardInterrupt subclass) passes"""
    try:
        return _run_impl(case)
    except Exception as e:
        return {"build_error": "escaped:" + _canon_exc(e)}


# ------------------------------------------------------------------------------------------- model / spec
def _enc_rules(rules):
    out = []
    for r in rules:
        m = r["m"]
        em = [atom("any")] if m[0] == "any" else [atom(m[0]), m[1]]
        t = r["t"]
        et = [atom("h"), t[1]] if t[0] == "h" else [atom("r"), _enc_rules(t[1])] if t[0] == "r" else [atom("inert")]
        out.append([em, et, r["kw"], r["name"]])
    return out


def _enc_P(P):
    return [P["lit0"], [[atom(g), l] for g, l in P["segs"]]]


def _enc_table(tbl):
    return [[p, s, g] for p, s, g in tbl]


def _requests(case, impl, spec):
    if "harness_exc" in impl or "build_error" in impl:
        return []
    if case["kind"] == "prim":
        if spec:
            return []
        op = case["op"]
        if op == "quote":
            return [line(ID, "quote", bytes.fromhex(case["b"]))]
        if op == "matchpat":
            return [line(ID, "matchpat", _enc_P(case["P"]), case["s"]), line(ID, "render", _enc_P(case["P"]))]
        return [line(ID, op, case["s"])]
    is_app = case["kind"] == "app"
    tbl = _enc_table(impl["table"])
    lines = []
    head = []
    if is_app:
        head = [_enc_rules(case["rules"]), [[p, _enc_rules(rs)] for p, rs in case["host_groups"]], case["default_host"],
                case["default_handler"]]
    for hn, p, rq in zip(impl["host_names"], impl["paths"], case["reqs"]):
        if hn is None:
            continue
        req = [hn, p, atom(bool(rq["xreal"]))]
        if is_app:
            lines.append(line(ID, "specapp" if spec else "app", *head, req, tbl))
        else:
            lines.append(line(ID, "specfind" if spec else "find", _enc_rules(case["rules"]), req, None, tbl))
    for rv, e in zip(case["revs"], impl["revs"]):
        args = [_arg_bytes(a) for a in rv["args"]]
        if not spec:
            if is_app:
                lines.append(line(ID, "appreverse", *head, rv["name"], args, impl["ng"]))
            else:
                lines.append(line(ID, "reverseurl", _enc_rules(case["rules"]), rv["name"], args, impl["ng"]))
        if "back_path" in e:
            req = [e["back_host_name"], e["back_path"], atom(False)]
            if is_app:
                lines.append(line(ID, "specapp" if spec else "app", *head, req, tbl))
            else:
                lines.append(line(ID, "specfind" if spec else "find", _enc_rules(case["rules"]), req, None, tbl))
    if not spec:
        allrules = list(case["rules"]) + [r for _, rs in case.get("host_groups", []) for r in rs]
        subjects = [p for p in impl["paths"] if p is not None] + [e["back_path"] for e in impl["revs"] if "back_path" in e]
        for r in _walk(allrules):
            if r["m"][0] == "path" and r["m"][2] is not None:
                for s in subjects:
                    lines.append(line(ID, "matchpat", _enc_P(r["m"][2]), s))
    else:
        # wf / representable classification of each reversal of a fragment rule, by the Lean spec
        for rv, e in zip(case["revs"], impl["revs"]):
            P = _named_P(case, rv["name"])
            if P is not None:
                lines.append(line(ID, "wf", _enc_P(P), [_arg_bytes(a) for a in rv["args"]]))
        # "routes to that rule": the first-match spec on (a) the rule with the rules it is nested in, (b) everything
        # that stands before it.  (a) = none: a rule above it refuses the url/host; (b) = a hit: shadowed.
        tree = _spec_tree(case)
        for chk, e in zip(_rev_checks(case, impl), impl["revs"]):
            if isinstance(chk, dict) and "back_path" in e and chk["rule"]["t"][0] == "h":
                req = [e["back_host_name"], e["back_path"], atom(False)]
                for sub in (_pruned(tree, chk["idx"]), _prefix(tree, chk["idx"])):
                    lines.append(line(ID, "specfind", _enc_rules(sub), req, case.get("default_host"), tbl))
    return lines


def _named_P(case, name):
    """the fragment pattern reverse_url(name) resolves to, if the resolved rule is a fragment path rule"""
    allgroups = [rs for _, rs in case.get("host_groups", [])]
    def at(rules):
        hit = None
        for r in rules:
            if r["name"] == name:
                hit = r
        if hit is not None:
            return hit
        for r in rules:
            if r["t"][0] == "r":
                x = at(r["t"][1])
                if x is not None:
                    return x
        return None
    r = None
    for rs in allgroups:       # host routers come first in default_router.rules
        r = at(rs)
        if r is not None:
            break
    if r is None:
        r = at(case["rules"])
    if r is None or r["m"][0] != "path" or r["m"][2] is None:
        return None
    P = r["m"][2]
    if not P["dollar"] and (P["segs"][-1][1] if P["segs"] else P["lit0"]).endswith("$"):
        return None
    return P


def model_requests(case, impl):
    return _requests(case, impl, False)


def spec_requests(case, impl):
    return _requests(case, impl, True)


def _norm(v):
    if isinstance(v, Atom):
        return {"T": True, "F": False}.get(str(v), str(v))
    if isinstance(v, bytes):
        return v.hex()
    if isinstance(v, list):
        return [_norm(x) for x in v]
    return v


def _py(reply):
    st, vals = parse_reply(reply)
    assert st == "ok", reply
    return [_norm(v) for v in vals]


def model_result(case, replies):
    if case["kind"] == "prim":
        if case["op"] == "matchpat":
            return {"v": _py(replies[0])[0], "src": _py(replies[1])[0]}
        return {"v": _py(replies[0])[0]}
    return [_py(r)[0] for r in replies]


def impl_view(case, impl):
    if case["kind"] == "prim":
        return impl
    if "build_error" in impl:
        return ["build_error", impl["build_error"]]       # the model never predicts this: a mismatch
    out = [r for r, hn in zip(impl["routes"], impl["host_names"]) if hn is not None]
    for e in impl["revs"]:
        out.append(e["res"])
        if "back_path" in e:
            out.append(e["back"])
    out += impl["frag"]
    return out


def spec_violation(case, impl, replies):
    if case["kind"] == "prim":
        if isinstance(impl.get("v"), str) and impl["v"].startswith("Uncaught"):
            return "%s raised %s" % (case["op"], impl["v"])
        return None
    if "build_error" in impl:
        return "build: constructing the router from valid rules raised %s" % impl["build_error"]
    want = [_py(r) for r in replies]
    i = 0
    for k, (route, hn) in enumerate(zip(impl["routes"], impl["host_names"])):
        if hn is None:
            continue
        w = want[i][0]
        i += 1
        if route != w:
            return "dispatch req %d: first-match spec says %r, implementation gave %r" % (k, w, route)
        if "e2e" in impl and impl["e2e"][k] not in (w, "skip"):
            return "dispatch(e2e) req %d: first-match spec says %r, server gave %r" % (k, w, impl["e2e"][k])
    backs = []
    for e in impl["revs"]:
        if "back_path" in e:
            w = want[i][0]
            i += 1
            backs.append(w)
            if e["back"] != w:
                return "dispatch of reversed url: first-match spec says %r, implementation gave %r" % (w, e["back"])
        else:
            backs.append(None)
    lean_ok = []
    for rv, e in zip(case["revs"], impl["revs"]):
        P = _named_P(case, rv["name"])
        if P is None:
            lean_ok.append(False)
            continue
        wf, ok = want[i]
        i += 1
        lean_ok.append(bool(wf and ok))
    for rv, e, chk, lok in zip(case["revs"], impl["revs"], _rev_checks(case, impl), lean_ok):
        routes = None
        if isinstance(chk, dict) and "back_path" in e and chk["rule"]["t"][0] == "h":
            routes = (want[i][0], want[i + 1][0])
            i += 2
        # the clause applies when Lean's Spec (wf pattern, representable args: the theorem-backed fragment) or the
        # CPython-`re`-parameterised classification (any pattern of the reversible shape) says so
        if not (lok or isinstance(chk, dict)):
            continue
        args = [_arg_bytes(a).hex() for a in rv["args"]]
        res = e["res"]
        if not (isinstance(res, list) and res[0] == "ok"):
            return "reverse: reverse_url of a reversible rule with representable arguments gave %r" % (res,)
        if e.get("own") != args:
            return "reverse: the rule does not take its own reversed url back with the same arguments: %r vs %r" % (e.get("own"), args)
        if isinstance(chk, dict):
            own = _whole_match(chk["rule"]["m"][1], res[1])
            if own != args:
                return "reverse: the rule's pattern does not match the whole reversed url with the same arguments: %r vs %r" % (own, args)
        if routes is not None:
            alone, before = routes
            rule = chk["rule"]
            expect = ["hit", rule["t"][1], rule["kw"], args]
            if alone != "none" and before == "none" and e["back"] != expect:
                return "reverse: the reversed url is not routed to its rule with the same arguments: %r vs %r" % (e["back"], expect)
    return None


def _mixed_literal(rules, paths):
    """some router level holds a host/any rule in front of a group-less literal path rule whose path is requested"""
    seen_nonpath = False
    for r in rules:
        if r["m"][0] != "path":
            seen_nonpath = True
        elif seen_nonpath:
            sh = _parse_reversible(r["m"][1])
            if sh is not None and not sh[1] and sh[0][0] in paths:
                return True
        if r["t"][0] == "r" and _mixed_literal(r["t"][1], paths):
            return True
    return False


def _rev_labels(case, impl):
    out = []
    for chk, e in zip(_rev_checks(case, impl), impl["revs"]):
        if chk is None:
            continue
        if not isinstance(chk, dict):
            out.append("rev-oracle:" + chk)
            continue
        out.append("rev-oracle:checked-" + ("fragment" if "[^/]+" in chk["rule"]["m"][1] or "[0-9]+" in chk["rule"]["m"][1]
                                            else "nogroup" if not chk["args"] else "raw"))
        out.append("rev-oracle:target-" + chk["rule"]["t"][0])
    return out


def nontrivial(case, impl):
    if case["kind"] == "prim":
        return case["op"] == "matchpat" and impl.get("v") is not None
    if "build_error" in impl:
        return False
    hits = sum(1 for r in impl["routes"] if isinstance(r, list) and r[0] == "hit")
    back = any(isinstance(e.get("back"), list) and e["back"][0] == "hit" for e in impl["revs"])
    return (hits >= 1 and len(list(_walk(case["rules"]))) >= 2) or back


def stats(case, impl):
    out = ["kind:" + case["kind"]]
    if case["kind"] == "prim":
        out.append("prim:" + case["op"])
        if case["op"] == "matchpat":
            out.append("matchpat:" + ("match" if impl.get("v") is not None else "nomatch"))
        return out
    if "build_error" in impl:
        return out + ["build_error"]
    for r in impl["routes"]:
        out.append("route:" + (r[0] if isinstance(r, list) else str(r)))
        if isinstance(r, list) and r[0] == "hit":
            out.append("route-args:%d" % len(r[3]))
    for e in impl["revs"]:
        res = e["res"]
        out.append("rev:" + ("ok" if isinstance(res, list) and res[0] == "ok" else res[1] if isinstance(res, list) else res))
        if "back" in e:
            out.append("rev-back:" + (e["back"][0] if isinstance(e["back"], list) else str(e["back"])))
            if e.get("own") not in (None, "nomatch"):
                out.append("rev-own-match")
    out += _rev_labels(case, impl)
    if _mixed_literal(_spec_tree(case), set(p for p in impl["paths"] if p is not None)):
        out.append("mixed:nonpath-rule-before-requested-literal-path")
    depth = lambda rs: 1 + max([depth(r["t"][1]) for r in rs if r["t"][0] == "r"] + [0])
    out.append("depth:%d" % depth(case["rules"]))
    out.append("frag-pairs:%d" % min(20, len(impl["frag"])))
    if "e2e" in impl:
        out.append("e2e")
    return out


def signature(case, impl, why):
    head = why.split(":")[0].split(" ")[0]
    if head == "reverse":
        pct = any("%" in (r["m"][1] or "") for r in _walk(list(case["rules"]) + [x for _, rs in case.get("host_groups", []) for x in rs])
                  if r["m"][0] == "path" and r["name"] is not None)
        kind = "raises" if "gave" in why else "wrong-args"
        return "reverse/%s/%s" % (kind, "literal-percent" if pct else "other")
    return "%s/%s" % (case["kind"], head)


def shrink(case):
    if case["kind"] == "prim":
        if "s" in case:
            s = case["s"]
            for i in range(len(s)):
                yield {**case, "s": s[:i] + s[i + 1:]}
        return
    for key in ("reqs", "revs"):
        xs = case[key]
        for i in range(len(xs)):
            yield {**case, key: xs[:i] + xs[i + 1:]}
    rs = case["rules"]
    for i in range(len(rs)):
        yield {**case, "rules": rs[:i] + rs[i + 1:]}
    for i, r in enumerate(rs):
        if r["t"][0] == "r":
            sub = r["t"][1]
            for j in range(len(sub)):
                yield {**case, "rules": rs[:i] + [{**r, "t": ["r", sub[:j] + sub[j + 1:]]}] + rs[i + 1:]}
    if case["kind"] == "app":
        hg = case["host_groups"]
        for i in range(len(hg)):
            yield {**case, "host_groups": hg[:i] + hg[i + 1:]}
        if case.get("e2e"):
            yield {**case, "e2e": False}
