"""C06 — HTTP header maps behave as a case-insensitive multimap (tornado.httputil.HTTPHeaders)."""
import itertools, re
from core.wire import atom, enc, dec, line, parse_reply, Atom

ID = "C06"
LEAN_TARGETS = ["TornadoModel.C06.Props"]
THEOREMS = [
    "TornadoModel.C06.normalize_idem",
    "TornadoModel.C06.normalize_lower",
    "TornadoModel.C06.normalize_eq_iff_lower_eq",
    "TornadoModel.C06.cache_sound_step",
    "TornadoModel.C06.cache_sound_run",
    "TornadoModel.C06.refines_multimap",
    "TornadoModel.C06.present_deletable",
    "TornadoModel.C06.deleted_absent",
    "TornadoModel.C06.copy_equal",
    "TornadoModel.C06.parse_str_roundtrip",
]
TRUSTED = [
    "str.capitalize/split/join/strip/find and dict insertion order as modelled in C06/Model.lean (ASCII names)",
    "CPython `re` for _ABNF.field_name/field_value/_FORBIDDEN_HEADER_CHARS_RE and r'\\r?\\n$' (modelled by hand)",
]
ASSUMPTIONS = [
    "header names are ASCII strings (str.capitalize on non-ASCII text is not modelled; add() rejects such names anyway)",
    "aliasing between a map and its copy cannot be expressed in the (immutable) model; copy independence is decided by the correspondence stream only",
]
RULE = ("op sequences over a small name/value alphabet with case variants, valid/invalid values, obs-fold lines; "
        "non-trivial = at least one name holds >=2 values or a cached read precedes a mutation; distinct by canonical JSON")
EXHAUSTIVE = {"quick": False, "thorough": False}
CLAUSES = {
    "behaves like an insertion-ordered multimap keyed by case-insensitive name": "refines_multimap + normalize_eq_iff_lower_eq",
    "reading a name returns its values joined by commas": "refines_multimap (Spec.get) + cache_sound_run",
    "any name reported present can be deleted": "present_deletable",
    "copies are independent": "copy_equal (same entries) + tie only (aliasing between the two objects)",
    "serializing and parsing back yields an equal map": "parse_str_roundtrip",
}
PARALLEL = True

NAMES = ["a", "A", "x-y", "X-Y", "X-y", "Set-Cookie", "set-cookie", "b", "content-LENGTH", "-", "a-", "-a", "a--b", "Z9-z9"]
VALUES = ["1", "2", "v w", "a\tb", "", "\xe9\xff", "x,y", "a:b", "#", "  padded  "]
BAD_VALUES = ["a\nb", "a\rb", "\x00", "x\x7f", " lead", "trail ", "Ā", "a\x1fb"]
BAD_NAMES = ["", "a b", "a:b", "a\n", "(x)", "a\x00"]
NONASCII_NAMES = ["é", "Ā-b", "ß"]   # only through add(), which rejects them (capitalize() on non-ASCII is not modelled)
FIELD_VALUE = re.compile(r"(?:[\x21-\x7e\x80-\xff](?:[\x21-\x7e\x80-\xff \t]*[\x21-\x7e\x80-\xff])?)?\Z")
TOKEN = re.compile(r"[!#$%&'*+\-.^_`|~0-9A-Za-z]+\Z")

OBSERVE = [["getAll"], ["keys"], ["len"], ["str"]]


def _rand_ops(rng, n):
    ops = []
    for _ in range(n):
        k = rng.random()
        name = rng.choice(NAMES) if rng.random() < 0.93 else rng.choice(BAD_NAMES)
        val = rng.choice(VALUES) if rng.random() < 0.9 else rng.choice(BAD_VALUES)
        if k < 0.30:
            if rng.random() < 0.03:
                name = rng.choice(NONASCII_NAMES)
            ops.append(["add", name, val])
        elif k < 0.42:
            ops.append(["set", name, val])
        elif k < 0.54:
            ops.append(["del", name])
        elif k < 0.68:
            ops.append(["get", name])
        elif k < 0.74:
            ops.append(["getList", name])
        elif k < 0.80:
            ops.append(["contains", name])
        elif k < 0.90:
            ops.append(["parseLine", _rand_line(rng)])
        else:
            ops.append(rng.choice(OBSERVE))
    return ops


def _rand_line(rng):
    k = rng.random()
    eol = rng.choice(["", "\r\n", "\n", "\r\n", "\n\n", "\r\n\n", "\r", "\n\r\n"])
    if k < 0.45:
        return "%s:%s%s%s%s" % (rng.choice(NAMES), rng.choice(["", " ", "\t ", "  "]), rng.choice(VALUES),
                                rng.choice(["", " ", "\t"]), eol)
    if k < 0.75:
        return "%s%s%s%s" % (rng.choice([" ", "\t", "  \t"]), rng.choice(VALUES + BAD_VALUES[:4]), rng.choice(["", " "]), eol)
    if k < 0.85:
        return rng.choice(["", "nocolon", ":", ": v", "a b: c", " ", "\t"]) + eol
    return "".join(rng.choice("aA-: \t\r\n,1\x00\xe9") for _ in range(rng.randint(0, 8)))


def _enum_cases(names, values, maxlen):
    # the fold (obs-fold continuation line) appends to the last value of `_last_key`: cache invalidation on that
    # path only shows after add, add (2 values), get (fills the cache), fold, get
    muts = [["add", n, v] for n in names for v in values] + [["set", n, v] for n in names for v in values] \
        + [["del", n] for n in names] + [["get", n] for n in names] + [["parseLine", " c"]]
    tail = [["getAll"], ["keys"], ["len"]] + [["contains", n] for n in names[:2]] + [["get", names[0]], ["getList", names[-1]]]
    for L in range(0, maxlen + 1):
        for seq in itertools.product(muts, repeat=L):
            yield {"kind": "ops", "ops": [list(o) for o in seq] + tail, "enum": True}


def gen_cases(rng, tier):
    n_rand = {"quick": 2500, "thorough": 40000, "search": 4000}[tier]
    if tier == "quick":
        yield from _enum_cases(["a", "A", "b"], ["1", "2"], 2)
        yield from _enum_cases(["a", "A"], ["1"], 4)
    elif tier == "thorough":
        yield from _enum_cases(["a", "A", "b"], ["1", "2"], 3)
        yield from _enum_cases(["a", "A"], ["1"], 5)
    for _ in range(n_rand):
        k = rng.random()
        if k < 0.12:
            # targeted: build a (possibly multi-valued) header, read it, fold a continuation line into it, read again
            name = rng.choice(NAMES)
            ops = [["add", rng.choice([name, name.upper(), name.lower()]), rng.choice(VALUES)] for _ in range(rng.randint(1, 3))]
            ops += rng.choice([[], [["get", name]], [["get", name], ["getAll"]], [["contains", name]]])
            ops += [["parseLine", rng.choice([" ", "\t", "  "]) + rng.choice(VALUES[:4] + ["x"]) + rng.choice(["", "\r\n", "\n"])]
                    for _ in range(rng.randint(1, 2))]
            ops += [["get", name], ["getList", name], ["str"], ["getAll"]]
            yield {"kind": "ops", "ops": ops}
        elif k < 0.6:
            yield {"kind": "ops", "ops": _rand_ops(rng, rng.randint(1, 30))}
        elif k < 0.8:
            yield {"kind": "copy", "ops": _rand_ops(rng, rng.randint(0, 12)), "after": _rand_ops(rng, rng.randint(1, 6)),
                   "mutate": rng.choice(["copy", "orig"])}
        else:
            text = "".join(_rand_line(rng) + rng.choice(["", "\n", "\r\n"]) for _ in range(rng.randint(0, 6)))
            yield {"kind": "parse", "text": text}


def _exc(e):
    from tornado.httputil import HTTPInputError
    if isinstance(e, HTTPInputError):
        return "HTTPInputError"
    if isinstance(e, KeyError):
        return "KeyError"
    return "Uncaught:" + type(e).__name__


def _apply(h, op):
    try:
        k = op[0]
        if k == "add":
            h.add(op[1], op[2]); return "U"
        if k == "set":
            h[op[1]] = op[2]; return "U"
        if k == "del":
            del h[op[1]]; return "U"
        if k == "get":
            return h[op[1]]
        if k == "getList":
            return list(h.get_list(op[1]))
        if k == "contains":
            return op[1] in h
        if k == "keys":
            return list(h)
        if k == "getAll":
            return [list(p) for p in h.get_all()]
        if k == "len":
            return len(h)
        if k == "parseLine":
            h.parse_line(op[1]); return "U"
        if k == "str":
            return str(h)
        raise AssertionError(k)
    except Exception as e:
        return _exc(e)


def run_impl(case):
    from tornado.httputil import HTTPHeaders
    if case["kind"] == "ops":
        h = HTTPHeaders()
        outs = [_apply(h, op) for op in case["ops"]]
        extra = {}
        pairs = [list(p) for p in h.get_all()]
        if all(TOKEN.match(k) and FIELD_VALUE.match(v) for k, v in pairs):
            try:
                extra["roundtrip"] = [list(p) for p in HTTPHeaders.parse(str(h)).get_all()] == pairs
            except Exception as e:
                extra["roundtrip"] = _exc(e)
        return {"outs": outs, **extra}
    if case["kind"] == "parse":
        try:
            return {"pairs": [list(p) for p in HTTPHeaders.parse(case["text"]).get_all()]}
        except Exception as e:
            return {"pairs": _exc(e)}
    if case["kind"] == "copy":
        h = HTTPHeaders()
        for op in case["ops"]:
            _apply(h, op)
        try:
            c = h.copy()
        except Exception as e:
            return {"copy": _exc(e)}
        snap = lambda x: [[list(p) for p in x.get_all()], str(x), list(x), [x.get(k) for k in list(x)]]
        before_copy = [list(p) for p in c.get_all()]
        target, other = (c, h) if case["mutate"] == "copy" else (h, c)
        other_before = snap(other)
        for op in case["after"]:
            _apply(target, op)
        return {"copy": before_copy, "independent": snap(other) == other_before}
    raise AssertionError(case)


def model_requests(case, impl):
    if case["kind"] == "ops":
        return [line(ID, "run", [[atom(o[0])] + o[1:] for o in case["ops"]])]
    if case["kind"] == "parse":
        return [line(ID, "parse", case["text"])]
    return [line(ID, "copy", [[atom(o[0])] + o[1:] for o in case["ops"]])]


def _norm(v):
    if isinstance(v, Atom):
        return {"T": True, "F": False}.get(str(v), str(v))
    if isinstance(v, list):
        return [_norm(x) for x in v]
    return v


def _py(reply):
    st, vals = parse_reply(reply)
    assert st == "ok", reply
    return _norm(vals[0])


def model_result(case, replies):
    if case["kind"] == "ops":
        return _py(replies[0])
    if case["kind"] == "parse":
        return _py(replies[0])
    return _py(replies[0])


def impl_view(case, impl):
    """the part of the implementation's result the model predicts"""
    if case["kind"] == "ops":
        return impl["outs"]
    if case["kind"] == "parse":
        return impl["pairs"]
    return impl["copy"]


def spec_requests(case, impl):
    if case["kind"] == "ops":
        return [line(ID, "spec", [[atom(o[0])] + o[1:] for o in case["ops"]])]
    return []


def spec_violation(case, impl, replies):
    if case["kind"] == "ops":
        want = _py(replies[0])
        got = impl["outs"]
        for i, (op, w, g) in enumerate(zip(case["ops"], want, got)):
            if w != g:
                return "op %d %r: multimap says %r, HTTPHeaders gave %r" % (i, op, w, g)
        # present => deletable is part of the spec outputs (Spec.del succeeds iff contains)
        if impl.get("roundtrip") not in (None, True):
            return "parse(str(h)) != h: %r" % (impl["roundtrip"],)
        return None
    if case["kind"] == "copy":
        if isinstance(impl["copy"], str):
            # copy() of a map holding values add() would reject (put there by __setitem__) may raise HTTPInputError
            return None if impl["copy"] == "HTTPInputError" else "copy raised %s" % impl["copy"]
        if not impl["independent"]:
            return "mutating the %s changed the other map" % case["mutate"]
        return None
    if case["kind"] == "parse":
        if isinstance(impl["pairs"], str) and impl["pairs"].startswith("Uncaught"):
            return "HTTPHeaders.parse raised %s" % impl["pairs"]
    return None


def nontrivial(case, impl):
    if case["kind"] == "ops":
        seen = {}
        for o in case["ops"]:
            if o[0] == "add":
                seen[o[1].lower()] = seen.get(o[1].lower(), 0) + 1
        return any(v >= 2 for v in seen.values()) and any(o[0] in ("get", "del") for o in case["ops"])
    if case["kind"] == "parse":
        return isinstance(impl["pairs"], list) and len(impl["pairs"]) >= 1
    return len(case["ops"]) > 0


def stats(case, impl):
    out = ["kind:" + case["kind"]]
    if case["kind"] == "ops":
        out.append("len:%d" % min(30, len(case["ops"]) // 5 * 5))
        for o, r in zip(case["ops"], impl["outs"]):
            out.append("op:" + o[0])
            if isinstance(r, str) and r in ("KeyError", "HTTPInputError"):
                out.append("err:%s:%s" % (o[0], r))
    return out


def signature(case, impl, why):
    if case["kind"] == "ops":
        m = re.match(r"op \d+ \['(\w+)'", why)
        return "ops/%s/%s" % (m.group(1) if m else "roundtrip", "uncaught" if "Uncaught" in why else "wrong-output")
    return case["kind"] + "/" + re.sub(r"[^a-zA-Z]+", "-", why)[:40]


def shrink(case):
    if case["kind"] in ("ops", "copy"):
        ops = case["ops"]
        for i in range(len(ops)):
            yield {**case, "ops": ops[:i] + ops[i + 1:]}
    if case["kind"] == "copy":
        a = case["after"]
        for i in range(len(a)):
            yield {**case, "after": a[:i] + a[i + 1:]}
    if case["kind"] == "parse":
        t = case["text"]
        for i in range(len(t)):
            yield {**case, "text": t[:i] + t[i + 1:]}


def describe(case):
    return case
