"""C06 — HTTP header maps behave as a case-insensitive multimap (tornado.httputil.HTTPHeaders)."""
import itertools, re
from core.wire import atom, enc, dec, line, parse_reply, Atom

ID = "C06"
LEAN_TARGETS = ["TornadoModel.C06.Props"]
THEOREMS = [
    "TornadoModel.C06.normalize_idem",
    "TornadoModel.C06.normalize_lower",
    "TornadoModel.C06.normalize_eq_iff_lower_eq",
    "TornadoModel.C06.normalize_eq_headerCase",
    "TornadoModel.C06.normalize_case_variants",
    "TornadoModel.C06.cache_sound_step",
    "TornadoModel.C06.cache_sound_run",
    "TornadoModel.C06.refines_multimap",
    "TornadoModel.C06.get_is_joined_list",
    "TornadoModel.C06.field_line_is_add",
    "TornadoModel.C06.obs_fold_extends_last_value",
    "TornadoModel.C06.field_line_is_add_chars",
    "TornadoModel.C06.malformed_line_rejected",
    "TornadoModel.C06.bad_continuation_rejected",
    "TornadoModel.C06.present_deletable",
    "TornadoModel.C06.reported_deletable",
    "TornadoModel.C06.present_deletable_run",
    "TornadoModel.C06.present_deletable_prefix_refuted",
    "TornadoModel.C06.deleted_absent",
    "TornadoModel.C06.copy_equal",
    "TornadoModel.C06.copy_behaves_as_multimap",
    "TornadoModel.C06.parse_str_roundtrip",
]
TRUSTED = [
    "str.capitalize/split/join/strip/find and dict insertion order as modelled in C06/Model.lean (ASCII names)",
    "collections.abc.MutableMapping mixin methods (pop/popitem/clear/update/setdefault/get(default)/items) as expanded by hand into the primitive operations they perform (c06.py `_expand`); tie only, no theorem mentions them",
    "CPython `re` for _ABNF.field_name/field_value/_FORBIDDEN_HEADER_CHARS_RE and r'\\r?\\n$' (modelled by hand)",
]
ASSUMPTIONS = [
    "header names are ASCII strings (str.capitalize on non-ASCII text is not modelled; add() rejects such names anyway)",
    "aliasing between a map and its copy cannot be expressed in the (immutable) model: that the two Python objects share no mutable state is decided by the correspondence stream (copy cases: outputs of separate histories on both objects); the theorems cover the behaviour of each object",
    "which field line a continuation line extends directly after a copy is not fixed by the property (oracle stops judging the copy there; the model pins the actual behaviour: the copy's last pair)",
]
RULE = ("op sequences over a small name/value alphabet with case variants, valid/invalid values, obs-fold lines; "
        "names are legal tokens incl. letters directly after digits/_/./!/~/' etc. (P3P, X_Forwarded_For): every case "
        "pattern of every short token over a tchar alphabet is probed against every other spelling of the same name "
        "(add/set/del/get/get_list/in/parse_line); "
        "copy cases: a history, a copy (copy()/copy.copy/HTTPHeaders(h)/deepcopy/pickle), a history on one object, then one on the other; "
        "mixin cases: MutableMapping mixin calls (pop, pop/get with default, setdefault, items, update, popitem, clear) interleaved with primitive ops, expanded into primitives for model and multimap; "
        "parse cases in both validation modes (bytes / _chars_are_bytes=False with non-latin1 and control characters); "
        "non-trivial = at least one name holds >=2 values or a cached read precedes a mutation; distinct by canonical JSON")
EXHAUSTIVE = {"quick": False, "thorough": False}
CLAUSE_CAVEATS = [
    "copies are independent: the theorems (copy_equal, copy_behaves_as_multimap) describe each object's behaviour; that the two Python objects share no mutable state cannot be stated in the immutable model and rests on the copy cases of the correspondence stream",
    "line parsing: Spec.parseLine shares its lexical helpers (stripEol, splitColon, stripWs, appendToLast) with the model, so for the line grammar refines_multimap relates near-identical definitions; what they do is proved separately against a grammar stated from the outside (field_line_is_add, obs_fold_extends_last_value, malformed_line_rejected, bad_continuation_rejected; terminators '', LF, CRLF); NOT covered by a theorem: lines containing a bare CR or ending in LF LF / CR LF LF (reference reader _ref_parse and correspondence only); isToken/isFieldValue are hand-transcriptions of the _ABNF regexes (TRUSTED)",
    "the _chars_are_bytes=False mode (multipart part headers) is outside Op/run: field_line_is_add_chars proves the accepting field-line path on reachable states; its continuation lines and rejections are covered by correspondence (parseU) and the reference reader only",
]
CLAUSES = {
    "line parsing including continuation lines":
        "refines_multimap (parseLine op) + field_line_is_add + obs_fold_extends_last_value (grammar stated from the outside, "
        "incl. cache invalidation on the fold path) + malformed_line_rejected + bad_continuation_rejected + field_line_is_add_chars",
    "behaves like an insertion-ordered multimap keyed by case-insensitive name":
        "refines_multimap + normalize_eq_iff_lower_eq + normalize_case_variants (all names, not only letters-and-hyphens; "
        "closed form of the stored key: normalize_eq_headerCase)",
    "reading a name returns its values joined by commas":
        "get_is_joined_list (model alone: h[n] = ','.join(get_list(n)), cached or not, every reachable state) + refines_multimap (Spec.get) + cache_sound_run",
    "any name reported present can be deleted":
        "reported_deletable (reachable states; presence reported by ANY read API: in / iteration / get_all / get_list / "
        "h[n] through the cache; every spelling; afterwards no API reports it) + present_deletable_run (same on run outputs) "
        "+ present_deletable / deleted_absent (the membership-only special case, immediate from the fixed __delitem__) "
        "+ present_deletable_prefix_refuted (the statement is false for the pre-fix __delitem__); the oracle also applies "
        "the clause directly to HTTPHeaders at probed points of every history (_present_probes)",
    "copies are independent": "copy_equal (same entries) + copy_behaves_as_multimap (every further history on the copy / "
        "on the original gives the outputs of the copied / the original multimap) + tie only for the aliasing fact itself "
        "(no shared mutable list between the two Python objects): copy cases run a history on one object and THEN one on "
        "the other, via copy()/copy.copy/HTTPHeaders(h)/deepcopy/pickle, outputs of both compared with model and multimap",
    "serializing and parsing back yields an equal map": "parse_str_roundtrip",
}
PARALLEL = True
# pure in-memory dict/list operations: nothing here can hang.  The default 20 s wall-clock watchdog did fire once on a
# starved machine (load 56 on 16 cores) in the middle of a forked worker's first `import tornado` and left asyncio
# half-imported ("NameError: name 'base_events' is not defined" on the retry) — a false alarm of the harness.
CASE_TIMEOUT = 180

NAMES = ["a", "A", "x-y", "X-Y", "X-y", "Set-Cookie", "set-cookie", "b", "content-LENGTH", "-", "a-", "-a", "a--b", "Z9-z9"]
VALUES = ["1", "2", "v w", "a\tb", "", "\xe9\xff", "x,y", "a:b", "#", "  padded  "]
BAD_VALUES = ["a\nb", "a\rb", "\x00", "x\x7f", " lead", "trail ", "Ā", "a\x1fb"]
BAD_NAMES = ["", "a b", "a:b", "a\n", "(x)", "a\x00"]
# Legal field names (tokens) in which a letter directly follows a non-letter other than '-' (digit, '_', '.', '!',
# '~', "'" ...).  `_normalize_header` lower-cases such a letter (str.capitalize per '-'-separated word), whereas
# str.title()/istitle() treat it as the start of a word: every family lists several spellings of ONE name,
# among them the title()-cased one, the header-cased one, all-lower and all-upper.
TOKEN_FAMILIES = [
    ["P3P", "p3p", "P3p", "p3P"],
    ["X_Forwarded_For", "x_forwarded_for", "X_FORWARDED_FOR", "X_forwarded_for"],
    ["X-Amz-Meta-File.Name", "x-amz-meta-file.name", "X-Amz-Meta-File.name", "X-AMZ-META-FILE.NAME"],
    ["Content-MD5", "content-md5", "Content-Md5", "CONTENT-MD5"],
    ["Sec-Ch-Ua-Platform.V2", "sec-ch-ua-platform.v2", "Sec-Ch-Ua-Platform.v2"],
    ["1A", "1a"], ["A1b", "a1B", "A1B", "a1b"], ["~A", "~a"], ["_Ab", "_ab", "_AB", "_aB"],
    ["A!B", "a!b", "A!b", "a!B"], ["It'S", "it's", "It's", "IT'S"], ["A`B|C", "a`b|c", "A`b|c"],
    ["9-A9b", "9-a9B", "9-A9B", "9-a9b"], ["a.B-c_D", "A.b-C_d", "A.B-C_D", "a.b-c_d"],
    ["X+Y*Z", "x+y*z", "X+y*z"], ["#A$B%C&D^E", "#a$b%c&d^e", "#A$b%c&d^e"],
]
TOKEN_NAMES = [n for fam in TOKEN_FAMILIES for n in fam]
SWEEP_QUICK = "a3_.-!~'"                       # quick: every token of length <= 3 over this alphabet, all case patterns
SWEEP_FULL = "az09" + "!#$%&'*+-.^_`|~"       # thorough: all 15 special tchars, boundary letters/digits
NONASCII_NAMES = ["é", "Ā-b", "ß"]   # only through add(), which rejects them (capitalize() on non-ASCII is not modelled)
FIELD_VALUE = re.compile(r"(?:[\x21-\x7e\x80-\xff](?:[\x21-\x7e\x80-\xff \t]*[\x21-\x7e\x80-\xff])?)?\Z")
TOKEN = re.compile(r"[!#$%&'*+\-.^_`|~0-9A-Za-z]+\Z")

_LETTER_AFTER_NONLETTER = re.compile(r"[^A-Za-z\-][A-Za-z]")

OBSERVE = [["getAll"], ["keys"], ["len"], ["str"]]


def _pick_names(rng):
    """name alphabet of one random case: the classic letters-and-hyphens list, a few token families (dense:
    several spellings of the same 1-3 names meet in one history), or both"""
    k = rng.random()
    if k < 0.45:
        return NAMES
    fams = rng.sample(TOKEN_FAMILIES, rng.randint(1, 3))
    names = [n for f in fams for n in f]
    if k < 0.65:
        return names + NAMES
    extra = []
    for n in names:     # plus mechanical variants (the title()-cased spelling is the one str.istitle() accepts)
        extra += [n.title(), n.swapcase(), n.lower(), n.upper()]
    return names + extra


def _rand_ops(rng, n, names=NAMES):
    ops = []
    for _ in range(n):
        k = rng.random()
        name = rng.choice(names) if rng.random() < 0.93 else rng.choice(BAD_NAMES)
        val = rng.choice(VALUES) if rng.random() < 0.9 else rng.choice(BAD_VALUES)
        if k < 0.30:
            if rng.random() < 0.03:
                name = rng.choice(NONASCII_NAMES)
            ops.append(["add", name, val])
        elif k < 0.42:
            ops.append(["set", name, val])
        elif k < 0.54:
            ops.append(["del", name])
        elif k < 0.68:
            ops.append(["get", name])
        elif k < 0.74:
            ops.append(["getList", name])
        elif k < 0.80:
            ops.append(["contains", name])
        elif k < 0.90:
            ops.append(["parseLine", _rand_line(rng, names)])
        else:
            ops.append(rng.choice(OBSERVE))
    return ops


def _rand_line(rng, names=NAMES):
    k = rng.random()
    eol = rng.choice(["", "\r\n", "\n", "\r\n", "\n\n", "\r\n\n", "\r", "\n\r\n"])
    if k < 0.45:
        return "%s:%s%s%s%s" % (rng.choice(names), rng.choice(["", " ", "\t ", "  "]), rng.choice(VALUES),
                                rng.choice(["", " ", "\t"]), eol)
    if k < 0.75:
        return "%s%s%s%s" % (rng.choice([" ", "\t", "  \t"]), rng.choice(VALUES + BAD_VALUES[:4]), rng.choice(["", " "]), eol)
    if k < 0.85:
        return rng.choice(["", "nocolon", ":", ": v", "a b: c", " ", "\t"]) + eol
    return "".join(rng.choice("aA-: \t\r\n,1\x00\xe9") for _ in range(rng.randint(0, 8)))


def _enum_cases(names, values, maxlen):
    # the fold (obs-fold continuation line) appends to the last value of `_last_key`: cache invalidation on that
    # path only shows after add, add (2 values), get (fills the cache), fold, get
    muts = [["add", n, v] for n in names for v in values] + [["set", n, v] for n in names for v in values] \
        + [["del", n] for n in names] + [["get", n] for n in names] + [["parseLine", " c"]]
    tail = [["getAll"], ["keys"], ["len"]] + [["contains", n] for n in names[:2]] + [["get", names[0]], ["getList", names[-1]]]
    for L in range(0, maxlen + 1):
        for seq in itertools.product(muts, repeat=L):
            yield {"kind": "ops", "ops": [list(o) for o in seq] + tail, "enum": True}


def _enum_copy_cases(names, maxlen, vias):
    """every short history x every single mutation of one object x every way of copying, then reads on the other"""
    muts = [["add", n, "1"] for n in names] + [["set", n, "2"] for n in names] + [["del", n] for n in names] \
        + [["get", n] for n in names] + [["parseLine", " c"]]
    afters = [["add", names[0], "7"], ["set", names[-1], "8"], ["del", names[0]], ["parseLine", " k"],
              ["parseLine", names[-1] + ": 9\r\n"]]
    reads = [["get", names[0]], ["getList", names[-1]], ["contains", names[0]], ["getAll"], ["keys"], ["len"], ["str"]]
    for L in range(0, maxlen + 1):
        for seq in itertools.product(muts, repeat=L):
            for a in afters:
                for mutate in ("copy", "orig"):
                    for via in vias:
                        yield {"kind": "copy", "ops": [list(o) for o in seq], "after": [list(a), ["get", names[0]], ["getAll"]],
                               "after2": [list(r) for r in reads] + [["add", names[0], "5"], ["get", names[0]]],
                               "mutate": mutate, "via": via, "enum": True}


def _case_patterns(base):
    """every upper/lower pattern of the letters of `base` (a lower-case token)"""
    pos = [i for i, c in enumerate(base) if c.isalpha()]
    for bits in itertools.product((0, 1), repeat=len(pos)):
        cs = list(base)
        for i, b in zip(pos, bits):
            if b:
                cs[i] = cs[i].upper()
        yield "".join(cs)


def _probe(first, other):
    """`first` and `other` are two spellings of one name: every API must treat them as the same key.  If the
    property holds the map is empty again afterwards, so probes can be chained."""
    return [["add", first, "1"], ["contains", other], ["get", other], ["getList", other], ["add", other, "2"],
            ["len"], ["get", first], ["keys"], ["set", other, "3"], ["getAll"], ["del", other], ["contains", first], ["len"],
            ["parseLine", first + ": 1\r\n"], ["parseLine", other + ":2"], ["get", first], ["parseLine", "\tc"],
            ["getList", other], ["del", other], ["len"]]


def _sweep_pairs(alphabet, maxlen):
    for L in range(1, maxlen + 1):
        for t in itertools.product(alphabet, repeat=L):
            base = "".join(t)
            if not any(c.isalpha() for c in base):
                continue
            pats = list(_case_patterns(base))
            for f in pats:
                for o in pats:
                    if f != o:
                        yield f, o


def _sweep_cases(pairs, per_case=2):
    """chain `per_case` probes per case (short cases shrink well); the last pair is left in the map (two values, a
    continuation line) so that str / the parse(str(h)) round trip see the name too"""
    pairs = list(pairs)
    for i in range(0, len(pairs), per_case):
        chunk = pairs[i:i + per_case]
        ops = [o for f, o2 in chunk for o in _probe(f, o2)]
        f, o2 = chunk[-1]
        ops += [["add", f, "1"], ["parseLine", " c"], ["add", o2, "2"], ["get", f], ["str"], ["getAll"]]
        yield {"kind": "ops", "ops": ops, "sweep": True}


def _family_pairs():
    for fam in TOKEN_FAMILIES:
        sp = list(dict.fromkeys(fam + [fam[0].title(), fam[0].lower(), fam[0].upper(), fam[0].swapcase()]))
        for f in sp:
            for o in sp:
                if f != o:
                    yield f, o


def gen_cases(rng, tier):
    n_rand = {"quick": 2500, "thorough": 40000, "search": 4000}[tier]
    if tier == "quick":
        yield from _enum_cases(["a", "A", "b"], ["1", "2"], 2)
        yield from _enum_cases(["a", "A"], ["1"], 4)
        yield from _enum_cases(["P3P", "p3p"], ["1"], 3)
    elif tier == "thorough":
        yield from _enum_cases(["a", "A", "b"], ["1", "2"], 3)
        yield from _enum_cases(["a", "A"], ["1"], 5)
        yield from _enum_cases(["P3P", "p3p", "P3p"], ["1"], 3)
        yield from _enum_cases(["X_Y", "x_y"], ["1"], 4)
    if tier == "quick":
        yield from _enum_copy_cases(["a", "A"], 2, ["copy", "deepcopy", "pickle"])
    elif tier == "thorough":
        yield from _enum_copy_cases(["a", "A", "b"], 2, ["copy", "copy.copy", "ctor", "deepcopy", "pickle"])
        yield from _enum_copy_cases(["a", "A"], 3, ["copy", "deepcopy"])
    yield from _enum_mixin_cases(["a", "A"], 2 if tier != "thorough" else 3)
    for _ in range({"quick": 600, "thorough": 8000, "search": 600}[tier]):
        yield {"kind": "mixin", "ops": _rand_mixin_ops(rng, rng.randint(1, 20), _pick_names(rng))}
    # every spelling of every short token against every other spelling of the same token (all tiers: the search
    # stage needs it too), and the same for the listed real-world style names
    yield from _sweep_cases(_family_pairs())
    yield from _sweep_cases(_sweep_pairs(SWEEP_QUICK, 3))
    if tier == "thorough":
        yield from _sweep_cases(_sweep_pairs(SWEEP_QUICK, 4))
        yield from _sweep_cases(_sweep_pairs(SWEEP_FULL, 3))
    for _ in range(n_rand):
        k = rng.random()
        names = _pick_names(rng)
        if k < 0.12:
            # targeted: build a (possibly multi-valued) header, read it, fold a continuation line into it, read again
            name = rng.choice(names)
            ops = [["add", rng.choice([name, name.upper(), name.lower(), name.title()]), rng.choice(VALUES)] for _ in range(rng.randint(1, 3))]
            ops += rng.choice([[], [["get", name]], [["get", name], ["getAll"]], [["contains", name]]])
            ops += [["parseLine", rng.choice([" ", "\t", "  "]) + rng.choice(VALUES[:4] + ["x"]) + rng.choice(["", "\r\n", "\n"])]
                    for _ in range(rng.randint(1, 2))]
            ops += [["get", name], ["getList", name], ["str"], ["getAll"]]
            yield {"kind": "ops", "ops": ops}
        elif k < 0.6:
            yield {"kind": "ops", "ops": _rand_ops(rng, rng.randint(1, 30), names)}
        elif k < 0.8:
            yield {"kind": "copy", "ops": _rand_ops(rng, rng.randint(0, 12), names),
                   "after": _rand_ops(rng, rng.randint(1, 6), names), "mutate": rng.choice(["copy", "orig"]),
                   "after2": _rand_ops(rng, rng.randint(0, 6), names),
                   "via": rng.choice(["copy", "copy", "copy.copy", "ctor", "deepcopy", "pickle"])}
        else:
            text = "".join(_rand_line(rng, names) + rng.choice(["", "\n", "\r\n"]) for _ in range(rng.randint(0, 6)))
            if rng.random() < 0.35:
                # the multipart/form-data mode: any non-control character is a legal value character
                if rng.random() < 0.6:
                    text += "%s: %s%s" % (rng.choice(names), rng.choice(["Ā", "中 x", "a\x7fb", "x\x01", "é", "\x80\xff", "f\x0bg", "t\tu"]),
                                          rng.choice(["", "\r\n", "\n", "\r\n \u4e2d\r\n", "\n\tĀ \n", "\n \x7f"]))
                yield {"kind": "parse", "text": text, "bytes": False}
            else:
                yield {"kind": "parse", "text": text}


def _exc(e):
    from tornado.httputil import HTTPInputError
    if isinstance(e, HTTPInputError):
        return "HTTPInputError"
    if isinstance(e, KeyError):
        return "KeyError"
    return "Uncaught:" + type(e).__name__


def _apply(h, op):
    try:
        k = op[0]
        if k == "add":
            h.add(op[1], op[2]); return "U"
        if k == "set":
            h[op[1]] = op[2]; return "U"
        if k == "del":
            del h[op[1]]; return "U"
        if k == "get":
            return h[op[1]]
        if k == "getList":
            return list(h.get_list(op[1]))
        if k == "contains":
            return op[1] in h
        if k == "keys":
            return list(h)
        if k == "getAll":
            return [list(p) for p in h.get_all()]
        if k == "len":
            return len(h)
        if k == "parseLine":
            h.parse_line(op[1]); return "U"
        if k == "str":
            return str(h)
        raise AssertionError(k)
    except Exception as e:
        return _exc(e)


def _replay(ops):
    from tornado.httputil import HTTPHeaders
    h = HTTPHeaders()
    for op in ops:
        _apply(h, op)
    return h


def _reports(h, name, with_getitem):
    """which public read APIs report `name` as present (h[name] last: it fills the combined-value cache)"""
    r = []
    try:
        if name in h:
            r.append("in")
        if name in list(h):
            r.append("iter")
        if any(k == name for k, _ in h.get_all()):
            r.append("get_all")
        if h.get_list(name):
            r.append("get_list")
        if with_getitem:
            try:
                h[name]
                r.append("getitem")
            except KeyError:
                pass
    except Exception as e:
        r.append(_exc(e))
    return r


def _cuts(ops):
    """history prefixes at which presence is probed: every prefix of a short history, else the end of the history,
    the points just before each trailing read, and evenly spaced ones"""
    n = len(ops)
    if n <= 10:
        return list(range(1, n + 1))
    cuts = {n}
    for i in range(n - 1, 0, -1):          # strip trailing reads: the state before a `get` has no cache entry yet
        if ops[i][0] in ("add", "set", "del", "parseLine"):
            cuts.add(i + 1)
            break
    cuts.update(range(n // 6, n, max(1, n // 6)))
    return sorted(c for c in cuts if c >= 1)


def _present_probes(ops):
    """The clause "any name reported present can be deleted", applied DIRECTLY to the implementation (no model, no
    multimap): at several points of the history, for every name in play, replay the history on a fresh object,
    ask every read API whether the name is present, delete it (under the same and under another spelling), and ask
    again.  Returns only the offending probes (normally [])."""
    bad = []
    for cut in _cuts(ops):
        prefix = ops[:cut]
        cands = {}
        for o in prefix:
            if len(o) > 1 and o[0] != "parseLine" and isinstance(o[1], str):
                cands.setdefault(o[1].lower(), o[1])
        try:
            for k in list(_replay(prefix)):
                cands.setdefault("=" + k, k)         # the displayed spelling as well
        except Exception:
            pass
        for name in list(cands.values())[:8]:
            for with_getitem in (False, True):
                for spelling in (name, name.swapcase()):
                    if with_getitem and spelling != name:
                        continue
                    h = _replay(prefix)
                    rep = _reports(h, name, with_getitem)
                    if not rep:
                        continue
                    d = _apply(h, ["del", spelling])
                    after = _reports(h, name, True) if d == "U" else []
                    if d != "U" or after:
                        bad.append([cut, name, rep, spelling, d, after])
            if len(bad) >= 3:
                return bad
    return bad


# ---- MutableMapping mixin methods (pop / setdefault / items / update / popitem / clear / get with default) --------
# They are stdlib code running on top of the modelled primitives.  A mixin op is executed for real on HTTPHeaders and
# EXPANDED into the primitive ops `collections.abc.MutableMapping` performs, which model and multimap then run; the
# primitive outputs are folded back into the mixin's result.  Where the expansion depends on the state (setdefault:
# is the key there?  items/popitem/clear: which keys?) it uses what the implementation reported through `in` /
# iteration just before the call — and that report is itself part of the expansion (`contains` / `keys`), so a wrong
# report shows up as a mismatch.
MIXINS = ("pop", "popd", "getd", "setdefault", "items", "update", "popitem", "clear")


def _apply_mixin(h, op):
    """-> (output, aux)"""
    k = op[0]
    aux = None
    try:
        if k in ("setdefault", "pop", "popd", "getd"):
            aux = op[1] in h
        elif k in ("items", "popitem", "clear"):
            aux = list(h)
        if k == "pop":
            return h.pop(op[1]), aux
        if k == "popd":
            return h.pop(op[1], op[2]), aux
        if k == "getd":
            return h.get(op[1], op[2]), aux
        if k == "setdefault":
            return h.setdefault(op[1], op[2]), aux
        if k == "items":
            return [list(p) for p in h.items()], aux
        if k == "update":
            h.update([tuple(p) for p in op[1]]); return "U", aux
        if k == "popitem":
            return list(h.popitem()), aux
        if k == "clear":
            h.clear(); return "U", aux
        raise AssertionError(k)
    except Exception as e:
        return _exc(e), aux


def _expand(case, impl):
    """-> (primitive ops, plan); plan[i] = (first primitive index, count) of case op i"""
    prims, plan = [], []
    for op, aux in zip(case["ops"], impl["aux"]):
        k = op[0]
        if k in ("pop", "popd"):
            e = [["get", op[1]], ["del", op[1]]]
        elif k == "getd":
            e = [["get", op[1]]]
        elif k == "setdefault":
            e = [["contains", op[1]], ["get", op[1]]] + ([] if aux else [["set", op[1], op[2]]])
        elif k == "items":
            e = [["keys"]] + [["get", x] for x in aux]
        elif k == "update":
            e = [["set", n, v] for n, v in op[1]]
        elif k == "popitem":
            e = [["keys"]] + ([["get", aux[0]], ["del", aux[0]]] if aux else [])
        elif k == "clear":
            e = [["keys"]] + [["del", x] for x in aux]     # popitem's `self[key]` only fills a cache entry that `del` drops
        else:
            e = [op]
        plan.append((len(prims), len(e)))
        prims += e
    return prims, plan


def _unfold(case, impl):
    """what the primitive ops of the expansion must have returned, given what the mixin call returned (and what
    `in` / iteration reported just before it); "IMPL-INCONSISTENT" where no primitive outputs explain the result"""
    outs = []
    for op, aux, out in zip(case["ops"], impl["aux"], impl["outs"]):
        k = op[0]
        bad = []
        if k == "pop":
            e = [out, "U"] if aux else ["KeyError", "KeyError"]
            bad = [] if aux or out == "KeyError" else ["IMPL-INCONSISTENT"]
        elif k == "popd":
            e = [out, "U"] if aux else ["KeyError", "KeyError"]
            bad = [] if aux or out == op[2] else ["IMPL-INCONSISTENT"]
        elif k == "getd":
            e = [out] if aux else ["KeyError"]
            bad = [] if aux or out == op[2] else ["IMPL-INCONSISTENT"]
        elif k == "setdefault":
            e = [True, out] if aux else [False, "KeyError", "U"]
            bad = [] if aux or out == op[2] else ["IMPL-INCONSISTENT"]
        elif k == "items":
            ok = isinstance(out, list) and [p[0] for p in out] == aux
            e = [aux] + ([p[1] for p in out] if ok else ["IMPL-INCONSISTENT"])
        elif k == "update":
            e = ["U"] * len(op[1])
            bad = [] if out == "U" else ["IMPL-INCONSISTENT"]
        elif k == "popitem":
            if aux:
                ok = isinstance(out, list) and out[0] == aux[0]
                e = [aux, out[1] if ok else "IMPL-INCONSISTENT", "U"]
            else:
                e = [aux]
                bad = [] if out == "KeyError" else ["IMPL-INCONSISTENT"]
        elif k == "clear":
            e = [aux] + ["U"] * len(aux)
            bad = [] if out == "U" else ["IMPL-INCONSISTENT"]
        else:
            e = [out]
        outs += e + bad
    return outs


def _rand_mixin_ops(rng, n, names):
    ops = []
    for _ in range(n):
        if rng.random() < 0.55:
            ops += _rand_ops(rng, 1, names)
            continue
        k = rng.choice(MIXINS + ("pop", "setdefault", "items"))
        name = rng.choice(names)
        if k == "pop":
            ops.append(["pop", name])
        elif k in ("popd", "getd", "setdefault"):
            ops.append([k, name, rng.choice(VALUES)])
        elif k == "update":
            ops.append(["update", [[rng.choice(names), rng.choice(VALUES)] for _ in range(rng.randint(0, 3))]])
        else:
            ops.append([k])
    return ops


def _enum_mixin_cases(names, maxlen):
    muts = [["add", n, "1"] for n in names] + [["get", n] for n in names] + [["pop", n] for n in names] \
        + [["setdefault", n, "2"] for n in names] + [["popd", names[0], "d"], ["items"], ["popitem"], ["clear"],
           ["update", [[names[0], "3"], [names[-1], "4"]]], ["parseLine", " c"]]
    tail = [["items"], ["getAll"], ["getd", names[-1], "d"], ["pop", names[0]], ["len"], ["popitem"], ["keys"]]
    for L in range(1, maxlen + 1):
        for seq in itertools.product(muts, repeat=L):
            yield {"kind": "mixin", "ops": [list(o) for o in seq] + tail, "enum": True}


def _via_pickle(h):
    import pickle
    return pickle.loads(pickle.dumps(h))


def _via_deepcopy(h):
    import copy
    return copy.deepcopy(h)


def _via_copycopy(h):
    import copy
    return copy.copy(h)


def _via_ctor(h):
    from tornado.httputil import HTTPHeaders
    return HTTPHeaders(h)


# every way of copying a header map; "deep" ones (deepcopy / pickle round trip) duplicate the whole object
# state (cache, _last_key), the others go through the copy constructor (re-`add` every pair)
_COPY_VIA = {"copy": lambda h: h.copy(), "copy.copy": _via_copycopy, "ctor": _via_ctor,
             "deepcopy": _via_deepcopy, "pickle": _via_pickle}
_DEEP = ("deepcopy", "pickle")


def _copy_arg(case):
    enc_ops = lambda ops: [[atom(o[0])] + o[1:] for o in ops]
    return [enc_ops(case["ops"]), enc_ops(case["after"]), enc_ops(case.get("after2", [])),
            atom("deep" if case.get("via", "copy") in _DEEP else "ctor"), atom(case["mutate"])]


def run_impl(case):
    from tornado.httputil import HTTPHeaders
    if case["kind"] == "ops":
        h = HTTPHeaders()
        outs = [_apply(h, op) for op in case["ops"]]
        extra = {"present": _present_probes(case["ops"])}
        pairs = [list(p) for p in h.get_all()]
        if all(TOKEN.match(k) and FIELD_VALUE.match(v) for k, v in pairs):
            try:
                h2 = HTTPHeaders.parse(str(h))
                # "an equal map": the same (name, value) pairs in the same order, and equal as mappings (==, both ways)
                extra["roundtrip"] = [list(p) for p in h2.get_all()] == pairs and bool(h2 == h) and bool(h == h2) \
                    and list(h2) == list(h)
            except Exception as e:
                extra["roundtrip"] = _exc(e)
        return {"outs": outs, **extra}
    if case["kind"] == "mixin":
        h = HTTPHeaders()
        outs, auxs = [], []
        for op in case["ops"]:
            if op[0] in MIXINS:
                o, a = _apply_mixin(h, op)
            else:
                o, a = _apply(h, op), None
            outs.append(o); auxs.append(a)
        return {"outs": outs, "aux": auxs}
    if case["kind"] == "parse":
        try:
            h = HTTPHeaders.parse(case["text"]) if case.get("bytes", True) else \
                HTTPHeaders.parse(case["text"], _chars_are_bytes=False)
            return {"pairs": [list(p) for p in h.get_all()], "keys": list(h)}
        except Exception as e:
            return {"pairs": _exc(e)}
    if case["kind"] == "copy":
        h = HTTPHeaders()
        for op in case["ops"]:
            _apply(h, op)
        try:
            c = _COPY_VIA[case.get("via", "copy")](h)
        except Exception as e:
            return {"copy": _exc(e)}
        snap = lambda x: [[list(p) for p in x.get_all()], str(x), list(x), [x.get_list(k) for k in list(x)], len(x)]
        before_copy = [list(p) for p in c.get_all()]
        target, other = (c, h) if case["mutate"] == "copy" else (h, c)
        other_before = snap(other)          # read-only snapshot (no h[k]: that would fill the other's cache)
        outs = [_apply(target, op) for op in case["after"]]
        independent = snap(other) == other_before
        # ... and the OTHER object goes on with a history of its own: its outputs must not have seen `after`
        outs2 = [_apply(other, op) for op in case.get("after2", [])]
        return {"copy": before_copy, "independent": independent, "outs": outs, "outs2": outs2}
    raise AssertionError(case)


def model_requests(case, impl):
    if case["kind"] == "ops":
        return [line(ID, "run", [[atom(o[0])] + o[1:] for o in case["ops"]])]
    if case["kind"] == "mixin":
        return [line(ID, "run", [[atom(o[0])] + o[1:] for o in _expand(case, impl)[0]])]
    if case["kind"] == "parse":
        return [line(ID, "parse" if case.get("bytes", True) else "parseU", case["text"])]
    return [line(ID, "copyrun", _copy_arg(case))]


def _norm(v):
    if isinstance(v, Atom):
        return {"T": True, "F": False}.get(str(v), str(v))
    if isinstance(v, list):
        return [_norm(x) for x in v]
    return v


def _py(reply):
    st, vals = parse_reply(reply)
    assert st == "ok", reply
    return _norm(vals[0])


def model_result(case, replies):
    if case["kind"] == "ops":
        return _py(replies[0])
    if case["kind"] == "mixin":
        return _py(replies[0])          # outputs of the primitive ops of the expansion (impl side: _unfold)
    if case["kind"] == "parse":
        return _py(replies[0])
    st, vals = parse_reply(replies[0])
    assert st == "ok", replies[0]
    return [_norm(v) for v in vals]     # [error] or [pairs of the copy, outputs of `after`, outputs of `after2`]


def impl_view(case, impl):
    """the part of the implementation's result the model predicts"""
    if case["kind"] == "ops":
        return impl["outs"]
    if case["kind"] == "mixin":
        return _unfold(case, impl)
    if case["kind"] == "parse":
        return impl["pairs"]
    if isinstance(impl["copy"], str):
        return [impl["copy"]]
    return [impl["copy"], impl["outs"], impl["outs2"]]


_FORBIDDEN = re.compile(r"[\x00-\x08\x0a-\x1f\x7f]")


def _ref_parse(text, as_bytes):
    """Reference reader for a whole header block, written from RFC 9112 §5 / the docstrings, not from the code:
    LF-terminated lines (an optional CR before the LF belongs to the terminator; an unterminated last line is taken
    as is), empty lines ignored, `name ":" OWS value OWS` field lines, obs-fold lines (leading SP/HTAB) extend the
    value of the previous field line by one SP + the stripped text.  Names are tokens, compared case-insensitively;
    values are field-values (as_bytes) or any text without control characters (multipart part headers).
    -> [[lower-cased name, [values]], …] in order of first appearance, or "HTTPInputError"."""
    pieces = text.split("\n")
    lines = [p[:-1] if p.endswith("\r") else p for p in pieces[:-1]] + [pieces[-1]]
    ok_value = (lambda v: FIELD_VALUE.match(v) is not None) if as_bytes else (lambda v: not _FORBIDDEN.search(v))
    fields = []        # (lower name, value) per field line, obs-folds merged
    for ln in lines:
        if ln == "":
            continue
        if ln[0] in " \t":
            if not fields:
                return "HTTPInputError"
            part = ln.strip(" \t")
            if not ok_value(part):
                return "HTTPInputError"
            fields[-1][1] += " " + part
            continue
        name, colon, value = ln.partition(":")
        value = value.strip(" \t")
        if not colon or not TOKEN.match(name) or not ok_value(value):
            return "HTTPInputError"
        fields.append([name.lower(), value])
    out = {}
    for k, v in fields:
        out.setdefault(k, []).append(v)
    return [[k, vs] for k, vs in out.items()]


def _lines_keep_lf(text):
    """HTTPHeaders.parse feeds parse_line one line at a time, each with its LF, the rest without"""
    pieces = text.split("\n")
    return [p + "\n" for p in pieces[:-1]] + [pieces[-1]]


def spec_requests(case, impl):
    if case["kind"] == "ops":
        return [line(ID, "spec", [[atom(o[0])] + o[1:] for o in case["ops"]])]
    if case["kind"] == "mixin":
        return [line(ID, "spec", [[atom(o[0])] + o[1:] for o in _expand(case, impl)[0]])]
    if case["kind"] == "parse":
        if not case.get("bytes", True):
            return []       # the Lean multimap validates values as bytes; this mode is judged by _ref_parse only
        # parse(text) = the multimap after parse_line on every line (first error wins)
        return [line(ID, "spec", [[atom("parseLine"), l] for l in _lines_keep_lf(case["text"])]
                     + [[atom("getAll")], [atom("keys")]])]
    return [line(ID, "speccopyrun", _copy_arg(case))]


def _ci(op, out):
    """The property keys the map by the case-insensitive name; it does not say in which spelling a name is
    *displayed*.  The oracle therefore compares displayed names (keys / get_all / str) up to ASCII case
    (the exact display form, Http-Header-Case, is part of the model correspondence only)."""
    try:
        if op == "keys" and isinstance(out, list):
            return [k.lower() for k in out]
        if op == "getAll" and isinstance(out, list):
            return [[k.lower(), v] for k, v in out]
        if op == "str" and isinstance(out, str) and not out.startswith("Uncaught"):
            ls = []
            for l in out.split("\n"):
                i = l.find(": ")
                ls.append(l if i < 0 else l[:i].lower() + l[i:])
            return "\n".join(ls)
    except Exception:
        pass
    return out


def spec_violation(case, impl, replies):
    if case["kind"] == "ops":
        want = _py(replies[0])
        got = impl["outs"]
        for i, (op, w, g) in enumerate(zip(case["ops"], want, got)):
            if _ci(op[0], w) != _ci(op[0], g):
                return "op %d %r: multimap says %r, HTTPHeaders gave %r" % (i, op, w, g)
        # present => deletable, directly on the implementation (every read API, every probed point of the history);
        # it is ALSO part of the multimap outputs above (Spec.del succeeds iff Spec.contains)
        for cut, name, rep, spelling, d, after in impl.get("present") or []:
            if d != "U":
                return "present-deletable: after %d ops %r is reported present by %s but del h[%r] gave %s" % (cut, name, "/".join(rep), spelling, d)
            return "present-deletable: after %d ops and del h[%r], %r is still reported present by %s" % (cut, spelling, name, "/".join(after))
        if impl.get("roundtrip") not in (None, True):
            return "parse(str(h)) != h: %r" % (impl["roundtrip"],)
        return None
    if case["kind"] == "mixin":
        prims, plan = _expand(case, impl)
        want, got = _py(replies[0]), _unfold(case, impl)
        for (op, (i, n)) in zip(case["ops"], plan):
            for p, w, g in zip(prims[i:i + n], want[i:i + n], got[i:i + n]):
                if _ci(p[0], w) != _ci(p[0], g):
                    return "mixin %r (as %r): multimap says %r, HTTPHeaders implies %r" % (op[:2], p, w, g)
        if "IMPL-INCONSISTENT" in got:
            return "mixin result not explained by the primitive operations: %r" % (got,)
        return None
    if case["kind"] == "copy":
        if isinstance(impl["copy"], str):
            # copy() of a map holding values add() would reject (put there by __setitem__) may raise HTTPInputError
            return None if impl["copy"] == "HTTPInputError" else "copy raised %s" % impl["copy"]
        if not impl["independent"]:
            return "mutating the %s changed the other map" % case["mutate"]
        # both objects are multimaps in their own right: the copy = a fresh multimap with the same pairs
        # (Spec.copy), the original = the multimap it was; each continues with its OWN history
        st, vals = parse_reply(replies[0])
        want = [_norm(v) for v in vals]
        if _ci("getAll", want[0]) != _ci("getAll", impl["copy"]):
            return "the copy holds %r, the multimap %r" % (impl["copy"], want[0])
        who = (case["mutate"], "orig" if case["mutate"] == "copy" else "copy")
        for ops, w_outs, g_outs, obj in ((case["after"], want[1], impl["outs"], who[0]),
                                         (case.get("after2", []), want[2], impl["outs2"], who[1])):
            for i, (op, w, g) in enumerate(zip(ops, w_outs, g_outs)):
                if obj == "copy" and op[0] == "parseLine" and op[1][:1] in (" ", "\t"):
                    # which field line a continuation line extends right after a copy (the last pair? the
                    # original's last added one?) is not fixed by the property: not judged from here on
                    # (the model correspondence still pins the actual behaviour)
                    break
                if _ci(op[0], w) != _ci(op[0], g):
                    return "on the %s, op %d %r: multimap says %r, HTTPHeaders gave %r" % (obj, i, op, w, g)
        return None
    if case["kind"] == "parse":
        if isinstance(impl["pairs"], str) and impl["pairs"].startswith("Uncaught"):
            return "HTTPHeaders.parse raised %s" % impl["pairs"]
        # (1) an independent batch reader of the header block (shares nothing with the Lean model/Spec)
        ref = _ref_parse(case["text"], case.get("bytes", True))
        if isinstance(ref, str) or isinstance(impl["pairs"], str):
            if ref != impl["pairs"]:
                return "reference reader: want %r, HTTPHeaders.parse gave %r" % (ref, impl["pairs"])
        else:
            got = {}
            for k, v in impl["pairs"]:
                got.setdefault(k.lower(), []).append(v)
            if [[k, vs] for k, vs in got.items()] != ref or [k.lower() for k in impl.get("keys", [])] != [k for k, _ in ref]:
                return "reference reader: want %r, HTTPHeaders.parse gave %r" % (ref, impl["pairs"])
        if not case.get("bytes", True):
            return None
        # (2) the Lean multimap, line by line
        outs = _py(replies[0])
        errs = [o for o in outs[:-2] if o != "U"]
        want = errs[0] if errs else outs[-2]
        if _ci("getAll", want) != _ci("getAll", impl["pairs"]):
            return "differs from the line-by-line multimap: want %r, HTTPHeaders.parse gave %r" % (want, impl["pairs"])
        # get_all flattens: one name with two values and two adjacent spellings of it look alike; the keys do not
        if not errs and _ci("keys", outs[-1]) != _ci("keys", impl.get("keys")):
            return "differs from the line-by-line multimap: names %r, HTTPHeaders.parse has %r" % (outs[-1], impl.get("keys"))
    return None


def nontrivial(case, impl):
    if case["kind"] == "ops":
        seen = {}
        for o in case["ops"]:
            if o[0] == "add":
                seen[o[1].lower()] = seen.get(o[1].lower(), 0) + 1
        return any(v >= 2 for v in seen.values()) and any(o[0] in ("get", "del") for o in case["ops"])
    if case["kind"] == "mixin":
        return any(o[0] in MIXINS for o in case["ops"])
    if case["kind"] == "parse":
        return isinstance(impl["pairs"], list) and len(impl["pairs"]) >= 1
    return len(case["ops"]) > 0


def stats(case, impl):
    out = ["kind:" + case["kind"] + ("-sweep" if case.get("sweep") else "")]
    if case["kind"] == "mixin":
        out += ["mixin:" + o[0] for o in case["ops"] if o[0] in MIXINS]
    if case["kind"] == "parse":
        out += ["parse-mode:" + ("bytes" if case.get("bytes", True) else "chars"),
                "parse:" + (impl["pairs"] if isinstance(impl["pairs"], str) else "ok")]
    if case["kind"] == "copy":
        out += ["copy-via:" + case.get("via", "copy"), "copy-mutate:" + case["mutate"],
                "copy:" + ("raised" if isinstance(impl["copy"], str) else "ok")]
    if case["kind"] == "ops":
        if any(len(o) > 1 and o[0] != "parseLine" and _LETTER_AFTER_NONLETTER.search(o[1]) for o in case["ops"]):
            out.append("names:letter-after-digit-or-punct")
        out.append("len:%d" % min(30, len(case["ops"]) // 5 * 5))
        for o, r in zip(case["ops"], impl["outs"]):
            out.append("op:" + o[0])
            if isinstance(r, str) and r in ("KeyError", "HTTPInputError"):
                out.append("err:%s:%s" % (o[0], r))
    return out


def signature(case, impl, why):
    if case["kind"] == "ops":
        if why.startswith("present-deletable"):
            return "ops/present-deletable/" + ("not-deletable" if " gave " in why else "still-present")
        m = re.match(r"op \d+ \['(\w+)'", why)
        return "ops/%s/%s" % (m.group(1) if m else "roundtrip", "uncaught" if "Uncaught" in why else "wrong-output")
    m = re.match(r"mixin \['(\w+)'", why)
    if m:
        return "mixin/%s/%s" % (m.group(1), "uncaught" if "Uncaught" in why else "wrong-output")
    m = re.match(r"on the (\w+), op \d+ \['(\w+)'", why)
    if m:
        return "copy/%s/%s/%s" % (m.group(1), m.group(2), "uncaught" if "Uncaught" in why else "wrong-output")
    return case["kind"] + "/" + re.sub(r"[^a-zA-Z]+", "-", why)[:40]


def shrink(case):
    if case["kind"] in ("ops", "copy", "mixin"):
        ops = case["ops"]
        size = len(ops) // 2
        while size > 1:     # drop whole chunks first (chained probes), then single ops
            for i in range(0, len(ops), size):
                yield {**case, "ops": ops[:i] + ops[i + size:]}
            size //= 2
        for i in range(len(ops)):
            yield {**case, "ops": ops[:i] + ops[i + 1:]}
    if case["kind"] == "copy":
        for fld in ("after", "after2"):
            a = case.get(fld, [])
            for i in range(len(a)):
                yield {**case, fld: a[:i] + a[i + 1:]}
    if case["kind"] == "parse":
        t = case["text"]
        for i in range(len(t)):
            yield {**case, "text": t[:i] + t[i + 1:]}


def describe(case):
    return case
