"""C10 — TCP connection racing (`tornado.tcpclient._Connector`) resolves exactly once and leaks no sockets.

The real `_Connector` is driven on the virtual loop with fake streams whose connect futures the harness
completes in the order a schedule dictates; the two timers are fired by moving the virtual clock to their
deadlines.  After `start()` and after every event the observable state is compared with the Lean model
(`C10 run`) and judged by the Lean specification (`C10 spec`).

The `connect` callable is the environment.  Per list entry its CALL has one of three outcomes: it returns a stream
with a pending connect future, it returns a stream whose future has already failed, or it RAISES (what
`TCPClient._create_stream` does when `bind()` fails) — `addrs[i][1]` is False / True / "R".
"""
import itertools
from core.wire import atom, line, parse_reply, Atom

ID = "C10"
LEAN_TARGETS = ["TornadoModel.C10.Props"]
_P = "TornadoModel.C10."
THEOREMS = [_P + n for n in [
    "resolved_once", "outcome_stable", "winner_step", "winner_is_first_success", "ok_only_from_success",
    "timeout_only_from_ctick", "fail_only_from_failure_or_tick", "no_new_streams_after_done",
    "split_keeps_every_entry",
    "inv_reachable", "remaining_accounting", "inflight_undelivered", "winner_step_reachable",
    "winner_is_first_success_reachable", "losers_closed", "one_inflight_per_family_general",
    "one_inflight_per_family", "error_iff_all_failed", "quiescent_inflight", "completes_when_idle",
    "all_failed_completes", "model_run_ok_refuted", "model_run_ok_partial", "first_success_wins",
    "one_stream_per_entry",
]]
TRUSTED = [
    "asyncio: FIFO order of call_soon callbacks, Future done-callbacks scheduled once, TimerHandle.cancel",
    "tornado.concurrent.future_add_done_callback (runs the callback immediately for a finished future)",
    "core/vloop.py (virtual clock; a timer fires when the clock is moved to its deadline)",
    "the fake stream: close() on a stream whose connect is pending fails the connect future (as IOStream does); "
    "a failed connect leaves the stream closed",
    "a `connect` callable that raises has released what it created (TCPClient._create_stream: socket_obj.close() before "
    "the re-raise); the harness records such a call as a failed, closed stream that was never handed to the connector",
]
ASSUMPTIONS = [
    "the resolved address list is non-empty (`_Connector([])` raises IndexError in split(); getaddrinfo never returns [])",
    "the list may repeat a (family, address) entry (hosts file / custom resolvers do); the fake `connect` serves the k-th "
    "call for one (family, address) as the k-th entry listing it (the code keeps list order inside a family queue)",
    "addresses belong to at most two families (the statement's scope); 'one attempt per family' is per queue otherwise",
    "a connect future completes at most once; completions of a closed stream are not reported by the environment",
    "nobody but the connector completes or cancels the connector's future",
    "scope = `_Connector` (the racing state machine) driven through its `connect` callable; `TCPClient.connect`'s own "
    "legs around it (resolver timeout, `gen.with_timeout` + `start_tls` after the connector is done) are not modelled, "
    "generated or judged",
]
RULE = ("address lists of 1-4 entries over two families with a per-entry outcome of the connect CALL (returns a pending "
        "future / returns an already-failed future / RAISES), with/without connect "
        "timeout; entries may repeat a (family, address) pair (adjacent, non-adjacent, in either family; the same address "
        "text in both families is two addresses); schedules of up to 7 events: batches of 1-3 completions (success/failure "
        "of the k-th in-flight attempt), happy-eyeballs timer, connect timer; quick: random (40% with repeated addresses, "
        "a third of the schedules failure-heavy) + all schedules of length <=2 for the 15 fully asynchronous duplicate-free "
        "address lists and for the 8 lists of <=3 entries that repeat an address (the 39 such lists of 4 entries: length <=1), "
        "plus 4 fail-every-attempt schedules per duplicate list, x connect-timeout on/off; every list of <=3 entries in "
        "which a connect call raises: pending/raise patterns with all schedules of length <=2, mixed with failed futures "
        "<=1, 4 entries one shorter (so the call raises inside start(), inside on_timeout and inside on_connect_done), "
        "plus 4 fail-every-attempt schedules around both timers; thorough: all of these one event "
        "longer. "
        "non-trivial = >=2 streams opened and the future completed")
EXHAUSTIVE = {"quick": False, "thorough": False}
CLAUSES = {
    "a TCP connect completes exactly once": "resolved_once + outcome_stable (at most once, never changes); that it does complete at quiescence: completes_when_idle (Spec clause 6 on every reachable state) + quiescent_inflight. All run-level theorems range over mkNamedR lists, i.e. every entry's connect call may return a pending future, return a failed future or RAISE (model of the repaired try_connect; on the unrepaired code a raising call made this clause false — known_findings/C10.json, fixed)",
    "with the first connection that succeeded": "first_success_wins (Spec clause 2 for every reachable pending state and every batch without fail-then-succ of one stream) + winner_is_first_success_reachable + winner_step_reachable (no hypothesis on `delivered`: inflight_undelivered) + winner_is_first_success + winner_step + ok_only_from_success",
    "or with an error once every address has failed or the timeout fired": "timeout_only_from_ctick + fail_only_from_failure_or_tick; split_keeps_every_entry (the attempt queues hold len(addrinfo) entries, the start value of `remaining`); error_iff_all_failed (ONLY the direction '=>' despite the name: an error other than the timeout => every ENTRY was attempted and every stream failed; from inv_reachable / remaining_accounting: remaining = queued + undelivered across both queues); 'every address has failed' => completed: all_failed_completes (Spec clause 8) + completes_when_idle; model_run_ok_goal is false as stated (model_run_ok_refuted: ill-formed batch `fail s, succ s`); model_run_ok_partial: the whole checker (clauses 1-8) accepts every model run on schedules satisfying the decidable side condition wfEvents",
    "every other socket it opened is closed": "losers_closed (Spec clause 4 on every reachable state: winner open, every other stream closed; all closed after error/timeout) + no_new_streams_after_done",
    "at most one attempt per address family is in flight at a time": "one_inflight_per_family (Spec clause 5 on every reachable state; its `fam <= 1` hypothesis is unused — one_inflight_per_family_general is the same statement for any number of families)",
}
PARALLEL = False      # 5000 cases take ~2.5 s serially; a forked pool only adds stalls on a loaded machine
CASE_TIMEOUT = 60

ALPHABET = [["b", [[0, True]]], ["b", [[0, False]]], ["b", [[1, True]]], ["b", [[1, False]]],
            ["b", [[0, True], [0, True]]], ["b", [[0, False], [0, True]]], ["b", [[0, True], [0, False]]],
            ["t"], ["c"]]


RAISE = "R"      # per-entry outcome of the connect CALL: False = pending future, True = already-failed future,
                 # "R" = the callable raises (what TCPClient._create_stream does when bind() fails)


def _configs(sync, sizes=(1, 2, 3, 4), values=(False, True, RAISE)):
    for n in sizes:
        for fams in itertools.product([0, 1], repeat=n - 1):
            fl = [0] + list(fams)
            syncs = itertools.product(values, repeat=n) if sync else [tuple([False] * n)]
            for sy in syncs:
                yield [[f, s] for f, s in zip(fl, sy)]


def _raise_configs(sizes, values):
    """every list over two families (first family 0) in which at least one connect call raises"""
    return [a for a in _configs(True, sizes, values) if any(x[1] == RAISE for x in a)]


def _rand_sync(rng, p):
    """the connect call fails synchronously with probability p: half by raising, half by a failed future"""
    r = rng.random()
    return RAISE if r < p / 2 else r < p


def _partitions(n):
    """restricted growth strings of length n = the set partitions of n positions"""
    def go(prefix, mx):
        if len(prefix) == n:
            yield list(prefix)
            return
        for b in range(mx + 2):
            yield from go(prefix + [b], max(mx, b))
    yield from go([], -1)


def _dup_configs(sizes=(2, 3, 4)):
    """every fully asynchronous list [[fam, False, name], ...] (first family 0) in which some (fam, name) pair occurs
    more than once: per family every partition of its positions into equal-address blocks, block number = name (so
    the same name also appears in both families, where it is NOT a repetition)"""
    for n in sizes:
        for fams in itertools.product([0, 1], repeat=n - 1):
            fl = [0] + list(fams)
            pos = [[i for i in range(n) if fl[i] == f] for f in (0, 1)]
            for p0 in _partitions(len(pos[0])):
                for p1 in _partitions(len(pos[1])):
                    names = [0] * n
                    for i, b in zip(pos[0], p0):
                        names[i] = b
                    for i, b in zip(pos[1], p1):
                        names[i] = b
                    if len({(fl[i], names[i]) for i in range(n)}) < n:
                        yield [[fl[i], False, names[i]] for i in range(n)]


FAIL_ALL = [["b", [[0, False]]]] * 5      # fail the oldest in-flight attempt, five times: every attempt of <=4 entries


def _rand_event(rng, p_ok=0.4):
    k = rng.random()
    if k < 0.62:
        n = 1 if rng.random() < 0.75 else rng.choice([2, 2, 3])
        return ["b", [[rng.randrange(3), rng.random() < p_ok] for _ in range(n)]]
    if k < 0.84:
        return ["t"]
    return ["c"]


def gen_cases(rng, tier):
    n_rand = {"quick": 2500, "thorough": 30000, "search": 4000}[tier]
    depth = {"quick": 2, "thorough": 3, "search": 0}[tier]
    if depth:
        for addrs in _configs(False):
            for ct in (False, True):
                for L in range(0, depth + 1):
                    for ev in itertools.product(ALPHABET, repeat=L):
                        yield {"addrs": addrs, "ct": ct, "events": [list(e) for e in ev], "enum": True}
        # lists that repeat an address (same family + address: adjacent, non-adjacent, in either family)
        for addrs in _dup_configs():
            d = depth if len(addrs) <= 3 else depth - 1
            for ct in (False, True):
                for L in range(0, d + 1):
                    for ev in itertools.product(ALPHABET, repeat=L):
                        yield {"addrs": addrs, "ct": ct, "events": [list(e) for e in ev], "enum": True}
                # every attempt fails, one by one: alone / after the fallback timer / then the connect timer
                for pre, post in (([], []), ([["t"]], []), ([], [["c"]]), ([["b", [[1, False]]]], [])):
                    yield {"addrs": addrs, "ct": ct, "events": pre + [list(e) for e in FAIL_ALL] + post, "enum": True}
        # lists in which a connect call RAISES (in start(), inside on_timeout, inside on_connect_done): every
        # pending/raise pattern of <=3 entries to the full depth, mixed with failed futures one event shorter,
        # 4 entries one event shorter again; plus "every attempt fails" around the fallback / connect timer
        seen = set()
        for cfgs, d in ((_raise_configs((1, 2, 3), (False, RAISE)), depth),
                        (_raise_configs((1, 2, 3), (False, True, RAISE)), depth - 1),
                        (_raise_configs((4,), (False, RAISE)), depth - 1),
                        (_raise_configs((4,), (False, True, RAISE)), depth - 2)):
            for addrs in cfgs:
                key = repr(addrs)
                if key in seen or d < 1:      # (the 400 mixed lists of 4 entries: thorough only)
                    continue
                seen.add(key)
                for ct in (False, True):
                    for L in range(0, d + 1):
                        for ev in itertools.product(ALPHABET, repeat=L):
                            yield {"addrs": addrs, "ct": ct, "events": [list(e) for e in ev], "enum": True}
                    for pre, post in (([], []), ([["t"]], []), ([], [["c"]]), ([["t"]], [["c"]])):
                        yield {"addrs": addrs, "ct": ct, "events": pre + [list(e) for e in FAIL_ALL] + post,
                               "enum": True}
    all_cfg = list(_configs(True))
    dup_cfg = list(_dup_configs())
    for _ in range(n_rand):
        k = rng.random()
        if k < 0.3:
            addrs = rng.choice(all_cfg)
        elif k < 0.6:
            n = rng.randint(1, 4)
            f0 = rng.randrange(2)
            addrs = [[f0 if i == 0 else rng.randrange(2), _rand_sync(rng, 0.3)] for i in range(n)]
        elif k < 0.8:     # an enumerated duplicate pattern, random synchronous failures
            addrs = [[f, _rand_sync(rng, 0.3), nm] for f, _, nm in rng.choice(dup_cfg)]
        else:             # names from a small pool: repetitions inside a family and equal names across families
            n = rng.randint(2, 4)
            f0 = rng.randrange(2)
            pool = rng.choice([1, 2, 2, 3])
            addrs = [[f0 if i == 0 else rng.randrange(2), _rand_sync(rng, 0.3), rng.randrange(pool)] for i in range(n)]
        p_ok = 0.4 if rng.random() < 0.67 else 0.05      # a third of the schedules: (almost) everything fails
        yield {"addrs": addrs, "ct": rng.random() < 0.6,
               "events": [_rand_event(rng, p_ok) for _ in range(rng.randint(0, 7))]}


# ------------------------------------------------------------------------------------------ implementation
def run_impl(case):
    import asyncio
    from core import vloop
    from tornado.tcpclient import _Connector
    from tornado.iostream import StreamClosedError
    from tornado.util import TimeoutError as TTimeout

    addrs = case["addrs"]
    keys = _keys(case)
    events = case["events"]
    first = next((e[0] for e in events if e[0] in ("t", "c")), None)
    errors = []
    with vloop.installed() as lp:
        lp.set_exception_handler(lambda loop, ctx: errors.append(type(ctx.get("exception")).__name__
                                                                 if ctx.get("exception") else str(ctx.get("message"))))
        t0 = lp.time()
        streams = []
        log = []

        class FS:
            def __init__(self, idx):
                self.idx = idx
                self.closed = False
                self.closes = 0
                self.fut = asyncio.Future()
                self.fut.add_done_callback(lambda f: f.exception())

            def close(self):
                self.closes += 1
                if not self.closed:
                    self.closed = True
                    if not self.fut.done():
                        self.fut.set_exception(StreamClosedError())

        def outcome_of(kind, v):
            if kind == "r":
                af, addr, st = v
                if st not in streams:
                    return ["ok", -1, -1]
                # reported as the entry the winning stream was opened for; (af, addr) must be that entry's address
                pos = st.idx
                return ["ok", pos if pos < len(keys) and keys[pos] == (af, addr) else -1, streams.index(st)]
            if isinstance(v, TTimeout):
                return ["timeout"]
            if isinstance(v, IOError) and str(v).startswith("fail-"):
                return ["last", int(str(v)[5:])]
            if isinstance(v, IOError) and str(v) == "connection failed":
                return ["connfailed"]
            return ["other", type(v).__name__]

        class LogFuture(asyncio.Future):
            def set_result(self, v):
                log.append(outcome_of("r", v))
                return super().set_result(v)

            def set_exception(self, e):
                log.append(outcome_of("e", e))
                return super().set_exception(e)

        calls = {}
        raised_at = []        # in which phase a connect call raised: "start" | "b" | "t" | "c"
        phase = ["start"]

        def connect(af, addr):
            # the k-th attempt at (af, addr) is served as the k-th list entry with that address; an attempt for
            # which no entry is left gets the position len(addrs) (no such entry: Spec clause 7)
            k = calls.get((af, addr), 0)
            calls[(af, addr)] = k + 1
            entries = [i for i, key in enumerate(keys) if key == (af, addr)]
            pos = entries[k] if k < len(entries) else len(addrs)
            fs = FS(pos)      # the record of this connect CALL (for a call that raises: the socket it made and closed)
            streams.append(fs)
            if pos < len(addrs) and addrs[pos][1]:
                fs.closed = True
                exc = IOError("fail-%d" % (len(streams) - 1))
                fs.fut.set_exception(exc)
                if addrs[pos][1] == RAISE:
                    # TCPClient._create_stream: bind() failed -> socket_obj.close(); raise.  No stream is returned.
                    raised_at.append(phase[0])
                    raise exc
            return fs, fs.fut

        def fut_state(fs):
            if not fs.fut.done():
                return "P"
            return "E" if fs.fut.exception() is not None else "K"

        def live(h):
            return h is not None and not h.cancelled() and h in lp._scheduled

        def snap():
            return [list(log), conn.remaining, conn.timeout is None, live(conn.timeout), live(conn.connect_timeout),
                    [[fs.idx, fut_state(fs), fs.closed, fs.closes] for fs in streams],
                    sorted(streams.index(s) for s in conn.streams)]

        def guarded(fn):
            try:
                fn()
            except Exception as e:      # an exception escaping a loop callback / start()
                errors.append("raised:" + type(e).__name__)

        conn = _Connector(list(keys), connect)
        conn.future = LogFuture()
        conn.future.add_done_callback(lambda f: f.exception())
        ct_deadline = (t0 + (0.1 if first == "c" else 0.5)) if case["ct"] else None
        guarded(lambda: conn.start(0.3, connect_timeout=ct_deadline))
        guarded(lp.drain)
        snaps = [snap()]
        abs_events = []
        for ev in events:
            phase[0] = ev[0]
            if ev[0] == "b":
                infl = [i for i, fs in enumerate(streams) if not fs.fut.done()]
                picks = []
                for k, ok in ev[1]:
                    if not infl:
                        break
                    picks.append((infl.pop(k % len(infl)), ok))
                for i, ok in picks:
                    fs = streams[i]
                    if ok:
                        fs.fut.set_result(fs)
                    else:
                        fs.closed = True
                        fs.fut.set_exception(IOError("fail-%d" % i))
                abs_events.append(["b", [["s" if ok else "f", i] for i, ok in picks]])
            else:
                h = conn.timeout if ev[0] == "t" else conn.connect_timeout
                if live(h):
                    lp._vtime = max(lp._vtime, h.when())
                abs_events.append([ev[0]])
            guarded(lp.drain)
            snaps.append(snap())
        res = {"events": abs_events, "snaps": snaps, "errors": errors, "raised_at": raised_at}
    return res


# ------------------------------------------------------------------------------------------ model / spec
def _wev(ev):
    if ev[0] == "b":
        return [atom("b"), [[atom(c[0]), c[1]] for c in ev[1]]]
    return [atom(ev[0])]


def _keys(case):
    """(family, address) of every entry; an entry without an explicit address [fam, sync] has its own one"""
    return [(x[0], x[2] if len(x) > 2 else 1000 + i) for i, x in enumerate(case["addrs"])]


def _has_dup(case):
    k = _keys(case)
    return len(set(k)) < len(k)


def _waddrs(case):
    return [[a[0], atom("R") if a[1] == RAISE else atom(bool(a[1])), k[1]] for a, k in zip(case["addrs"], _keys(case))]


def _norm(v):
    if isinstance(v, Atom):
        return {"T": True, "F": False}.get(str(v), str(v))
    if isinstance(v, list):
        return [_norm(x) for x in v]
    return v


def model_requests(case, impl):
    if "events" not in impl:      # run_impl escaped (reported by the runner as a harness-level violation)
        return []
    return [line(ID, "run", _waddrs(case), atom(bool(case["ct"])), [_wev(e) for e in impl["events"]])]


def model_result(case, replies):
    st, vals = parse_reply(replies[0])
    assert st == "ok", replies[0][:300]
    return _norm(vals[0])


def impl_view(case, impl):
    return impl["snaps"]


def _obs_ok(impl):
    return all(o[0] in ("ok", "timeout", "last", "connfailed") and (o[0] != "ok" or (o[1] >= 0 and o[2] >= 0))
               for s in impl["snaps"] for o in s[0])


def spec_requests(case, impl):
    if "events" not in impl or impl["errors"] or not _obs_ok(impl):
        return []
    obs = [[[[atom(o[0])] + o[1:] for o in s[0]], atom(s[3]), atom(s[4]),
            [[x[0], atom(x[1]), atom(x[2])] for x in s[5]]] for s in impl["snaps"]]
    return [line(ID, "spec", _waddrs(case), [_wev(e) for e in impl["events"]], obs)]


CLAUSE_TEXT = {1: "completed more than once / outcome changed", 2: "did not complete with the first success",
               3: "completed with an error although not all addresses failed and no timeout fired",
               4: "a stream other than the winner left open (or the winner closed)",
               5: "two attempts in flight for one family", 6: "never completes: nothing in flight, no timer, future pending",
               7: "more streams opened for an address than the list has entries for it / for an unknown address",
               8: "never completes: every address has failed and nothing is in flight, but the future is still pending",
               99: "malformed observation"}


def spec_violation(case, impl, replies):
    if impl["errors"]:
        return "clause 0: exception in a loop callback: %s" % impl["errors"][0]
    if not replies:
        return "clause 0: the future completed with an unexpected value"
    st, vals = parse_reply(replies[0])
    assert st == "ok", replies[0][:300]
    n = int(vals[0])
    if n:
        return "clause %d: %s" % (n, CLAUSE_TEXT.get(n, "?"))
    return None


# ------------------------------------------------------------------------------------------ evidence
def nontrivial(case, impl):
    last = impl["snaps"][-1]
    return len(last[5]) >= 2 and len(last[0]) >= 1


def stats(case, impl):
    last = impl["snaps"][-1]
    out = ["naddrs:%d" % len(case["addrs"]), "streams:%d" % len(last[5]),
           "outcome:" + (last[0][0][0] if last[0] else "pending")]
    if case.get("enum"):
        out.append("enum")
    if any(a[1] is True for a in case["addrs"]):
        out.append("has-sync-fail")
    if any(a[1] == RAISE for a in case["addrs"]):
        out.append("has-raising-connect")
    for ph in sorted(set(impl.get("raised_at", []))):
        out.append("connect-raised-in:" + {"start": "start()", "b": "on_connect_done", "t": "on_timeout",
                                           "c": "on_connect_timeout"}[ph])
    if impl.get("raised_at") and last[0] and last[0][0][0] in ("last", "connfailed"):
        out.append("raise-then-all-failed-error")
    if impl.get("raised_at") and last[0] and last[0][0][0] == "ok":
        out.append("raise-then-other-address-wins")
    if any(x[3] >= 2 for x in last[5]):
        out.append("late-arrival-or-double-close")
    if any(len(e) > 1 and len(e[1]) >= 2 for e in impl["events"]):
        out.append("batch>=2")
    if len({a[0] for a in case["addrs"]}) == 2:
        out.append("two-families")
    if _has_dup(case):
        k = _keys(case)
        out.append("dup-address")
        out.append("dup-adjacent" if any(k[i] == k[i + 1] for i in range(len(k) - 1)) else "dup-non-adjacent")
        if last[0] and last[0][0][0] in ("last", "connfailed"):
            out.append("dup-all-failed-error")
    elif len({x[1] for x in _keys(case)}) < len(case["addrs"]):
        out.append("same-name-two-families")
    return out


def signature(case, impl, why):
    return why.split(":")[0].replace(" ", "")


def shrink(case):
    ev = case["events"]
    for i in range(len(ev)):
        yield {**case, "events": ev[:i] + ev[i + 1:]}
    a = case["addrs"]
    if len(a) > 1:
        for i in range(len(a)):
            yield {**case, "addrs": a[:i] + a[i + 1:]}
    for i, x in enumerate(a):
        if x[1] == RAISE:
            yield {**case, "addrs": a[:i] + [[x[0], True] + x[2:]] + a[i + 1:]}
        if x[1]:
            yield {**case, "addrs": a[:i] + [[x[0], False] + x[2:]] + a[i + 1:]}
    if case["ct"]:
        yield {**case, "ct": False}


def neighbours(case):
    return list(itertools.islice(shrink(case), 30))
