"""C10 — TCP connection racing (`tornado.tcpclient._Connector`) resolves exactly once and leaks no sockets.

The real `_Connector` is driven on the virtual loop with fake streams whose connect futures the harness
completes in the order a schedule dictates; the two timers are fired by moving the virtual clock to their
deadlines.  After `start()` and after every event the observable state is compared with the Lean model
(`C10 run`) and judged by the Lean specification (`C10 spec`).
"""
import itertools
from core.wire import atom, line, parse_reply, Atom

ID = "C10"
LEAN_TARGETS = ["TornadoModel.C10.Props"]
_P = "TornadoModel.C10."
THEOREMS = [_P + n for n in [
    "resolved_once", "outcome_stable", "winner_step", "winner_is_first_success", "ok_only_from_success",
    "timeout_only_from_ctick", "fail_only_from_failure_or_tick", "no_new_streams_after_done",
]]
TRUSTED = [
    "asyncio: FIFO order of call_soon callbacks, Future done-callbacks scheduled once, TimerHandle.cancel",
    "tornado.concurrent.future_add_done_callback (runs the callback immediately for a finished future)",
    "core/vloop.py (virtual clock; a timer fires when the clock is moved to its deadline)",
    "the fake stream: close() on a stream whose connect is pending fails the connect future (as IOStream does); "
    "a failed connect leaves the stream closed",
]
ASSUMPTIONS = [
    "the resolved address list is non-empty (`_Connector([])` raises IndexError in split(); getaddrinfo never returns [])",
    "addresses belong to at most two families (the statement's scope); 'one attempt per family' is per queue otherwise",
    "a connect future completes at most once; completions of a closed stream are not reported by the environment",
    "nobody but the connector completes or cancels the connector's future",
]
RULE = ("address lists of 1-4 entries over two families with per-address synchronous-failure flags, with/without connect "
        "timeout; schedules of up to 7 events: batches of 1-2 completions (success/failure of the k-th in-flight "
        "attempt), happy-eyeballs timer, connect timer; quick: random + all schedules of length <=2 for the 15 "
        "fully asynchronous address lists x connect-timeout on/off; thorough: + all schedules of length <=3. non-trivial = >=2 streams opened and "
        "the future completed")
EXHAUSTIVE = {"quick": False, "thorough": False}
CLAUSES = {
    "a TCP connect completes exactly once": "resolved_once + outcome_stable (at most once, never changes); that it does complete at quiescence: tie only (Spec clause 6)",
    "with the first connection that succeeded": "winner_is_first_success + winner_step + ok_only_from_success",
    "or with an error once every address has failed or the timeout fired": "timeout_only_from_ctick + fail_only_from_failure_or_tick; 'every address has failed': tie only (Spec clause 3, error_iff_all_failed_goal)",
    "every other socket it opened is closed": "no_new_streams_after_done; tie only: losers_closed_goal (Spec clause 4)",
    "at most one attempt per address family is in flight at a time": "tie only: one_inflight_per_family_goal (Spec clause 5)",
}
PARALLEL = False      # 5000 cases take ~2.5 s serially; a forked pool only adds stalls on a loaded machine
CASE_TIMEOUT = 60

ALPHABET = [["b", [[0, True]]], ["b", [[0, False]]], ["b", [[1, True]]], ["b", [[1, False]]],
            ["b", [[0, True], [0, True]]], ["b", [[0, False], [0, True]]], ["b", [[0, True], [0, False]]],
            ["t"], ["c"]]


def _configs(sync):
    for n in range(1, 5):
        for fams in itertools.product([0, 1], repeat=n - 1):
            fl = [0] + list(fams)
            syncs = itertools.product([False, True], repeat=n) if sync else [tuple([False] * n)]
            for sy in syncs:
                yield [[f, s] for f, s in zip(fl, sy)]


def _rand_event(rng):
    k = rng.random()
    if k < 0.62:
        n = 1 if rng.random() < 0.75 else rng.choice([2, 2, 3])
        return ["b", [[rng.randrange(3), rng.random() < 0.4] for _ in range(n)]]
    if k < 0.84:
        return ["t"]
    return ["c"]


def gen_cases(rng, tier):
    n_rand = {"quick": 2500, "thorough": 30000, "search": 4000}[tier]
    depth = {"quick": 2, "thorough": 3, "search": 0}[tier]
    if depth:
        for addrs in _configs(False):
            for ct in (False, True):
                for L in range(0, depth + 1):
                    for ev in itertools.product(ALPHABET, repeat=L):
                        yield {"addrs": addrs, "ct": ct, "events": [list(e) for e in ev], "enum": True}
    all_cfg = list(_configs(True))
    for _ in range(n_rand):
        if rng.random() < 0.5:
            addrs = rng.choice(all_cfg)
        else:
            n = rng.randint(1, 4)
            f0 = rng.randrange(2)
            addrs = [[f0 if i == 0 else rng.randrange(2), rng.random() < 0.2] for i in range(n)]
        yield {"addrs": addrs, "ct": rng.random() < 0.6, "events": [_rand_event(rng) for _ in range(rng.randint(0, 7))]}


# ------------------------------------------------------------------------------------------ implementation
def run_impl(case):
    import asyncio
    from core import vloop
    from tornado.tcpclient import _Connector
    from tornado.iostream import StreamClosedError
    from tornado.util import TimeoutError as TTimeout

    addrs = case["addrs"]
    events = case["events"]
    first = next((e[0] for e in events if e[0] in ("t", "c")), None)
    errors = []
    with vloop.installed() as lp:
        lp.set_exception_handler(lambda loop, ctx: errors.append(type(ctx.get("exception")).__name__
                                                                 if ctx.get("exception") else str(ctx.get("message"))))
        t0 = lp.time()
        streams = []
        log = []

        class FS:
            def __init__(self, idx):
                self.idx = idx
                self.closed = False
                self.closes = 0
                self.fut = asyncio.Future()
                self.fut.add_done_callback(lambda f: f.exception())

            def close(self):
                self.closes += 1
                if not self.closed:
                    self.closed = True
                    if not self.fut.done():
                        self.fut.set_exception(StreamClosedError())

        def outcome_of(kind, v):
            if kind == "r":
                af, addr, st = v
                return ["ok", addr, streams.index(st) if st in streams else -1]
            if isinstance(v, TTimeout):
                return ["timeout"]
            if isinstance(v, IOError) and str(v).startswith("fail-"):
                return ["last", int(str(v)[5:])]
            if isinstance(v, IOError) and str(v) == "connection failed":
                return ["connfailed"]
            return ["other", type(v).__name__]

        class LogFuture(asyncio.Future):
            def set_result(self, v):
                log.append(outcome_of("r", v))
                return super().set_result(v)

            def set_exception(self, e):
                log.append(outcome_of("e", e))
                return super().set_exception(e)

        def connect(af, addr):
            fs = FS(addr)
            streams.append(fs)
            if addrs[addr][1]:
                fs.closed = True
                fs.fut.set_exception(IOError("fail-%d" % (len(streams) - 1)))
            return fs, fs.fut

        def fut_state(fs):
            if not fs.fut.done():
                return "P"
            return "E" if fs.fut.exception() is not None else "K"

        def live(h):
            return h is not None and not h.cancelled() and h in lp._scheduled

        def snap():
            return [list(log), conn.remaining, conn.timeout is None, live(conn.timeout), live(conn.connect_timeout),
                    [[fs.idx, fut_state(fs), fs.closed, fs.closes] for fs in streams],
                    sorted(streams.index(s) for s in conn.streams)]

        def guarded(fn):
            try:
                fn()
            except Exception as e:      # an exception escaping a loop callback / start()
                errors.append("raised:" + type(e).__name__)

        conn = _Connector([(a[0], i) for i, a in enumerate(addrs)], connect)
        conn.future = LogFuture()
        conn.future.add_done_callback(lambda f: f.exception())
        ct_deadline = (t0 + (0.1 if first == "c" else 0.5)) if case["ct"] else None
        guarded(lambda: conn.start(0.3, connect_timeout=ct_deadline))
        guarded(lp.drain)
        snaps = [snap()]
        abs_events = []
        for ev in events:
            if ev[0] == "b":
                infl = [i for i, fs in enumerate(streams) if not fs.fut.done()]
                picks = []
                for k, ok in ev[1]:
                    if not infl:
                        break
                    picks.append((infl.pop(k % len(infl)), ok))
                for i, ok in picks:
                    fs = streams[i]
                    if ok:
                        fs.fut.set_result(fs)
                    else:
                        fs.closed = True
                        fs.fut.set_exception(IOError("fail-%d" % i))
                abs_events.append(["b", [["s" if ok else "f", i] for i, ok in picks]])
            else:
                h = conn.timeout if ev[0] == "t" else conn.connect_timeout
                if live(h):
                    lp._vtime = max(lp._vtime, h.when())
                abs_events.append([ev[0]])
            guarded(lp.drain)
            snaps.append(snap())
        res = {"events": abs_events, "snaps": snaps, "errors": errors}
    return res


# ------------------------------------------------------------------------------------------ model / spec
def _wev(ev):
    if ev[0] == "b":
        return [atom("b"), [[atom(c[0]), c[1]] for c in ev[1]]]
    return [atom(ev[0])]


def _waddrs(case):
    return [[a[0], atom(bool(a[1]))] for a in case["addrs"]]


def _norm(v):
    if isinstance(v, Atom):
        return {"T": True, "F": False}.get(str(v), str(v))
    if isinstance(v, list):
        return [_norm(x) for x in v]
    return v


def model_requests(case, impl):
    if "events" not in impl:      # run_impl escaped (reported by the runner as a harness-level violation)
        return []
    return [line(ID, "run", _waddrs(case), atom(bool(case["ct"])), [_wev(e) for e in impl["events"]])]


def model_result(case, replies):
    st, vals = parse_reply(replies[0])
    assert st == "ok", replies[0][:300]
    return _norm(vals[0])


def impl_view(case, impl):
    return impl["snaps"]


def _obs_ok(impl):
    return all(o[0] in ("ok", "timeout", "last", "connfailed") and (o[0] != "ok" or o[2] >= 0)
               for s in impl["snaps"] for o in s[0])


def spec_requests(case, impl):
    if "events" not in impl or impl["errors"] or not _obs_ok(impl):
        return []
    obs = [[[[atom(o[0])] + o[1:] for o in s[0]], atom(s[3]), atom(s[4]),
            [[x[0], atom(x[1]), atom(x[2])] for x in s[5]]] for s in impl["snaps"]]
    return [line(ID, "spec", _waddrs(case), [_wev(e) for e in impl["events"]], obs)]


CLAUSE_TEXT = {1: "completed more than once / outcome changed", 2: "did not complete with the first success",
               3: "completed with an error although not all addresses failed and no timeout fired",
               4: "a stream other than the winner left open (or the winner closed)",
               5: "two attempts in flight for one family", 6: "never completes: nothing in flight, no timer, future pending",
               7: "a stream opened twice for one address / for an unknown address", 99: "malformed observation"}


def spec_violation(case, impl, replies):
    if impl["errors"]:
        return "clause 0: exception in a loop callback: %s" % impl["errors"][0]
    if not replies:
        return "clause 0: the future completed with an unexpected value"
    st, vals = parse_reply(replies[0])
    assert st == "ok", replies[0][:300]
    n = int(vals[0])
    if n:
        return "clause %d: %s" % (n, CLAUSE_TEXT.get(n, "?"))
    return None


# ------------------------------------------------------------------------------------------ evidence
def nontrivial(case, impl):
    last = impl["snaps"][-1]
    return len(last[5]) >= 2 and len(last[0]) >= 1


def stats(case, impl):
    last = impl["snaps"][-1]
    out = ["naddrs:%d" % len(case["addrs"]), "streams:%d" % len(last[5]),
           "outcome:" + (last[0][0][0] if last[0] else "pending")]
    if case.get("enum"):
        out.append("enum")
    if any(a[1] for a in case["addrs"]):
        out.append("has-sync-fail")
    if any(x[3] >= 2 for x in last[5]):
        out.append("late-arrival-or-double-close")
    if any(len(e) > 1 and len(e[1]) >= 2 for e in impl["events"]):
        out.append("batch>=2")
    if len({a[0] for a in case["addrs"]}) == 2:
        out.append("two-families")
    return out


def signature(case, impl, why):
    return why.split(":")[0].replace(" ", "")


def shrink(case):
    ev = case["events"]
    for i in range(len(ev)):
        yield {**case, "events": ev[:i] + ev[i + 1:]}
    a = case["addrs"]
    if len(a) > 1:
        for i in range(len(a)):
            yield {**case, "addrs": a[:i] + a[i + 1:]}
    for i, x in enumerate(a):
        if x[1]:
            yield {**case, "addrs": a[:i] + [[x[0], False]] + a[i + 1:]}
    if case["ct"]:
        yield {**case, "ct": False}


def neighbours(case):
    return list(itertools.islice(shrink(case), 30))
