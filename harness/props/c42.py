"""C42 — subprocess exit is reported once with the right status (tornado.process.Subprocess).

Stub tier: real `Subprocess` objects (constructed through a fake `subprocess.Popen`) on the virtual loop, with
`os.waitpid` answered from a three-state kernel model (running / zombie / reaped) kept by the harness; the ops of a
history are: child exits with a raw wait status, `set_exit_callback` / `wait_for_exit` is called, the loop runs the
SIGCHLD handler (whatever was registered through `loop.add_signal_handler`), the loop runs its pending callbacks.
The Lean model (C42/Model.lean) runs the same history.  Thorough adds real `sh` children on a real loop.
"""
import itertools, json, logging, os, re, signal, subprocess, sys
from unittest import mock
from core.wire import atom, line, parse_reply, Atom

ID = "C42"
LEAN_TARGETS = ["TornadoModel.C42.Props"]
THEOREMS = [
    "TornadoModel.C42.status_decoding",
    "TornadoModel.C42.status_decoding_signal",
    "TornadoModel.C42.status_decoding_exit",
    "TornadoModel.C42.view_step",
    "TornadoModel.C42.good_step",
    "TornadoModel.C42.good_after",
    "TornadoModel.C42.settle",
    "TornadoModel.C42.settle_drain",
    "TornadoModel.C42.callback_exactly_once",
    "TornadoModel.C42.callback_exactly_once_after_sigchld",
    "TornadoModel.C42.wait_for_exit_outcome",
    "TornadoModel.C42.futOf_eq_spec",
    "TornadoModel.C42.callback_at_most_once",
    "TornadoModel.C42.reported_child_released",
    "TornadoModel.C42.wait_for_exit_signal_death",
    "TornadoModel.C42.goodN_step",
    "TornadoModel.C42.goodN_after",
    "TornadoModel.C42.every_invocation_carries_the_code",
    "TornadoModel.C42.callback_exactly_once_any_regs",
    "TornadoModel.C42.drain_fires_installed_callback",
    "TornadoModel.C42.registration_after_exit",
    "TornadoModel.C42.late_registration_fires",
    "TornadoModel.C42.every_wait_future_settles_partial",
    "TornadoModel.C42.every_wait_future_settles_refuted",
    "TornadoModel.C42.returncode_initialized",
]
TRUSTED = [
    "os.waitpid(pid, WNOHANG) contract (0 for running, (pid,status) once for a zombie, ChildProcessError afterwards) as simulated by the harness; Linux wait-status macros",
    "asyncio add_signal_handler / call_soon ordering; the SIGCHLD handler is run by the harness through the handle asyncio stored",
    "kernel SIGCHLD delivery (at least one delivery after the last exit; coalescing) is an event of the model",
]
ASSUMPTIONS = [
    "set_exit_callback has 'set' semantics: a callback registered with set_exit_callback and replaced by a later registration before the exit was reported is not demanded to run (a replaced wait_for_exit future IS demanded to resolve: known finding script/future-replaced)",
    "nobody else reaps the child (Popen.wait/poll are not used concurrently)",
    "wait statuses are 16-bit; stopped/continued statuses (low 7 bits = 127) are never returned by waitpid(pid, WNOHANG): they hit `assert os.WIFEXITED` and are in the correspondence stream only",
    "callbacks do not raise and do not re-register",
    "the oracle demands the exact invocation count only once the kernel's guarantee holds for the history (the SIGCHLD handler has run at some point after the exit: Spec.Delivered) and the loop has drained; `exit, register, drain` without any SIGCHLD is a prefix of a real history and is only model-compared (theorem callback_exactly_once_any_regs covers it: Noticed)",
]
RULE = ("histories over {exit c status, register c mode, sigchld, drain}; complete enumeration for <=3 children with at most "
        "one exit and one registration each, and for one child with up to three registrations (replacement before the "
        "report, registration after it), every history closed by a final drain; random streams add raw statuses, "
        "re-registration, registrations after the report, duplicate exits, 4 children; non-trivial = some child both exits "
        "and is registered")
EXHAUSTIVE = {"quick": True, "thorough": True}
CLAUSES = {
    "exit callback runs exactly once, for any timing of the exit relative to registration": "one registration: callback_exactly_once, callback_at_most_once; any number of registrations: callback_exactly_once_any_regs (>=1 invocation, all with the code, no registration twice), every_invocation_carries_the_code, drain_fires_installed_callback (which one reports), registration_after_exit",
    "registration (set_exit_callback / wait_for_exit) made after the exit was already reported": "late_registration_fires (fixed in tornado: the callback is scheduled with the stored returncode; called exactly once, future settled, nothing stored in _waiting/_exit_callback)",
    "with the exit status (negative signal number for signals)": "status_decoding, callback_exactly_once, every_invocation_carries_the_code",
    "wait_for_exit resolves with that status or raises CalledProcessError for non-zero statuses when raise_error is set": "wait_for_exit_outcome, wait_for_exit_signal_death (signal deaths: CalledProcessError(-sig) with raise_error, result -sig without); registration after the report: late_registration_fires; a wait_for_exit future REPLACED by a later registration before the report never resolves: every_wait_future_settles_partial (one registration) / every_wait_future_settles_refuted — known finding script/future-replaced",
    "no leak (a reported child leaves _waiting and the loop queue, and has been reaped)": "reported_child_released (one registration); late_registration_fires (a late registration stores nothing). tie only: a registration made between the reap and _set_returncode leaves the pid in _waiting (model-compared, not demanded)",
    "several concurrent children": "view_step (per-child projection: other children's events do not interfere) + tie",
    "`_exit_callback` is cleared before the callback runs": "tie only for the order inside _set_returncode (the model's Call.cleared is the literal `true` there; the harness observes `_exit_callback is None` inside every callback); for late callbacks the model computes it from the state and late_registration_fires proves it",
}
PARALLEL = False
CASE_TIMEOUT = 90
LEVEL_NOTE = "kernel signal delivery/coalescing are events of the model; real children only in the thorough stream"

PID0 = 4000
MODES = ["cb", "wait_raise", "wait_noraise"]
GOOD_STATUSES = [0, 0x0100, 0x0300, 0xff00, 0x7f00, 9, 15, 1, 0x80 | 11, 0x80 | 6, 126, 2]
ODD_STATUSES = [0x007f, 0x137f, 0xffff]


# --------------------------------------------------------------------------- generators
def _enum_histories(n, maxlen):
    """all sequences of length <= maxlen over exit c / reg c (each at most once per child) / sigchld / drain"""
    alpha = [("exit", c) for c in range(n)] + [("reg", c) for c in range(n)] + [("sigchld",), ("drain",)]

    def rec(seq, used):
        yield list(seq)
        if len(seq) >= maxlen:
            return
        for a in alpha:
            if a[0] in ("exit", "reg"):
                if a in used:
                    continue
                seq.append(a); used.add(a)
                yield from rec(seq, used)
                seq.pop(); used.discard(a)
            else:
                if len(seq) >= 2 and seq[-1] == a and seq[-2] == a:
                    continue          # three identical deliveries in a row add nothing
                seq.append(a)
                yield from rec(seq, used)
                seq.pop()
    yield from rec([], set())


def _concretise(seq, k):
    """attach statuses and modes, rotating with the enumeration index so that all of them are used"""
    sts = [GOOD_STATUSES[(k + 5 * c) % len(GOOD_STATUSES)] for c in range(3)]
    mds = [MODES[(k // 3 + c) % 3] for c in range(3)]
    ops = []
    for a in seq:
        if a[0] == "exit":
            ops.append(["exit", a[1], sts[a[1]]])
        elif a[0] == "reg":
            ops.append(["reg", a[1], mds[a[1]]])
        else:
            ops.append([a[0]])
    return ops


def _enum_cases(n, maxlen):
    for k, seq in enumerate(_enum_histories(n, maxlen)):
        if not any(a[0] == "reg" for a in seq):
            continue
        yield {"kind": "script", "n": n, "ops": _concretise(seq, k) + [["drain"]], "enum": True}


def _enum_rereg_histories(maxlen, maxregs=3):
    """one child, exit at most once, up to `maxregs` registrations, sigchld, drain"""
    def rec(seq, nreg, exited):
        yield list(seq)
        if len(seq) >= maxlen:
            return
        for a in ("exit", "reg", "sigchld", "drain"):
            if a == "exit":
                if exited:
                    continue
                seq.append(a); yield from rec(seq, nreg, True); seq.pop()
            elif a == "reg":
                if nreg >= maxregs:
                    continue
                seq.append(a); yield from rec(seq, nreg + 1, exited); seq.pop()
            else:
                if len(seq) >= 2 and seq[-1] == a and seq[-2] == a:
                    continue
                seq.append(a); yield from rec(seq, nreg, exited); seq.pop()
    yield from rec([], 0, False)


def _enum_rereg_cases(maxlen):
    k = 0
    for seq in _enum_rereg_histories(maxlen):
        if seq.count("reg") < 2:
            continue
        k += 1
        st = GOOD_STATUSES[k % len(GOOD_STATUSES)]
        ops, j = [], 0
        for a in seq:
            if a == "exit":
                ops.append(["exit", 0, st])
            elif a == "reg":
                ops.append(["reg", 0, MODES[(k // (3 ** j)) % 3]])
                j += 1
            else:
                ops.append([a])
        yield {"kind": "script", "n": 1, "ops": ops + [["drain"]], "enum": True}


def _late_case(rng):
    """registrations after the report (and replacements before it), several children, always settled at the end"""
    n = rng.randint(1, 3)
    ops = []
    for c in range(n):
        for _ in range(rng.choice([1, 1, 2])):
            ops.append(["reg", c, rng.choice(MODES)])
    exits = [["exit", c, rng.choice(GOOD_STATUSES)] for c in range(n) if rng.random() < 0.9]
    ops += exits
    rng.shuffle(ops)
    ops += rng.choice([[["sigchld"], ["drain"]], [["sigchld"]], [["drain"]], []])
    for _ in range(rng.randint(1, 5)):
        k = rng.random()
        if k < 0.6:
            ops.append(["reg", rng.randrange(n), rng.choice(MODES)])
        elif k < 0.8:
            ops.append(["sigchld"])
        else:
            ops.append(["drain"])
    return {"kind": "script", "n": n, "ops": ops + [["sigchld"], ["drain"]]}


def _rand_case(rng):
    n = rng.randint(1, 4)
    ops = []
    for _ in range(rng.randint(1, 14)):
        k = rng.random()
        c = rng.randrange(n)
        if k < 0.28:
            st = rng.choice(GOOD_STATUSES) if rng.random() < 0.9 else (rng.choice(ODD_STATUSES) if rng.random() < 0.5 else rng.randrange(65536))
            ops.append(["exit", c, st])
        elif k < 0.55:
            ops.append(["reg", c, rng.choice(MODES)])
        elif k < 0.8:
            ops.append(["sigchld"])
        else:
            ops.append(["drain"])
    k = rng.random()
    if k < 0.4:
        ops += [["sigchld"], ["drain"]]
    elif k < 0.8:
        ops += [["drain"]]
    return {"kind": "script", "n": n, "ops": ops}


def _single_reg_case(rng):
    """random, but inside the oracle's domain: one registration per child, proper statuses"""
    n = rng.randint(1, 4)
    evs = []
    for c in range(n):
        if rng.random() < 0.9:
            evs.append(["reg", c, rng.choice(MODES)])
        if rng.random() < 0.85:
            evs.append(["exit", c, rng.choice(GOOD_STATUSES) if rng.random() < 0.8 else rng.choice([s for s in range(0, 65536, 257) if s % 128 != 127])])
    rng.shuffle(evs)
    ops = []
    for e in evs:
        while rng.random() < 0.35:
            ops.append(rng.choice([["sigchld"], ["drain"]]))
        ops.append(e)
    return {"kind": "script", "n": n, "ops": ops + ([["sigchld"]] if rng.random() < 0.3 else []) + [["drain"]]}


def _real_case(rng):
    kids = []
    for _ in range(rng.randint(1, 4)):
        how = ["exit", rng.choice([0, 0, 1, 2, 3, 7, 42, 127, 128, 255])] if rng.random() < 0.6 else \
              ["signal", rng.choice([9, 15, 1, 2, 10, 12, 14])]
        kids.append({"how": how, "when": rng.choice(["before", "after"]), "mode": rng.choice(MODES)})
    return {"kind": "real", "kids": kids}


def gen_cases(rng, tier):
    if tier == "quick":
        yield from _enum_cases(1, 7)
        yield from _enum_cases(2, 6)
        yield from _enum_cases(3, 4)
        yield from _enum_rereg_cases(6)
        for _ in range(1500):
            yield _rand_case(rng)
        for _ in range(1000):
            yield _late_case(rng)
        for _ in range(1500):
            yield _single_reg_case(rng)
    elif tier == "thorough":
        yield from _enum_cases(1, 9)
        yield from _enum_cases(2, 7)
        yield from _enum_cases(3, 6)
        yield from _enum_rereg_cases(8)
        for _ in range(15000):
            yield _rand_case(rng)
        for _ in range(10000):
            yield _late_case(rng)
        for _ in range(15000):
            yield _single_reg_case(rng)
        for _ in range(25):
            yield _real_case(rng)
    else:
        for _ in range(3000):
            yield _rand_case(rng)
        for _ in range(3000):
            yield _single_reg_case(rng)
        for _ in range(2000):
            yield _late_case(rng)


# --------------------------------------------------------------------------- implementation runner (stub tier)
def _run_script(case):
    import tornado.process as tp
    from core import vloop
    n = case["n"]
    kstate = ["running"] * n
    kstatus = [None] * n
    calls, call_at, errors, wp = [], [], [], []
    regno = [0]
    cur = [0]

    def fake_waitpid(pid, options):
        c = pid - PID0
        wp.append(c)
        if options != os.WNOHANG or not (0 <= c < n):
            errors.append("waitpid(%r,%r)" % (pid, options))
        if kstate[c] == "running":
            return (0, 0)
        if kstate[c] == "zombie":
            kstate[c] = "reaped"
            return (pid, kstatus[c])
        raise ChildProcessError(10, "No child processes")

    nextpid = [PID0]

    class FakePopen:
        def __init__(self, *a, **k):
            self.pid = nextpid[0]
            nextpid[0] += 1
            self.returncode = None
            self.stdin = self.stdout = self.stderr = None

    class Sub(tp.Subprocess):
        def set_exit_callback(self, callback):
            r = regno[0]
            regno[0] += 1
            me = self

            def wrapped(ret):
                calls.append([me.pid - PID0, r, ret, me._exit_callback is None])
                call_at.append(cur[0])
                return callback(ret)
            super().set_exit_callback(wrapped)

    futs = []
    logging.disable(logging.CRITICAL)
    try:
        with vloop.installed() as lp, mock.patch.object(os, "waitpid", fake_waitpid), \
                mock.patch.object(tp.subprocess, "Popen", FakePopen):
            tp.Subprocess._waiting.clear()
            tp.Subprocess._initialized = False
            try:
                subs = [Sub(["true"]) for _ in range(n)]
                for opi, op in enumerate(case["ops"]):
                    cur[0] = opi
                    try:
                        if op[0] == "exit":
                            if kstate[op[1]] == "running":
                                kstate[op[1]], kstatus[op[1]] = "zombie", op[2]
                        elif op[0] == "reg":
                            sp = subs[op[1]]
                            if op[2] == "cb":
                                sp.set_exit_callback(lambda ret: None)
                            else:
                                r = regno[0]
                                futs.append((op[1], r, sp.wait_for_exit(raise_error=(op[2] == "wait_raise"))))
                        elif op[0] == "sigchld":
                            h = lp._signal_handlers.get(signal.SIGCHLD)
                            if h is not None:
                                h._run()
                        elif op[0] == "drain":
                            lp.drain()
                    except Exception as e:
                        errors.append("op %s: %s" % (op[0], type(e).__name__))
                queued = len(lp._ready)
                calls_now = [list(c) for c in calls]
                call_at_now = list(call_at)
                fout = []
                for c, r, f in futs:
                    if not f.done():
                        continue
                    e = f.exception()
                    if e is None:
                        fout.append([c, r, ["result", f.result()]])
                    elif isinstance(e, subprocess.CalledProcessError):
                        fout.append([c, r, ["CalledProcessError", e.returncode]])
                    else:
                        fout.append([c, r, ["Uncaught:" + type(e).__name__]])
                rcs = []
                for sp in subs:
                    rcs.append(sp.returncode if sp.returncode == sp.proc.returncode else ["differ", sp.returncode, sp.proc.returncode])
                waiting = [p - PID0 for p in tp.Subprocess._waiting.keys()]
            finally:
                try:
                    tp.Subprocess.uninitialize()
                except Exception as e:
                    errors.append("uninitialize: " + type(e).__name__)
                tp.Subprocess._waiting.clear()
                tp.Subprocess._initialized = False
        for c, r, f in futs:
            if f.done() and not f.cancelled():
                f.exception()          # mark retrieved (the loop's exit drain may settle futures late)
    finally:
        logging.disable(logging.NOTSET)
    return {"calls": calls_now, "call_at": call_at_now, "futs": fout, "returncodes": rcs, "waiting": waiting, "queued": queued,
            "errors": errors, "waitpids": len(wp)}


# --------------------------------------------------------------------------- real children (thorough)
_REAL = r"""
import asyncio, json, os, sys, time
sys.dont_write_bytecode = True
sys.path.insert(0, sys.argv[1])
case = json.loads(sys.argv[2])
import subprocess
from tornado.process import Subprocess
statuses = {}
real_waitpid = os.waitpid
def waitpid(pid, opt):
    r = real_waitpid(pid, opt)
    if r[0] != 0: statuses[r[0]] = r[1]
    return r
os.waitpid = waitpid
async def main():
    loop = asyncio.get_running_loop()
    kids = case["kids"]; subs = []; calls = [[] for _ in kids]; futs = [None] * len(kids); done = [loop.create_future() for _ in kids]
    for k in kids:
        cmd = "read x; exit %d" % k["how"][1] if k["how"][0] == "exit" else "read x; kill -%d $$; sleep 5" % k["how"][1]
        subs.append(Subprocess(["sh", "-c", cmd], stdin=subprocess.PIPE))
    def release(i):
        subs[i].stdin.write(b"\n"); subs[i].stdin.flush(); subs[i].stdin.close()
    def register(i):
        k = kids[i]
        if k["mode"] == "cb":
            def cb(ret, i=i):
                calls[i].append(ret)
                if not done[i].done(): done[i].set_result(None)
            subs[i].set_exit_callback(cb)
        else:
            f = subs[i].wait_for_exit(raise_error=(k["mode"] == "wait_raise"))
            futs[i] = f
            f.add_done_callback(lambda f, i=i: (not done[i].done()) and done[i].set_result(None))
    for i, k in enumerate(kids):
        if k["when"] == "before":
            release(i)
            os.waitid(os.P_PID, subs[i].pid, os.WEXITED | os.WNOWAIT)     # wait until it is a zombie, without reaping
            register(i)
        else:
            register(i)
            release(i)
    timed_out = False
    try:
        await asyncio.wait_for(asyncio.gather(*done), 30)
    except asyncio.TimeoutError:
        timed_out = True
    await asyncio.sleep(0.3)       # a second (wrong) invocation would show up here
    out = []
    for i, k in enumerate(kids):
        f = futs[i]
        if f is None: fo = None
        elif not f.done(): fo = ["pending"]
        elif f.exception() is None: fo = ["result", f.result()]
        elif isinstance(f.exception(), subprocess.CalledProcessError): fo = ["CalledProcessError", f.exception().returncode]
        else: fo = ["Uncaught:" + type(f.exception()).__name__]
        out.append({"calls": calls[i], "fut": fo, "status": statuses.get(subs[i].pid), "returncode": subs[i].returncode})
    Subprocess.uninitialize()
    print("RESULT " + json.dumps({"kids": out, "timed_out": timed_out, "waiting": len(Subprocess._waiting)}))
asyncio.run(main())
"""


def _run_real(case):
    from core import runner
    try:
        p = subprocess.run([sys.executable, "-B", "-c", _REAL, runner.REPO, json.dumps(case)],
                           stdout=subprocess.PIPE, stderr=subprocess.PIPE, text=True, timeout=80)
    except subprocess.TimeoutExpired:
        return {"infra": "real-children script timed out"}
    m = re.search(r"^RESULT (.*)$", p.stdout, re.M)
    if not m:
        return {"infra": "no result rc=%s err=%s" % (p.returncode, p.stderr[-300:])}
    return json.loads(m.group(1))


def run_impl(case):
    return _run_script(case) if case["kind"] == "script" else _run_real(case)


# --------------------------------------------------------------------------- model / spec
def _wire_ops(ops):
    return [[atom(o[0])] + [atom(x) if isinstance(x, str) else x for x in o[1:]] for o in ops]


def _real_ops(case, impl):
    """one linearisation of the orchestrated real run, with the statuses the kernel actually reported"""
    ops = []
    for i, k in enumerate(case["kids"]):
        st = impl["kids"][i]["status"]
        if st is None:
            st = (k["how"][1] << 8) if k["how"][0] == "exit" else k["how"][1]
        ex, rg = ["exit", i, st], ["reg", i, k["mode"]]
        ops += [ex, rg] if k["when"] == "before" else [rg, ex]
    return ops + [["sigchld"], ["drain"]]


def _ops(case, impl):
    return case["ops"] if case["kind"] == "script" else _real_ops(case, impl)


def _n(case):
    return case["n"] if case["kind"] == "script" else len(case["kids"])


def model_requests(case, impl):
    if "infra" in impl:
        # infrastructure trouble must end the run with exit 2, never with a verdict
        raise RuntimeError("C42 real-children infrastructure: " + str(impl["infra"]))
    return [line(ID, "run", _n(case), _wire_ops(_ops(case, impl)))]


def _plain(v):
    if isinstance(v, Atom):
        return {"T": True, "F": False}.get(str(v), str(v))
    if isinstance(v, list):
        return [_plain(x) for x in v]
    return v


def model_result(case, replies):
    if not replies:
        return {"infra": True}
    st, vals = parse_reply(replies[0])
    assert st == "ok", replies[0]
    calls, futs, rcs, waiting, queued = [_plain(v) for v in vals]
    if case["kind"] == "script":
        return {"calls": calls, "futs": sorted(futs, key=lambda f: f[1]), "returncodes": rcs, "waiting": waiting,
                "queued": queued, "errors": []}
    per = []
    for i, k in enumerate(case["kids"]):
        cs = [c[2] for c in calls if c[0] == i]
        fo = [f[2] for f in futs if f[0] == i]
        per.append({"calls": cs if k["mode"] == "cb" else [], "fut": (fo[0] if fo else ["pending"]) if k["mode"] != "cb" else None,
                    "returncode": rcs[i]})
    return {"kids": per, "waiting": len(waiting)}


def impl_view(case, impl):
    if "infra" in impl:
        return {"infra": True}
    if case["kind"] == "script":
        return {"calls": impl["calls"], "futs": sorted(impl["futs"], key=lambda f: f[1]), "returncodes": impl["returncodes"],
                "waiting": impl["waiting"], "queued": impl["queued"], "errors": impl["errors"]}
    return {"kids": [{"calls": k["calls"], "fut": k["fut"], "returncode": k["returncode"]} for k in impl["kids"]],
            "waiting": impl["waiting"]}


def spec_requests(case, impl):
    if "infra" in impl:
        return []
    ops = _ops(case, impl)
    return [line(ID, "spec", _n(case), _wire_ops(ops)), line(ID, "spec", _n(case), _wire_ops(ops[:-1]))]


def _settled(ops, delivered_before_last):
    """the loop has drained at the very end and (Spec.Delivered, from the driver, for the history without that last
    drain) the SIGCHLD handler has run at some point after the child's exit"""
    return len(ops) >= 1 and ops[-1][0] == "drain" and delivered_before_last


def spec_violation(case, impl, replies):
    """the property applied to what the implementation did, for EVERY registration of every child:
    always  - no registration's callback runs twice, no future settles twice, `_exit_callback` is None inside the callback,
              every invocation / settled future carries the POSIX reading of the child's (first) exit status;
    settled - (the SIGCHLD handler ran at some point after the exit and the loop has drained) every registration that was
              not replaced by a later one before the exit was reported has been called exactly once (not at all if the
              child has not exited) and its wait_for_exit future is settled; a wait_for_exit future that WAS replaced
              must be settled too (property text: "wait_for_exit resolves with that status")."""
    if "infra" in impl:
        raise RuntimeError("real-children infrastructure: " + impl["infra"])
    ops = _ops(case, impl)
    st, vals = parse_reply(replies[0])
    assert st == "ok", replies[0]
    expect, futexp = _plain(vals[0]), _plain(vals[1])
    delivered = _plain(parse_reply(replies[1])[1][2])
    n = _n(case)
    script = case["kind"] == "script"
    if script:
        if impl["errors"]:
            return "error: %s" % impl["errors"][0]
        calls, futs = impl["calls"], impl["futs"]
        call_at = impl.get("call_at") or [None] * len(calls)
    else:
        # registration number of kid i in the linearisation `_real_ops` is i
        calls, call_at, futs = [], [], []
        for i, k in enumerate(impl["kids"]):
            for c in k["calls"]:
                calls.append([i, i, c, True]); call_at.append(None)
            if k["fut"] not in (None, ["pending"]):
                futs.append([i, i, k["fut"]])
    regops = [(j, o) for j, o in enumerate(ops) if o[0] == "reg"]        # position r = registration number r
    replaced_future = None
    for i in range(n):
        regs = [(r, j, o[2]) for r, (j, o) in enumerate(regops) if o[1] == i]
        exits = [o for o in ops if o[0] == "exit" and o[1] == i]
        mine = [(c, at) for c, at in zip(calls, call_at) if c[0] == i]
        seen = {}
        for c, _ in mine:
            seen[c[1]] = seen.get(c[1], 0) + 1
        if any(v > 1 for v in seen.values()):
            return "twice: exit callback of child %d ran %d times" % (i, max(seen.values()))
        if any(r not in [x[0] for x in regs] for r in seen):
            return "twice: child %d reported through a callback that was never registered for it" % i
        if any(c[3] is not True for c, _ in mine):
            return "not-cleared: exit callback of child %d was still registered while it ran" % i
        if (exits and exits[0][2] % 128 == 127) or (exits and not 0 <= exits[0][2] < 65536):
            continue
        want = expect[i]
        for c, _ in mine:
            if not want or c[2] != want[0]:
                return "code: child %d exit status %r reported as %r, should be %r" % (
                    i, exits[0][2] if exits else None, c[2], want[0] if want else None)
        settled = _settled(ops, delivered[i])
        ats = [at for _, at in mine if at is not None]
        first_at = min(ats) if ats else None
        for k, (r, j, mode) in enumerate(regs):
            got = [c for c, _ in mine if c[1] == r]
            gotf = [f[2] for f in futs if f[0] == i and f[1] == r]
            wantf = [x for x in futexp[i][k] if x != "~"] if mode != "cb" else []
            if len(gotf) > 1:
                return "twice: wait_for_exit future of child %d settled %d times" % (i, len(gotf))
            if gotf and (mode == "cb" or not wantf or gotf[0] != wantf[0]):
                return "future: wait_for_exit(%s) of child %d settled as %r, should be %r" % (
                    mode, i, gotf[0], wantf[0] if wantf else "pending")
            if not settled:
                continue
            later = [j2 for (_, j2, _) in regs[k + 1:]]
            replaced = script and any(first_at is None or j2 < first_at for j2 in later)
            if len(regs) == 1:
                where = ("exit before registration" if exits and ops.index(exits[0]) < j else
                         "exit after registration" if exits else "never exited")
            elif first_at is not None and j > first_at:
                where = "registration after the report"
            else:
                where = "latest of several registrations"
            if not replaced:
                if (script or mode == "cb") and len(got) != len(want):
                    return "count: exit callback of child %d (registration %d) ran %d times after settling, should be %d (%s)" % (
                        i, r, len(got), len(want), where)
                if mode != "cb" and len(gotf) != len(wantf):
                    return "future-count: wait_for_exit(%s) of child %d %s [%s]" % (
                        mode, i, "still pending after settling" if not gotf else "settled without an exit", where)
            elif mode != "cb" and wantf and not gotf and replaced_future is None:
                replaced_future = ("future-replaced: wait_for_exit(%s) future of child %d (registration %d) was replaced by a later "
                                   "registration before the exit was reported and never resolves" % (mode, i, r))
    if case["kind"] == "real" and impl.get("timed_out"):
        return "count: timed out waiting for exit notifications of real children"
    return replaced_future


def nontrivial(case, impl):
    if "infra" in impl:
        return False
    ops = _ops(case, impl)
    return any(any(o[0] == "reg" and o[1] == c for o in ops) and any(o[0] == "exit" and o[1] == c for o in ops)
               for c in range(_n(case)))


def stats(case, impl):
    out = ["kind:" + case["kind"] + (":enum" if case.get("enum") else "")]
    if "infra" in impl:
        return out + ["infra"]
    ops = _ops(case, impl)
    for c in range(_n(case)):
        regs = [i for i, o in enumerate(ops) if o[0] == "reg" and o[1] == c]
        exits = [i for i, o in enumerate(ops) if o[0] == "exit" and o[1] == c]
        if regs and exits:
            out.append("order:" + ("exit-first" if exits[0] < regs[0] else "reg-first"))
            st = ops[exits[0]][2]
            out.append("status:" + ("odd" if st % 128 == 127 else "signal" if st % 128 else "zero" if st == 0 else "nonzero"))
        elif regs:
            out.append("order:never-exits")
        if len(regs) > 1:
            out.append("re-registration")
        for i in regs:
            out.append("mode:" + ops[i][2])
    if case["kind"] == "script":
        out.append("calls:%d" % min(5, len(impl["calls"])))
        out.append("leftover-waiting:%d" % len(impl["waiting"]))
    return out


def signature(case, impl, why):
    m = re.match(r"([\w-]+):", why)
    kind = m.group(1) if m else "other"
    extra = ""
    if kind == "count":
        mm = re.search(r"\((.*)\)", why)
        extra = "/" + (mm.group(1).replace(" ", "-") if mm else "real")
    if kind == "code":
        mm = re.search(r"exit status (\d+)", why)
        st = int(mm.group(1)) if mm else 0
        extra = "/" + ("signal" if st % 128 else "exit")
    return "%s/%s%s" % (case["kind"], kind, extra)


def shrink(case):
    if case["kind"] != "script":
        return
    ops = case["ops"]
    for i in range(len(ops) - 1, -1, -1):
        yield {**case, "ops": ops[:i] + ops[i + 1:]}
    if case["n"] > 1 and all(o[0] not in ("exit", "reg") or o[1] < case["n"] - 1 for o in ops):
        yield {**case, "n": case["n"] - 1}


def neighbours(case):
    if case["kind"] != "script":
        return
    ops = case["ops"]
    for i in range(len(ops) + 1):
        for extra in (["sigchld"], ["drain"]):
            yield {**case, "ops": ops[:i] + [extra] + ops[i:]}
