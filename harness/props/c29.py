"""C29 — gzip output encoding is transparent to the client.

Same machinery as C02 (real Application + generated handler over the fake transport) with
`GZipContentEncoding` installed.  The gzip writer is abstract in the Lean model: the harness records the bytes
each `transform_chunk` call obtained from the real `gzip.GzipFile` (a recording subclass that only observes)
and hands that tape to the model, which must then predict the exact wire bytes; the writer's contract
(`gunzip(outputs.join) == inputs.join`) is checked here with real zlib on every case.
Oracle: C02's strict client (`C02 parse`), then decoding per Content-Encoding with real zlib, plus
`C29 decide` (Spec.mayCompress) and `C29 varies` (Spec.variesOnAE) on the response headers.
"""
import re, zlib
from core.wire import atom, line, parse_reply
from props import c02

ID = "C29"
LEAN_TARGETS = ["TornadoModel.C29.Props"]
THEOREMS = [
    "TornadoModel.C29.compress_only_if",
    "TornadoModel.C29.not_compressed_passthrough",
    "TornadoModel.C29.vary_always",
    "TornadoModel.C29.cl_equals_encoded_length",
    "TornadoModel.C29.cl_dropped_when_streaming",
    "TornadoModel.C29.decoded_equals_written",
    "TornadoModel.C29.decoded_per_content_encoding",
    "TornadoModel.C29.run_transparent",
    "TornadoModel.C29.run_feed_is_writes",
    "TornadoModel.C29.wire_content_length_is_encoded_length",
    "TornadoModel.C29.vary_on_every_response",
    "TornadoModel.C29.gzip_only_if_accepted",
    "TornadoModel.C29.identity_when_not_compressing",
    "TornadoModel.C29.transformFirst_shape",
]
TRUSTED = [
    "zlib / gzip.GzipFile: abstract writer with contract gunzip(outputs.join) = inputs.join (checked per case with real zlib, assumed in the theorems)",
    "Spec.clientParse of C02 as the client's framing layer",
]
ASSUMPTIONS = c02.ASSUMPTIONS + [
    "the only output transform is GZipContentEncoding (Application(compress_response=True))",
    "a Content-Encoding set by the handler itself is the handler's business: the client-side decoding check is skipped for it",
    "'mentions gzip' follows the property text: 'gzip;q=0' and 'x-gzip' mention gzip",
]
RULE = ("C02-style programs (incl. invalid / multiple handler-set Content-Length values) with chunk sizes around MIN_LENGTH=1024, Content-Type from the whitelist / text/* / with parameters / "
        "others, Vary and Content-Encoding set by the handler, Accept-Encoding in {absent, gzip, gzip;q=0, identity, GZIP, ...}; "
        "non-trivial = the response was actually compressed and carried data; distinct by canonical JSON")
EXHAUSTIVE = {"quick": False, "thorough": False}
CLAUSE_CAVEATS = [
    "run_transparent / run_feed_is_writes cover exception-free programs (C02.opClean: no handler-set Content-Length / Transfer-Encoding, body-carrying statuses) on non-HEAD requests without an If-None-Match hit; HEAD, 304/204/1xx, handler-set Content-Length and the error path (send_error re-entering finish) are decided by the tie with real zlib",
    "decoded_per_content_encoding additionally assumes no handler-set Content-Encoding (opClean29); with one, the client-side decoding is the handler's business (ASSUMPTIONS) and run_transparent still gives the framing + body",
    "wire_content_length_is_encoded_length (Content-Length on the wire = length of the encoded body) covers clean programs, where the Content-Length is the automatic one rewritten by the transform; a handler-set Content-Length (rewritten when finishing in the first chunk, dropped when streaming: cl_equals_encoded_length / cl_dropped_when_streaming, transform level) is judged on the wire by the C02 framing oracle",
    "vary_on_every_response speaks about every header block write_headers recorded (and proves the wire starts with it); that nothing is on the wire when no block was recorded (aborted first write) is tie only",
]
CLAUSES = {
    "a client that decodes the body according to Content-Encoding obtains exactly the bytes written":
        "decoded_per_content_encoding (run level, literal: strict client on the model's wire bytes; Content-Encoding header = gzip iff compressed; "
        "Spec.decodeBody per that header = the program's writes; clean programs without handler Content-Encoding, under the gzip contract) + "
        "run_transparent (run level: strict client on the model's wire bytes, then gunzip iff the transform compressed, = the program's "
        "writes; clean programs, all framings, under the gzip contract) + run_feed_is_writes (transform fed exactly the writes, "
        "closed once at the end; no contract) + decoded_equals_written / identity_when_not_compressing (transform level); "
        "tie only: HEAD, body-less statuses, handler Content-Length, error path",
    "compression only for compressible types and only when Accept-Encoding mentions gzip":
        "compress_only_if + not_compressed_passthrough (the first-chunk decision, any header map) + gzip_only_if_accepted (run level, every program: "
        "the gzip writer is called / the transform compresses only if Accept-Encoding mentions gzip) + decoded_per_content_encoding "
        "(clean runs: Content-Encoding gzip on the wire iff the transform compressed); tie only: the Content-Type the client sees is the one the decision used (oracle: C29 decide on the wire headers)",
    "Vary always includes Accept-Encoding": "vary_on_every_response (run level, every program and request shape incl. error pages / HEAD / 304: every header block write_headers serialises has a Vary line listing Accept-Encoding, and the wire begins with exactly that block) + vary_always (every path through transform_first_chunk)",
    "a Content-Length, when present, equals the encoded body length": "wire_content_length_is_encoded_length (wire level, clean programs: every Content-Length the strict client sees = length of the body on the wire = the transform's output) + cl_equals_encoded_length + cl_dropped_when_streaming (transform level, any header map incl. handler-set Content-Length); tie only: handler-set Content-Length on the wire (C02 framing oracle)",
}
PARALLEL = False   # 1-2 ms per case; forking a pool costs more than it saves
CASE_TIMEOUT = 20

AE = [None, "gzip", "gzip", "gzip", "gzip, deflate", "deflate, gzip;q=0.5", "gzip;q=0", "identity", "GZIP", "deflate", "x-gzip", "", "*"]
CTYPES = ["text/plain", "text/html; charset=UTF-8", "text/", "text", "application/json", "application/json; charset=UTF-8",
          "application/javascript", "application/x-javascript", "application/xml", "application/atom+xml",
          "application/xhtml+xml", "image/svg+xml", "image/png", "application/octet-stream", "Text/Plain",
          "application/json ; x=1", " text/plain", "text/plain;gzip", "application/jsonx", ""]
SIZES = [0, 1, 100, 511, 512, 1023, 1024, 1025, 2048]
PATS = [b"a", b"abcdefgh", b"\r\n", b"0\r\n\r\n", b"\x1f\x8b\x08\x00"]


def _chunk(rng):
    k = rng.random()
    n = rng.choice(SIZES) if k < 0.8 else rng.randint(0, 1100)
    pat = rng.choice(PATS) if rng.random() < 0.8 else bytes(rng.randrange(256) for _ in range(7))
    return [pat.hex(), n]


def _prog(rng):
    ops = []
    if rng.random() < 0.6:
        ops.append([rng.choice(["set", "set", "add"]), rng.choice(["Content-Type", "content-type"]), rng.choice(CTYPES)])
    for _ in range(rng.randint(0, 6)):
        k = rng.random()
        if k < 0.40:
            ops.append(["write", _chunk(rng)])
        elif k < 0.58:
            ops.append(["flush"])
        elif k < 0.64:
            ops.append(["status", rng.choice([200, 200, 201, 204, 304, 404, 500])])
        elif k < 0.70:
            ops.append(["set", "Vary", rng.choice(["Cookie", "Accept-Encoding", "accept-encoding", "*", " X "])])
        elif k < 0.73:
            ops.append(["add", "Vary", rng.choice(["Cookie", "Origin"])])
        elif k < 0.78:
            ops.append(["set", "Content-Encoding", rng.choice(["gzip", "identity", "br"])])
        elif k < 0.83:
            ops.append(["clear", rng.choice(["Content-Type", "Vary", "Content-Encoding", "Content-Length"])])
        elif k < 0.88:
            ops.append(["set", "Content-Type", rng.choice(CTYPES)])
        elif k < 0.91:
            ops.append(["set", "X-Foo", rng.choice(["1", "a\nb"])])
        else:
            ops.append(["finish", _chunk(rng) if rng.random() < 0.6 else None])
    k = rng.random()
    if k < 0.25:
        total = len(c02.body_of(ops))
        v = rng.choice([total, total, total, max(0, total - 1), total + 1])
        ops.insert(rng.randint(0, len(ops)), ["set", "Content-Length", str(v)])
    elif k < 0.37:
        # a Content-Length parse_int rejects / an unusual one it accepts / several values (C02's stream): flush() must reject
        # it BEFORE the transform runs, and the error page must then go through a fresh transform
        c02._insert_odd_cl(rng, ops)
    return ops


def gen_cases(rng, tier):
    n_prog = {"quick": 900, "thorough": 9000, "search": 1200}[tier]
    for _ in range(n_prog):
        prog = _prog(rng)
        for _ in range(4):
            rq = c02._rand_req(rng)
            rq["ae"] = rng.choice(AE)
            yield {"req": rq, "prog": prog}
    # the C02 small programs with gzip accepted: the transform must not disturb framing
    if tier != "search":
        for c in c02._enum(2 if tier == "quick" else 3, c02.SMALL_REQS[:4]):
            c["req"]["ae"] = "gzip"
            yield c


def run_impl(case):
    import gzip, types
    gzip.time = types.SimpleNamespace(time=lambda: 0)     # the mtime field of the gzip header
    tape = []
    ae = case["req"].get("ae")
    extra = [] if ae is None else ["Accept-Encoding: " + ae]
    wire, closed = c02.serve(case, compress=True, extra_headers=extra, tape=tape)
    contract = None
    if tape:
        ins = b"".join(t[0] for t in tape)
        outs = b"".join(t[2] for t in tape)
        fins = [t[1] for t in tape]
        if fins[-1] and not any(fins[:-1]):
            try:
                contract = zlib.decompress(outs, 16 + zlib.MAX_WBITS) == ins
            except zlib.error as e:
                contract = "zlib.error"
        else:
            # stream never closed (aborted response) or closed twice
            contract = "open" if not any(fins) else "reclosed"
    return {"wire": c02.normalise(wire).hex(), "closed": closed, "tape": [t[2].hex() for t in tape],
            "contract": contract}


def model_requests(case, impl):
    if "harness_exc" in impl:
        return []
    return [line(ID, "run", c02.enc_req(case), case["req"].get("ae"), c02.enc_prog(case["prog"]),
                 [bytes.fromhex(t) for t in impl["tape"]])]


def model_result(case, replies):
    st, vals = parse_reply(replies[0])
    assert st == "ok", replies[0]
    return {"wire": vals[0].hex(), "closed": str(vals[1]) == "T", "calls": vals[2]}


def impl_view(case, impl):
    return {"wire": impl["wire"], "closed": impl["closed"], "calls": len(impl["tape"])}


_CT = re.compile(rb"\r\nContent-Type: ([^\r\n]*)")
_VARY = re.compile(rb"\r\nVary: ([^\r\n]*)")


def spec_requests(case, impl):
    if "harness_exc" in impl:
        return []
    w = bytes.fromhex(impl["wire"])
    head = w.split(b"\r\n\r\n", 1)[0]
    cts = [m.decode("latin-1") for m in _CT.findall(head)]
    varies = [m.decode("latin-1") for m in _VARY.findall(head)]
    return c02.spec_requests(case, impl) + [
        line(ID, "decide", case["req"].get("ae"), ",".join(cts)),
        line(ID, "varies", ",".join(varies)),
    ]


def spec_violation(case, impl, replies):
    if impl["contract"] not in (None, True, "open"):
        return "contract: gzip writer/reader pair broke its contract (%s)" % impl["contract"]
    want = c02.intended(case)
    handler_ce = "content-encoding" in want["headers"]

    def decode(p, hs):
        ce = hs.get("content-encoding")
        # a response that cannot carry a body (HEAD, 1xx/204/304) has nothing to decode; everywhere else an
        # empty body under `Content-Encoding: gzip` is NOT a gzip stream and a decoding client fails on it
        if ce is None or p["delim"] == "noBody":
            return p["body"]
        if handler_ce and not (p["status"] == 500 and (want["status"] != 500 or want["rejected"])):
            return p["body"]
        if [v.lower() for v in ce] != ["gzip"]:
            return "decode: unknown Content-Encoding %r" % ce
        try:
            return zlib.decompress(p["body"], 16 + zlib.MAX_WBITS)
        except zlib.error as e:
            return "decode: the body is not a complete gzip stream (%s)" % e

    why = c02.spec_violation(case, impl, replies[:1], vary_ok=lambda p, hs, want: None, decode=decode)
    if why:
        return why
    p = c02.parse_spec(replies[0])
    if p["kind"] != "response":
        return None
    may = str(parse_reply(replies[1])[1][0]) == "T"
    varies = str(parse_reply(replies[2])[1][0]) == "T"
    hs = {}
    for n, v in p["headers"]:
        hs.setdefault(n.lower().decode("latin-1"), []).append(v.decode("latin-1"))
    if not varies:
        return "vary: Accept-Encoding missing from Vary %r" % hs.get("vary")
    # send_error() cleared the handler's headers (the handler may itself have chosen status 500 before the rejected op)
    error_resp = p["status"] == 500 and (want["status"] != 500 or bool(want["rejected"]))
    added_ce = "content-encoding" in hs and (not handler_ce or error_resp)
    if added_ce and not may:
        return "compress: Content-Encoding %r added for Accept-Encoding %r, Content-Type %r" % (
            hs["content-encoding"], case["req"].get("ae"), hs.get("content-type"))
    if not error_resp:
        for v in want["headers"].get("vary", []):
            if v.strip(" \t") not in ",".join(hs.get("vary", [])):
                return "vary: the handler's value %r was lost: %r" % (v, hs.get("vary"))
    return None


def nontrivial(case, impl):
    w = bytes.fromhex(impl["wire"])
    return b"\r\nContent-Encoding: gzip\r\n" in w.split(b"\r\n\r\n", 1)[0] and len(impl["tape"]) >= 1 and \
        any(o[0] in ("write", "finish") and o[1] is not None and o[1][1] > 0 for o in case["prog"])


def stats(case, impl):
    out = c02.stats(case, impl)
    w = bytes.fromhex(impl["wire"])
    head = w.split(b"\r\n\r\n", 1)[0]
    out.append("ae:%s" % case["req"].get("ae"))
    out.append("gzip:%s" % (b"\r\nContent-Encoding: gzip" in head))
    out.append("gzcalls:%d" % min(4, len(impl["tape"])))
    out.append("contract:%s" % impl["contract"])
    want = c02.intended(case)
    if c02.cl_invalid(want["headers"]) if "headers" in want else False:
        out.append("cl:invalid")
    return out


def signature(case, impl, why):
    kind = why.split(":")[0]
    if kind in ("vary", "compress", "decode", "contract"):
        want = c02.intended(case)
        return "%s/%s/%s" % (kind, "flush-before-finish" if want["flushed_early"] else "no-early-flush",
                             "ae=%s" % case["req"].get("ae"))
    return "gzip/" + c02.signature(case, impl, why)


def shrink(case):
    yield from c02.shrink(case)


def neighbours(case):
    for ae in ("gzip", None):
        yield {**case, "req": {**case["req"], "ae": ae}}
