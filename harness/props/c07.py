"""C07 — application data cannot inject header lines or split a response.

Every header-producing RequestHandler API is driven inside a real `HTTPServer` connection over the fake
transport (`POST / HTTP/1.1`), and the bytes handed to the stream are captured right after `finish()`.
The connection-level API is driven as well (cases with a "raw" key): a plain `HTTPServer(request_callback)` whose
callback calls `request.connection.write_headers(ResponseStartLine(...), HTTPHeaders)` itself, and a WSGI
application behind `tornado.wsgi.WSGIContainer` — there nothing validates the reason before `write_headers`.
"""
import http.client, itertools, logging, re, warnings
from core.wire import atom, enc, line, parse_reply, Atom

ID = "C07"
LEAN_TARGETS = ["TornadoModel.C07.Props"]
THEOREMS = [
    "TornadoModel.C07.no_ctl_on_wire",
    "TornadoModel.C07.nul_not_in_wire",
    "TornadoModel.C07.exact_lines",
    "TornadoModel.C07.lines_intended",
    "TornadoModel.C07.lines_nonempty",
    "TornadoModel.C07.fields_exact",
    "TornadoModel.C07.raw_fields_exact",
    "TornadoModel.C07.wsgi_fields_exact",
    "TornadoModel.C07.isToken_normalize",
    "TornadoModel.C07.set_header_stores_any",
    "TornadoModel.C07.add_header_stores",
    "TornadoModel.C07.handler_values_clean",
    "TornadoModel.C07.handler_values_valid",
    "TornadoModel.C07.handler_reason_clean",
    "TornadoModel.C07.handler_guard_only_names",
    "TornadoModel.C07.convert_str_clean",
    "TornadoModel.C07.convert_bytes_clean",
    "TornadoModel.C07.set_header_stores",
    "TornadoModel.C07.checkReason_clean",
    "TornadoModel.C07.redirect_location_clean",
    "TornadoModel.C07.raw_exact_lines",
    "TornadoModel.C07.wsgi_exact_lines",
    "TornadoModel.C07.raw_reason_clean",
    "TornadoModel.C07.old_guard_lets_nul_through",
    "TornadoModel.C07.old_guard_no_crlf",
]
TRUSTED = [
    "str.capitalize/split/join, str.encode('latin1'/'utf-8'), '%d' formatting, dict insertion order — as written in C07/Model.lean",
    "CPython `re` for _VALID_HEADER_CHARS, _ABNF.field_name/field_value/reason_phrase and the write_headers guard (hand-modelled character classes)",
    "http.cookies (Morsel.OutputString, _quote) as modelled in C25/Model.lean; httputil.format_timestamp treated as an external text source",
]
ASSUMPTIONS = [
    "request is `POST / HTTP/1.1` with keep-alive and an empty response body (no ETag, no chunking, no Connection header)",
    "header names passed to set_header/add_header/clear_header never normalise to Content-Length (write_headers would parse the value as a length)",
    "code points > 0xFF in header names are taken from {U+0100,U+03A9,U+20AC,U+4E2D,U+FFFF,U+1F600,U+10FFFF, lone surrogate U+D800}, whose str.capitalize() images stay > 0xFF (capitalize is modelled exactly only for code points <= 0xFF)",
    "status codes come from a fixed list (the model tabulates http.client.responses only for those)",
    "header values are str, bytes or int (datetime values are formatted by email.utils and are not modelled)",
    "redirect() is the last call of a handler",
    "header names are compared case-insensitively (HTTPHeaders normalises 'x-a' to 'X-A'); the text after the colon must be exactly ' ' + value",
    "connection-level cases (request callback -> connection.write_headers, WSGIContainer): header names and values are str; the "
    "callback always sets Content-Length: 0 itself and the WSGI app returns an empty body (so write_headers adds no "
    "Transfer-Encoding / Connection header); the WSGI status string is '%d %s' % (code, reason)",
]
RULE = ("single API calls with every byte 0-255 (and 8 code points > 0xFF) embedded at start/middle/end of every "
        "name/value/reason/url/cookie field of a RequestHandler AND of the connection-level API (request callback calling "
        "connection.write_headers(ResponseStartLine(..), HTTPHeaders) directly; WSGI app behind WSGIContainer: reason, "
        "header name, header value via h[n]=v / h.add), plus every non-token header name of a list of separator-bearing names through every name-taking API, plus random multi-call handlers and random connection-level responses over an alphabet rich in controls and "
        "separators; non-trivial = the call carries a byte outside [0-9A-Za-z] in an application-controlled field or "
        "the handler makes >= 3 calls; distinct by canonical JSON")
EXHAUSTIVE = {"quick": True, "thorough": True}
CLAUSE_CAVEATS = [
    "field level covers the NAME only (token before the first colon, fields_exact + oracle `field-malformed`/`lines-differ`); the VALUE is compared byte for byte with what "
    "the application passed, but value GRAMMAR beyond CR/LF/NUL (e.g. other C0 controls stored with h[name] = value on the connection-level API) is not judged — a strict "
    "client still attributes such a line to the intended field",
    "the status line is compared as bytes with `HTTP/1.1 <code> <reason>`; that <code> is a 3-digit number is not part of the oracle (set_status(12345) is typed application input, not injection)",
    "cookie expires/max_age/expires_days/httponly/secure, redirect(status=), send_error/HTTPError(reason=) are not enumerated byte-per-byte (typed values, or the same code path as set_status/set_header); "
    "they occur only in the random stream (cookie attributes) or not at all (send_error, redirect(status=))",
    "no_ctl_on_wire / exact_lines / fields_exact hold BECAUSE write_headers has the byte guard and the name check (the theorems restate those guards for every call sequence); "
    "what the call-time checks achieve on their own is stated separately at run level (handler_values_clean, handler_reason_clean, handler_guard_only_names: on the "
    "RequestHandler path the guards can fire only for a header NAME); on the connection-level API the guards are the only defence",
    "'intended' is tied to the arguments per call (set_header_stores_any, add_header_stores, redirect_location_clean, checkReason_clean) and by the independent Python oracle; "
    "there is no single Lean theorem computing the intended multiset of lines from the argument list (cookie line contents are C25's)",
]
CLAUSES = {
    "either the call is rejected with an exception or the serialized response contains exactly the intended header lines":
        "exact_lines + lines_intended + lines_nonempty + set_header_stores + convert_str_clean/convert_bytes_clean + "
        "checkReason_clean + redirect_location_clean + set_header_stores_any + add_header_stores (a raising finish() writes nothing: by construction of the model, tie-checked); "
        "field level: fields_exact / raw_fields_exact / wsgi_fields_exact (every header line reads back, by the strict field parser Spec.parseField, "
        "as exactly one (token name, value) pair of the final header map — a name like 'Set-Cookie: a=b; x' or 'X Y' ends in ValueError since the second fix: commit)",
    "no additional header line, status line or body": "exact_lines (the strict reader returns exactly the model's lines and an empty remainder)",
    "No CR, LF or NUL byte supplied by the application ever reaches the wire inside the header block":
        "no_ctl_on_wire + nul_not_in_wire (for every call sequence; holds for the tree with the D9 fix; "
        "old_guard_lets_nul_through refutes it for the guard as found, old_guard_no_crlf is the part that held)",
    "every header-producing API (str and bytes values, reason, cookie fields, redirect url)":
        "handler_values_clean + handler_reason_clean + handler_guard_only_names (all call sequences: values and reason are made safe at call time, only a name "
        "can make write_headers raise) + tie: complete enumeration of single bytes per field",
    "status reason supplied through the connection-level API (HTTPConnection.write_headers called by a request callback, WSGIContainer)":
        "raw_exact_lines + wsgi_exact_lines + raw_reason_clean (the unvalidated reason is stopped by the guard over the start line)",
}
PARALLEL = True
CASE_TIMEOUT = 90     # the first case of a worker pays for importing tornado from source (-B) on a loaded machine
LEVEL_NOTE = "model of the response header path proved for all call sequences; tied by exhaustive single-byte enumeration per API field"

SERVER, CTYPE, DATE = "S/1", "text/html; charset=UTF-8", "Thu, 01 Jan 2026 00:00:00 GMT"
WIDE = [0x100, 0x3A9, 0x20AC, 0x4E2D, 0xFFFF, 0x1F600, 0x10FFFF, 0xD800]
CODES = [200, 100, 201, 204, 301, 302, 304, 400, 404, 500, 299, 999, 0, -1, 12345]
DATE_RE = re.compile(r"(Mon|Tue|Wed|Thu|Fri|Sat|Sun), \d\d (Jan|Feb|Mar|Apr|May|Jun|Jul|Aug|Sep|Oct|Nov|Dec) \d{4} \d\d:\d\d:\d\d GMT\Z")

# ------------------------------------------------------------------------------------------------ values

def S(s):
    return ["s", s]


def B(b):
    return ["b", bytes(b).hex()]


def pyval(v):
    """tagged JSON value -> python object"""
    if v is None:
        return None
    k, x = v
    if k == "s":
        return x
    if k == "b":
        return bytes.fromhex(x)
    if k == "i":
        return x
    if k == "f":
        return bool(x)
    raise AssertionError(v)


def wval(v):
    """tagged JSON value -> wire value"""
    k, x = v
    if k == "b":
        return [atom("b"), bytes.fromhex(x)]
    if k == "f":
        return [atom("f"), atom(bool(x))]
    return [atom(k), x]


def cookie(name, value, **kw):
    d = {"name": name, "value": value, "domain": None, "expires": None, "expires_days": None, "path": "/",
         "max_age": None, "httponly": False, "secure": False, "samesite": None, "kwargs": [], "via": "set"}
    d.update(kw)
    return d


# ------------------------------------------------------------------------------------------------ implementation

_ENV = {}


def _env():
    """per-process lazily created virtual loop + server (workers are forked per batch)."""
    import os
    if _ENV and _ENV["pid"] == os.getpid():
        return _ENV
    _ENV.clear()        # a forked worker must not share the parent's selector
    from core import vloop, faketransport
    import tornado.web, tornado.httpserver, tornado.httputil
    logging.getLogger("tornado").setLevel(logging.CRITICAL + 1)
    for n in ("tornado.access", "tornado.application", "tornado.general"):
        logging.getLogger(n).disabled = True
    warnings.simplefilter("ignore")
    cm = vloop.installed()
    lp = cm.__enter__()
    cur = tornado.httputil.format_timestamp
    if hasattr(cur, "_verif_rec"):
        rec = cur._verif_rec          # recorder already installed (this process was forked after a first use)
    else:
        rec = {"on": False, "dates": None}

        def fmt(ts, _real=cur):
            r = _real(ts)
            if rec["on"]:
                rec["dates"].append(r)
            return r
        fmt._verif_rec = rec
        tornado.httputil.format_timestamp = fmt     # web.py looks `httputil.format_timestamp` up at call time

    class H(tornado.web.RequestHandler):
        def set_default_headers(self):
            self.set_header("Server", SERVER)
            self.set_header("Date", DATE)

        def create_signed_value(self, name, value, version=None):
            r = super().create_signed_value(name, value, version=version)
            self.application.result["signed"][-1].append(r.hex())
            return r

        def post(self):
            res = self.application.result
            stream = self.request.connection.stream
            for op in self.application.script:
                rec["dates"] = []
                res["signed"].append([])
                rec["on"] = True
                try:
                    _call(self, op)
                    res["outs"].append("ok")
                except Exception as e:
                    if op[0] == "redirect" and self._headers_written:
                        # the exception came out of the finish() inside redirect()
                        res["outs"].append("ok")
                        res["finish"] = _exc(e)
                    else:
                        res["outs"].append(_exc(e))
                finally:
                    rec["on"] = False
                res["dates"].append(rec["dates"])
            if "finish" not in res:
                if self._finished:
                    res["finish"] = "ok"
                else:
                    try:
                        self.finish()
                        res["finish"] = "ok"
                    except Exception as e:
                        res["finish"] = _exc(e)
            res["wire"] = bytes(stream.written).hex()
            self._finished = True          # whatever happens next is not part of the observation

    app = tornado.web.Application([("/", H)], cookie_secret="k" * 32)
    srv = tornado.httpserver.HTTPServer(app)
    _ENV.update(pid=os.getpid(), lp=lp, app=app, srv=srv, FakeStream=faketransport.FakeStream, cm=cm)
    return _ENV


def _exc(e):
    n = type(e).__name__
    if n in ("ValueError", "CookieError", "UnicodeDecodeError", "UnicodeEncodeError", "HTTPInputError", "TypeError"):
        return n
    return "Uncaught:" + n


def _cookie_kwargs(c):
    kw = {}
    for k in ("domain", "path", "samesite"):
        if k == "path" and c["path"] == "/":
            continue
        if c[k] is not None or k == "path":
            kw[k] = c[k]
    for k in ("httponly", "secure"):
        if c[k]:
            kw[k] = True
    for k, v in c["kwargs"]:
        kw[k] = pyval(v)
    return kw


def _call(h, op):
    k = op[0]
    if k == "setHeader":
        h.set_header(op[1], pyval(op[2]))
    elif k == "addHeader":
        h.add_header(op[1], pyval(op[2]))
    elif k == "clearHeader":
        h.clear_header(op[1])
    elif k == "setStatus":
        if op[2] is None:
            h.set_status(op[1])
        else:
            h.set_status(op[1], op[2])
    elif k == "redirect":
        h.redirect(pyval(op[1]), permanent=op[2])
    elif k == "setCookie":
        c = op[1]
        kw = _cookie_kwargs(c)
        if c["via"] == "clear":
            h.clear_cookie(pyval(c["name"]), **kw)
            return
        if c["max_age"] is not None:
            kw["max_age"] = c["max_age"]
        if c["via"] == "signed":
            if c["expires_days"] != 30:
                kw["expires_days"] = c["expires_days"]
            h.set_signed_cookie(pyval(c["name"]), pyval(c["value"]), **kw)
            return
        if c["expires"] is not None:
            kw["expires"] = c["expires"]
        if c["expires_days"] is not None:
            kw["expires_days"] = c["expires_days"]
        h.set_cookie(pyval(c["name"]), pyval(c["value"]), **kw)
    else:
        raise AssertionError(op)


def serve(script):
    """run one handler; -> {"outs": [...], "finish": ..., "wire": hex, "dates": [[...]...], "signed": [[...]...]}"""
    env = _env()
    lp, app = env["lp"], env["app"]
    app.script = script
    app.result = res = {"outs": [], "dates": [], "signed": []}
    s = env["FakeStream"](lp.io_loop)
    env["srv"].handle_stream(s, ("1.2.3.4", 5))
    lp.drain()
    s.feed(b"POST / HTTP/1.1\r\nHost: x\r\nContent-Length: 0\r\n\r\n")
    lp.drain()
    s.close()
    lp.drain()
    if "wire" not in res:
        res["finish"] = res.get("finish", "Uncaught:handler-did-not-run")
        res["wire"] = bytes(s.written).hex()
    return res


def _raw_env():
    """second server of the per-process environment: a plain `HTTPServer(request_callback)` whose callback either
    calls `request.connection.write_headers(ResponseStartLine(...), HTTPHeaders)` itself or is a `WSGIContainer`."""
    env = _env()
    if "rawsrv" in env:
        return env
    import tornado.httpserver, tornado.httputil, tornado.wsgi, tornado.ioloop
    state = env["rawstate"] = {}

    def wsgi_app(environ, start_response):
        raw = state["raw"]
        start_response("%d %s" % (raw["code"], raw["reason"]), [(n, v) for _, n, v in raw["hdrs"]])
        return []

    container = tornado.wsgi.WSGIContainer(wsgi_app)

    async def run_wsgi(request):
        res = state["res"]
        try:
            await container.handle_request(request)
            res["finish"] = "ok"
        except Exception as e:
            res["finish"] = _exc(e)
        res["wire"] = bytes(state["stream"].written).hex()

    def callback(request):
        raw, res = state["raw"], state["res"]
        if raw["via"] == "wsgi":
            # what WSGIContainer.__call__ does, with the outcome of handle_request observed
            tornado.ioloop.IOLoop.current().spawn_callback(run_wsgi, request)
            return
        h = tornado.httputil.HTTPHeaders()
        for how, n, v in raw["hdrs"]:
            try:
                if how == "set":
                    h[n] = v
                else:
                    h.add(n, v)
                res["outs"].append("ok")
            except Exception as e:
                res["outs"].append(_exc(e))
        try:
            request.connection.write_headers(tornado.httputil.ResponseStartLine("HTTP/1.1", raw["code"], raw["reason"]), h)
            request.connection.finish()
            res["finish"] = "ok"
        except Exception as e:
            res["finish"] = _exc(e)
        res["wire"] = bytes(state["stream"].written).hex()

    env["rawsrv"] = tornado.httpserver.HTTPServer(callback)
    return env


def serve_raw(raw):
    """one response produced WITHOUT a RequestHandler; same result shape as `serve`."""
    env = _raw_env()
    lp, state = env["lp"], env["rawstate"]
    state["raw"] = raw
    state["res"] = res = {"outs": [], "dates": [], "signed": []}
    state["stream"] = s = env["FakeStream"](lp.io_loop)
    env["rawsrv"].handle_stream(s, ("1.2.3.4", 5))
    lp.drain()
    s.feed(b"POST / HTTP/1.1\r\nHost: x\r\nContent-Length: 0\r\n\r\n")
    lp.drain()
    if "wire" not in res:
        res["finish"] = res.get("finish", "Uncaught:callback-did-not-finish")
        res["wire"] = bytes(s.written).hex()
    s.close()
    lp.drain()
    return res


def run_impl(case):
    if "raw" in case:
        return serve_raw(case["raw"])
    return serve(case["ops"])


# ------------------------------------------------------------------------------------------------ model

def cookie_wire(c, dates, signed):
    """wire form of the arguments set_cookie finally receives (clear_cookie / set_signed_cookie delegate to it)."""
    name, value = c["name"], c["value"]
    expires = dates[-1] if dates else None
    if c["via"] == "clear":
        value = S("")
    elif c["via"] == "signed":
        value = ["b", signed[0]] if signed else S("")
    return [wval(name), wval(value), c["domain"], expires, c["path"], c["max_age"] if c["via"] != "clear" else None,
            atom(bool(c["httponly"])), atom(bool(c["secure"])), c["samesite"],
            [[k, wval(v)] for k, v in c["kwargs"]]]


def op_wire(op, dates, signed):
    k = op[0]
    if k in ("setHeader", "addHeader"):
        return [atom(k), op[1], wval(op[2])]
    if k == "clearHeader":
        return [atom(k), op[1]]
    if k == "setStatus":
        return [atom(k), op[1], op[2]]
    if k == "redirect":
        return [atom(k), wval(op[1]), atom(bool(op[2]))]
    if k == "setCookie":
        return [atom(k), cookie_wire(op[1], dates, signed)]
    raise AssertionError(op)


def _server_default():
    import tornado
    return "TornadoServer/%s" % tornado.version


def model_requests(case, impl):
    if "harness_exc" in impl:
        return []
    if "raw" in case:
        raw = case["raw"]
        if raw["via"] == "wsgi":
            return [line(ID, "wsgi", _server_default(), CTYPE, raw["code"], raw["reason"], [[n, v] for _, n, v in raw["hdrs"]])]
        return [line(ID, "raw", raw["code"], raw["reason"], [[atom(how), n, v] for how, n, v in raw["hdrs"]])]
    ops = [op_wire(op, impl["dates"][i] if i < len(impl["dates"]) else [], impl["signed"][i] if i < len(impl["signed"]) else [])
           for i, op in enumerate(case["ops"])]
    return [line(ID, "run", SERVER, CTYPE, DATE, ops)]


def model_result(case, replies):
    st, vals = parse_reply(replies[0])
    assert st == "ok", replies[0]
    outs = [str(x) for x in vals[0]]
    fin = vals[1]
    if str(fin[0]) == "ok":
        return {"outs": outs, "finish": "ok", "wire": bytes(fin[2]).hex()}
    return {"outs": outs, "finish": str(fin[0]), "wire": ""}


def impl_view(case, impl):
    return {"outs": impl["outs"], "finish": impl["finish"], "wire": impl["wire"]}


# ------------------------------------------------------------------------------------------------ oracle

def spec_requests(case, impl):
    if "harness_exc" in impl:
        return []
    return [line(ID, "read", bytes.fromhex(impl["wire"]))] if impl["wire"] else []


def _hv_text(v):
    x = pyval(v)
    if isinstance(x, bytes):
        return x.decode("latin1")
    return str(x)


def intended(case, impl):
    """(code, allowed reasons, ordered [(name, value|None)]) the application asked for; value None = any text
    starting with the cookie name (cookie contents are C25's business)."""
    hdr = {}          # casefolded name -> [display name, [values]]
    code, reasons = 200, {"OK"}
    cookies = {}      # name -> last call took effect for sure?

    def put(name, vals):
        hdr[name.casefold()] = [name, vals]
    put("Server", [SERVER]); put("Content-Type", [CTYPE]); put("Date", [DATE])
    for op, out in zip(case["ops"], impl["outs"]):
        k = op[0]
        if k == "setStatus":
            code = op[1]
            std = http.client.responses.get(code, "Unknown")
            reasons = {std} if op[2] is None else {op[2], "Unknown"}
        elif k == "redirect":
            code = 301 if op[2] else 302
            reasons = {http.client.responses[code]}
            if out == "ok":
                u = pyval(op[1])
                put("Location", [(u if isinstance(u, bytes) else u.encode("utf-8")).decode("latin1")])
        elif k == "setCookie":
            try:
                n = pyval(op[1]["name"])
                n = n.decode("utf-8") if isinstance(n, bytes) else n
            except UnicodeDecodeError:
                continue
            if out == "ok":
                cookies[n] = True
            elif out == "CookieError" and op[1]["kwargs"]:
                cookies.setdefault(n, False)     # a bad deprecated keyword is detected after the jar was updated
        elif out == "ok":
            if k == "setHeader":
                put(op[1], [_hv_text(op[2])])
            elif k == "addHeader":
                hdr.setdefault(op[1].casefold(), [op[1], []])[1].append(_hv_text(op[2]))
            elif k == "clearHeader":
                hdr.pop(op[1].casefold(), None)
    if code in (204, 304) or 100 <= code < 200:
        for n in ("content-encoding", "content-language", "content-type"):
            hdr.pop(n, None)
    elif "content-length" not in hdr:
        put("Content-Length", ["0"])
    lines = [(n, v) for n, vs in hdr.values() for v in vs]
    return code, reasons, lines, cookies


def spec_violation(case, impl, replies):
    wire = bytes.fromhex(impl["wire"])
    if impl["finish"] != "ok":
        if wire:
            return "wire-after-reject: finish raised %s but %d bytes reached the stream" % (impl["finish"], len(wire))
        return None
    if not wire:
        return "no-response: finish returned but nothing was written"
    st, vals = parse_reply(replies[0])
    if st != "ok" or isinstance(vals[0], Atom):
        return "malformed-block: a strict reader finds no CRLF-terminated header block in %r" % wire[:200]
    lines, rest, clean = [bytes(x) for x in vals[0]], bytes(vals[1]), str(vals[2]) == "T"
    if not clean:
        bad = sorted({b for l in lines for b in l if b in (0, 10, 13)})
        return "ctl-on-wire: byte(s) %s inside a header line: %r" % (bad, [l for l in lines if any(b in (0, 10, 13) for b in l)][:2])
    if rest:
        return "body-present: %d bytes after the header block: %r" % (len(rest), rest[:80])
    # field level (Spec.parseField): the name of a header line is what precedes its FIRST colon and must be a token
    fields = []
    for l, f in zip(lines[1:], vals[3]):
        if isinstance(f, Atom):
            return "field-malformed: a strict client cannot read header line %r as `token: value`" % (l,)
        fields.append((bytes(f[0]).decode("latin1"), bytes(f[1]).decode("latin1")))
    if "raw" in case:
        return raw_violation(case["raw"], impl, lines, fields)
    code, reasons, want, cookies = intended(case, impl)
    ok_status = False
    for r in reasons:
        try:
            ok_status = ok_status or (bool(lines) and lines[0] == ("HTTP/1.1 %d %s" % (code, r)).encode("utf-8"))
        except UnicodeEncodeError:
            pass
    if not ok_status:
        return "status-line-differs: %r, intended code %d reason in %r" % (lines[:1], code, sorted(reasons))
    # every intended header accounts for exactly one wire line (names compared case-insensitively); what is left
    # must be the Set-Cookie lines of the cookie jar
    left = list(want)
    got_cookies = []
    for l, (fn, fv) in zip((x.decode("latin1") for x in lines[1:]), fields):
        for i, (n, v) in enumerate(left):
            if fv == " " + v and fn.casefold() == n.casefold():
                del left[i]
                break
        else:
            if fn == "Set-Cookie" and fv.startswith(" "):
                got_cookies.append(l)
            else:
                return "lines-differ: header line %r on the wire (field %r) was not asked for (intended %r)" % (l, fn, want)
    if left:
        return "lines-differ: intended header(s) %r missing from the wire" % (left,)
    # cookies: one line per name that was set for sure, nothing for names never attempted
    names = [l[len("Set-Cookie: "):].split("=", 1)[0] for l in got_cookies]
    for n, sure in cookies.items():
        if sure and names.count(n) != 1:
            return "lines-differ: cookie %r set once, %d Set-Cookie lines" % (n, names.count(n))
    for n in names:
        if n not in cookies or names.count(n) > 1:
            return "lines-differ: unexpected Set-Cookie line for %r" % n
    return None


def raw_violation(raw, impl, lines, fields):
    """connection-level API: the start line must be `HTTP/1.1 <code> <reason exactly as given>`; every header the
    application put successfully accounts for exactly one line; what is left may only be the three defaults the
    WSGI container adds on its own (at most once each, and only when the application did not give that header)."""
    try:
        want_status = ("HTTP/1.1 %d %s" % (raw["code"], raw["reason"])).encode("utf-8")
    except UnicodeEncodeError:
        want_status = None
    if not lines or lines[0] != want_status:
        return "status-line-differs: %r, intended %r" % (lines[:1], want_status)
    hdr = {}
    outs = impl["outs"] if raw["via"] == "conn" else ["ok"] * len(raw["hdrs"])
    for (how, n, v), out in zip(raw["hdrs"], outs):
        if out != "ok":
            continue
        if how == "set":
            hdr[n.casefold()] = [n, [v]]
        else:
            hdr.setdefault(n.casefold(), [n, []])[1].append(v)
    left = [(n, v) for n, vs in hdr.values() for v in vs]
    want = list(left)
    extra = []
    for l, (fn, fv) in zip((x.decode("latin1") for x in lines[1:]), fields):
        for i, (n, v) in enumerate(left):
            if fv == " " + v and fn.casefold() == n.casefold():
                del left[i]
                break
        else:
            extra.append(l)
    if left:
        return "lines-differ: intended header(s) %r missing from the wire" % (left,)
    defaults = {}
    if raw["via"] == "wsgi":
        defaults = {"content-length": "Content-Length: 0", "content-type": "Content-Type: " + CTYPE, "server": "Server: " + _server_default()}
    for l in extra:
        k = l.split(":", 1)[0].lower()
        if defaults.get(k) != l or extra.count(l) > 1 or k in hdr:
            return "lines-differ: header line %r on the wire was not asked for (intended %r)" % (l, want)
    return None


# ------------------------------------------------------------------------------------------------ generators

def _embed(base, ch, pos):
    if pos == 0:
        return ch + base
    if pos == 1:
        m = len(base) // 2
        return base[:m] + ch + base[m:]
    return base + ch


FIELDS_STR = ["setHeader.name", "setHeader.value", "addHeader.name", "addHeader.value", "setStatus.reason",
              "redirect.url", "cookie.name", "cookie.value", "cookie.domain", "cookie.path", "cookie.samesite",
              "cookie.kw.Domain", "cookie.kw.Comment", "cookie.kw.Version", "cookie.kw.Expires", "cookie.kw.key",
              "clear.name", "clear.path", "signed.name", "signed.value", "clearHeader.name"]
FIELDS_BYTES = ["setHeader.bvalue", "addHeader.bvalue", "redirect.burl", "cookie.bname", "cookie.bvalue", "signed.bvalue"]


def field_case(field, ch, pos):
    """one handler whose only application-controlled oddity is `ch` at `pos` of `field`."""
    e = lambda base: _embed(base, ch, pos)
    if field == "setHeader.name":
        ops = [["setHeader", e("X-Ab"), S("v")]]
    elif field == "setHeader.value":
        ops = [["setHeader", "X-A", S(e("val"))]]
    elif field == "setHeader.bvalue":
        ops = [["setHeader", "X-A", B(e(b"val"))]]
    elif field == "addHeader.name":
        ops = [["addHeader", e("X-Ab"), S("v")]]
    elif field == "addHeader.value":
        ops = [["addHeader", "X-A", S("first")], ["addHeader", "x-a", S(e("val"))]]
    elif field == "addHeader.bvalue":
        ops = [["addHeader", "X-A", B(e(b"val"))]]
    elif field == "clearHeader.name":
        # set under one spelling, cleared under another: the line must be gone (or, for a name the two spellings
        # of which normalise differently, still there); a non-token name that was NOT cleared makes finish() raise
        ops = [["setHeader", e("X-Ab"), S("v")], ["clearHeader", e("x-ab")]] if pos != 2 else \
              [["setHeader", "X-Ab", S("v")], ["clearHeader", e("x-ab")]]
    elif field == "setStatus.reason":
        ops = [["setStatus", 404, e("Not Found")]]
    elif field == "redirect.url":
        ops = [["redirect", S(e("/next")), False]]
    elif field == "redirect.burl":
        ops = [["redirect", B(e(b"/next")), True]]
    elif field == "cookie.name":
        ops = [["setCookie", cookie(S(e("sid")), S("v1"))]]
    elif field == "cookie.bname":
        ops = [["setCookie", cookie(B(e(b"sid")), S("v1"))]]
    elif field == "cookie.value":
        ops = [["setCookie", cookie(S("sid"), S(e("val")))]]
    elif field == "cookie.bvalue":
        ops = [["setCookie", cookie(S("sid"), B(e(b"val")))]]
    elif field == "cookie.domain":
        ops = [["setCookie", cookie(S("sid"), S("v"), domain=e("ex.org"))]]
    elif field == "cookie.path":
        ops = [["setCookie", cookie(S("sid"), S("v"), path=e("/p"))]]
    elif field == "cookie.samesite":
        ops = [["setCookie", cookie(S("sid"), S("v"), samesite=e("Lax"))]]
    elif field == "cookie.kw.Domain":
        ops = [["setCookie", cookie(S("sid"), S("v"), kwargs=[["Domain", S(e("ex.org"))]])]]
    elif field == "cookie.kw.Comment":
        ops = [["setCookie", cookie(S("sid"), S("v"), kwargs=[["Comment", S(e("note"))]])]]
    elif field == "cookie.kw.Version":
        ops = [["setCookie", cookie(S("sid"), S("v"), kwargs=[["VERSION", S(e("1"))]])]]
    elif field == "cookie.kw.Expires":
        ops = [["setCookie", cookie(S("sid"), S("v"), kwargs=[["Expires", S(e("Thu, 01 Jan 2026 00:00:00 GMT"))]])]]
    elif field == "cookie.kw.key":
        ops = [["setCookie", cookie(S("sid"), S("v"), kwargs=[[e("Path"), S("/x")]])]]
    elif field == "clear.name":
        ops = [["setCookie", cookie(S(e("sid")), S(""), via="clear")]]
    elif field == "clear.path":
        ops = [["setCookie", cookie(S("sid"), S(""), via="clear", path=e("/p"), domain="ex.org")]]
    elif field == "signed.name":
        ops = [["setCookie", cookie(S(e("sid")), S("v"), via="signed", expires_days=30)]]
    elif field == "signed.value":
        ops = [["setCookie", cookie(S("sid"), S(e("val")), via="signed", expires_days=30)]]
    elif field == "signed.bvalue":
        ops = [["setCookie", cookie(S("sid"), B(e(b"val")), via="signed", expires_days=None)]]
    else:
        raise AssertionError(field)
    return {"ops": ops, "field": field, "cp": ord(ch[0]) if isinstance(ch, str) else ch[0], "pos": pos}


def enum_cases(fields_str=FIELDS_STR, fields_bytes=FIELDS_BYTES, cps=None, positions=(0, 1, 2)):
    for f in fields_str:
        for cp in (cps if cps is not None else list(range(256)) + WIDE):
            if f in ("signed.name",) and cp == 0xD800:
                continue        # create_signed_value(utf8(name)) is outside the model
            if f == "signed.value" and cp == 0xD800:
                continue
            for pos in positions:
                yield field_case(f, chr(cp), pos)
    for f in fields_bytes:
        for b in (cps if cps is not None else range(256)):
            if b > 255:
                continue
            for pos in positions:
                yield field_case(f, bytes([b]), pos)


# --- connection-level API (no RequestHandler in between): request callback -> write_headers, WSGIContainer
RAW_FIELDS = ["conn.reason", "conn.set.name", "conn.set.value", "conn.add.name", "conn.add.value",
              "wsgi.reason", "wsgi.name", "wsgi.value"]
CL0 = ["set", "Content-Length", "0"]     # the callback always frames its (empty) body itself


def raw(via, code, reason, hdrs):
    return {"via": via, "code": code, "reason": reason, "hdrs": ([CL0] if via == "conn" else []) + hdrs}


def raw_field_case(field, ch, pos):
    """one response written through the connection-level API whose only oddity is `ch` at `pos` of `field`."""
    e = lambda base: _embed(base, ch, pos)
    if field == "conn.reason":
        r = raw("conn", 200, e("OK"), [["add", "X-App", "yes"]])
    elif field == "conn.set.name":
        r = raw("conn", 200, "OK", [["set", e("X-Ab"), "v"]])
    elif field == "conn.set.value":
        r = raw("conn", 404, "Not Found", [["set", "X-A", e("val")]])
    elif field == "conn.add.name":
        r = raw("conn", 200, "OK", [["add", e("X-Ab"), "v"]])
    elif field == "conn.add.value":
        r = raw("conn", 200, "OK", [["add", "X-A", "first"], ["add", "x-a", e("val")]])
    elif field == "wsgi.reason":
        r = raw("wsgi", 200, e("OK"), [["add", "X-App", "yes"]])
    elif field == "wsgi.name":
        r = raw("wsgi", 200, "OK", [["add", e("X-Ab"), "v"]])
    elif field == "wsgi.value":
        r = raw("wsgi", 201, "Created", [["add", "X-A", e("val")], ["add", "Server", "mine"]])
    else:
        raise AssertionError(field)
    return {"raw": r, "field": field, "cp": ord(ch[0]), "pos": pos}


def raw_enum_cases(cps=None, positions=(0, 1, 2)):
    for f in RAW_FIELDS:
        for cp in (cps if cps is not None else list(range(256)) + WIDE):
            for pos in positions:
                yield raw_field_case(f, chr(cp), pos)


# header names that are not tokens but carry no CR/LF/NUL: the field-level clause (name smuggling)
BAD_NAMES = ["X: y", "Set-Cookie: a=b; x", "X Y", "X-A:", ":", "", " ", "X-A ", " X-A", "X\tY", "X;Y", "X,Y", "X=Y", "(X)", "X/Y", "X@Y",
             "X\"Y", "X\\Y", "[X]", "{X}", "X?Y", "X<Y", "Content-Type: text/plain", "Location: http://evil/", "é", "X-\x7f", "X-\x80"]


def bad_name_cases():
    """every API that takes a header name x every separator-bearing name (systematic, both tiers)"""
    for n in BAD_NAMES:
        yield {"ops": [["setHeader", n, S("v")]], "field": "random"}
        yield {"ops": [["setHeader", n, B(b"v")]], "field": "random"}
        yield {"ops": [["setHeader", n, ["i", 7]]], "field": "random"}
        yield {"ops": [["addHeader", n, S("v")]], "field": "random"}
        yield {"ops": [["setHeader", n, S("v")], ["clearHeader", n]], "field": "random"}
        yield {"ops": [["setHeader", "X-A", S("1")], ["setHeader", n, S("v")], ["setCookie", cookie(S("sid"), S("v"))]], "field": "random"}
        yield {"ops": [["setHeader", n, S("v")], ["setStatus", 204, None]], "field": "random"}
        yield {"raw": raw("conn", 200, "OK", [["set", n, "v"]]), "field": "random-raw"}
        yield {"raw": raw("conn", 200, "OK", [["add", n, "v"]]), "field": "random-raw"}
        yield {"raw": raw("conn", 200, "OK", [["set", "X-A", "1"], ["set", n, "v"], ["add", "X-B", "2"]]), "field": "random-raw"}
        yield {"raw": raw("wsgi", 200, "OK", [["add", n, "v"]]), "field": "random-raw"}


PAYLOADS = ["OK\r\nSet-Cookie: sid=evil", "OK\r\n\r\nHTTP/1.1 200 OK\r\nContent-Length: 5\r\n\r\nowned", "O\x00K",
            "OK\rX-Injected: 1", "OK\nX-Injected: 1", "OK\r\n", "\r\n", "\n", "\r", "\x00", "OK\r\n\r\n", "OK\n\n<html>",
            "", " ", " OK", "OK ", "Not Found", "a\tb", "é", "€", "\ud800", "x<y", "\x7f", "\x85", "\u2028"]


def random_raw_case(rng):
    via = rng.choice(["conn", "wsgi"])
    k = rng.random()
    reason = rng.choice(PAYLOADS) if k < 0.45 else (rng.choice(["OK", "Fine", "Not Found"]) if k < 0.6 else _rs(rng))
    hdrs = []
    for _ in range(rng.randint(0, 4)):
        v = rng.choice(["v", "a b", "x,y", "", "é", "v\r\nX-Injected: 1", " v", "v\t", "€"]) if rng.random() < 0.6 else _rs(rng)
        hdrs.append(["add" if via == "wsgi" or rng.random() < 0.5 else "set", _rname(rng), v])
    return {"raw": raw(via, rng.choice(CODES), reason, hdrs), "field": "random-raw"}


ALPHA = ["\r", "\n", "\r\n", "\x00", "\t", " ", ";", ",", "=", ":", "\"", "\\", "\x7f", "\x1f", "\x0b", "<", "-",
         "a", "B", "z", "0", "é", "ÿ", "ß", "µ", "\x80", "\xa0", "\x85", "Ā", "€", "\U0001f600", "x-", "Set-Cookie", ": "]
NAMES = ["X-A", "x-a", "X-b", "Set-Cookie", "Content-Type", "content-encoding", "Server", "Location", "Etag", "X-é",
         "Vary", "a", "-", "x--y", "X: y", "Set-Cookie: a=b; x", "X Y", "X-A:", ":", "X-A ", " X-A", "X\tY", "Server: evil\r\nX-B"]


def _rs(rng, lo=0, hi=6):
    return "".join(rng.choice(ALPHA) for _ in range(rng.randint(lo, hi)))


def _rname(rng):
    k = rng.random()
    if k < 0.7:
        n = rng.choice(NAMES)
    elif k < 0.9:
        n = _embed(rng.choice(NAMES), rng.choice(ALPHA), rng.randint(0, 2))
    else:
        n = _rs(rng, 0, 4)
    if n.lower() == "content-length" or "\u212a" in n:
        n = "X-" + n
    return n


def _rhval(rng):
    k = rng.random()
    if k < 0.45:
        return S(rng.choice(["v", "a b", "x,y", "", "é"]) if rng.random() < 0.6 else _rs(rng))
    if k < 0.8:
        s = rng.choice([b"v", b"a\tb", b"\xff\x80", b""]) if rng.random() < 0.5 else \
            bytes(rng.choice([0, 9, 10, 13, 32, 59, 65, 127, 128, 255, 34, 92]) for _ in range(rng.randint(0, 5)))
        return B(s)
    return ["i", rng.choice([0, 1, -1, 42, 10 ** 20, -(10 ** 9)])]


def _rcookie(rng):
    names = ["sid", "a", "B-1", "x.y", "path", "Secure", "", "a b", "n;m", "k=v", "é", "$v"]
    name = rng.choice(names) if rng.random() < 0.8 else _rs(rng, 1, 3)
    value = rng.choice(["v", "", "a,b", "a;b", "\"q\"", "b\\s", "é", "x=y", "a b", "\x7f", "€"]) if rng.random() < 0.7 else _rs(rng)
    opt = lambda xs: rng.choice(xs) if rng.random() < 0.35 else None
    kw = []
    if rng.random() < 0.25:
        for _ in range(rng.randint(1, 2)):
            key = rng.choice(["Domain", "PATH", "Comment", "Version", "Expires", "SameSite", "Max-Age", "bogus", "Httponly", "SECURE"])
            if any(key == k0 for k0, _ in kw):
                continue
            if key.lower() in ("httponly", "secure") and rng.random() < 0.7:
                kw.append([key, ["f", rng.random() < 0.6]])
            else:
                kw.append([key, S(rng.choice(["x", "1", "a b", "", "a;b", "é", "t "]) if rng.random() < 0.7 else _rs(rng))])
    via = rng.choice(["set", "set", "set", "clear", "signed"])
    c = cookie(B(name.encode("utf-8", "surrogatepass")) if rng.random() < 0.1 else S(name),
               B(value.encode("utf-8", "surrogatepass")) if rng.random() < 0.15 else S(value),
               domain=opt(["ex.org", "", "a b", "d;x", ".é"]), path=rng.choice(["/", "/", "/p", "", None, "/a b", "/;x"]),
               samesite=opt(["Lax", "None", "Strict", "", "a\n"]), httponly=rng.random() < 0.2, secure=rng.random() < 0.2,
               kwargs=kw, via=via)
    if via == "set":
        c["max_age"] = opt([0, 1, 3600, -5])
        c["expires"] = opt([0, 1, 86400 * 365, 1.5e9, 2 ** 31])
        c["expires_days"] = opt([0, 1, 30, -1, 0.5])
    elif via == "signed":
        c["expires_days"] = rng.choice([30, 30, None, 1])
        c["max_age"] = opt([0, 60])
    return c


def _rop(rng):
    k = rng.random()
    if k < 0.3:
        return ["setHeader", _rname(rng), _rhval(rng)]
    if k < 0.55:
        return ["addHeader", _rname(rng), _rhval(rng)]
    if k < 0.62:
        return ["clearHeader", _rname(rng)]
    if k < 0.75:
        reason = None if rng.random() < 0.4 else (rng.choice(["Fine", "Not Found", "a\tb", "é", "x<y", ""]) if rng.random() < 0.6 else _rs(rng))
        return ["setStatus", rng.choice(CODES), reason]
    return ["setCookie", _rcookie(rng)]


def random_case(rng):
    ops = [_rop(rng) for _ in range(rng.randint(1, 7))]
    if rng.random() < 0.2:
        u = rng.choice(["/n", "http://e.org/é", "/a b", ""]) if rng.random() < 0.5 else _rs(rng)
        try:
            ops.append(["redirect", B(u.encode("utf-8")) if rng.random() < 0.3 else S(u), rng.random() < 0.3])
        except UnicodeEncodeError:
            ops.append(["redirect", S(u), False])
    return {"ops": ops, "field": "random"}


def warm():
    """import everything the workers need in the parent, so that forked workers do not each compile tornado"""
    import tornado.web, tornado.httpserver, tornado.httputil, tornado.http1connection, tornado.iostream  # noqa
    from core import vloop, faketransport  # noqa


def gen_cases(rng, tier):
    warm()
    if tier == "quick":
        yield from enum_cases()
        yield from raw_enum_cases()
        yield from bad_name_cases()
        n = 3000
    elif tier == "thorough":
        yield from enum_cases()
        yield from raw_enum_cases()
        yield from bad_name_cases()
        for f in ("conn.reason", "wsgi.reason", "conn.set.name", "conn.set.value", "wsgi.value"):
            for code in CODES:
                for pl in PAYLOADS:
                    c = raw_field_case(f, "m", 1)
                    c["raw"]["code"] = code
                    if f.endswith("reason"):
                        c["raw"]["reason"] = pl
                    else:
                        c["raw"]["hdrs"][-1][1 if f.endswith("name") else 2] = "X-" + pl if f.endswith("name") else pl
                    c.update(field="random-raw")
                    del c["cp"], c["pos"]
                    yield c
        # pairs of interesting bytes in the same field
        hot = [0, 9, 10, 13, 32, 34, 59, 61, 92, 127, 128, 255, 0x100]
        for f in FIELDS_STR:
            for a, b in itertools.product(hot, repeat=2):
                if f.startswith("signed") and 0xD800 in (a, b):
                    continue
                c = field_case(f, chr(a) + "m" + chr(b), 1)
                yield c
        for f in RAW_FIELDS:
            for a, b in itertools.product(hot, repeat=2):
                yield raw_field_case(f, chr(a) + "m" + chr(b), 1)
        n = 60000
    else:
        n = 4000
    for i in range(n):
        yield random_raw_case(rng) if i % 5 == 4 else random_case(rng)


# ------------------------------------------------------------------------------------------------ bookkeeping

def _cls(cp):
    if cp == 0:
        return "NUL"
    if cp == 13:
        return "CR"
    if cp == 10:
        return "LF"
    if cp < 32:
        return "C0"
    if cp == 127:
        return "DEL"
    if cp == 32:
        return "SP"
    if cp in (59, 44, 61, 58, 34, 92):
        return "sep"
    if cp < 127:
        return "ascii"
    if cp < 256:
        return "latin1"
    return "wide"


def nontrivial(case, impl):
    if case.get("field") == "random-raw":
        return True
    if case.get("field") != "random":
        cp = case["cp"]
        return not (48 <= cp <= 57 or 65 <= cp <= 90 or 97 <= cp <= 122)
    return len(case["ops"]) >= 3


def stats(case, impl):
    out = ["field:" + case.get("field", "?"), "finish:" + impl["finish"]]
    if "raw" in case:
        r = case["raw"]
        out.append("raw:%s:%s" % (r["via"], impl["finish"]))
        if any(c in r["reason"] for c in "\r\n\x00"):
            out.append("raw:%s:ctl-in-reason:%s" % (r["via"], "sent" if impl["wire"] else "rejected"))
        for (how, _, _), o in zip(r["hdrs"], impl["outs"]):
            out.append("call:h.%s:%s" % (how, o))
    for op, o in zip(case.get("ops", []), impl["outs"]):
        out.append("call:%s:%s" % (op[0] if op[0] != "setCookie" else "cookie-" + op[1]["via"], o))
    if "cp" in case:
        out.append("class:%s:%s" % (_cls(case["cp"]), "sent" if impl["wire"] else "rejected"))
    return out


def signature(case, impl, why):
    cat = why.split(":", 1)[0]
    f = case.get("field", "random")
    if f == "random-raw" or ("raw" in case and "cp" not in case):
        r = case["raw"]
        ctl = "+".join(n for n, c in (("CR", "\r"), ("LF", "\n"), ("NUL", "\x00")) if c in r["reason"]) or "plain"
        return "random-raw/%s/reason-%s/%s" % (r["via"], ctl, cat)
    if f == "random":
        kinds = sorted({op[0] for op in case["ops"]})
        return "random/%s/%s" % ("+".join(kinds), cat)
    return "%s/%s/%s" % (f, _cls(case["cp"]), cat)


def _shrink_raw(case):
    r = case["raw"]
    fixed = 1 if r["via"] == "conn" else 0
    for i in range(fixed, len(r["hdrs"])):
        yield {**case, "raw": {**r, "hdrs": r["hdrs"][:i] + r["hdrs"][i + 1:]}}
    if r["code"] != 200:
        yield {**case, "raw": {**r, "code": 200}}
    for j in range(len(r["reason"])):
        if len(r["reason"]) > 1:
            yield {**case, "raw": {**r, "reason": r["reason"][:j] + r["reason"][j + 1:]}}
    for i in range(fixed, len(r["hdrs"])):
        how, n, v = r["hdrs"][i]
        for j in range(len(v)):
            yield {**case, "raw": {**r, "hdrs": r["hdrs"][:i] + [[how, n, v[:j] + v[j + 1:]]] + r["hdrs"][i + 1:]}}


def shrink(case):
    if "raw" in case:
        if "cp" not in case:
            yield from _shrink_raw(case)
        return
    ops = case["ops"]
    if len(ops) > 1:
        for i in range(len(ops)):
            yield {**case, "ops": ops[:i] + ops[i + 1:]}
    for i, op in enumerate(ops):
        if op[0] in ("setHeader", "addHeader"):
            if len(op[1]) > 1:
                for j in range(len(op[1])):
                    yield {**case, "ops": ops[:i] + [[op[0], op[1][:j] + op[1][j + 1:], op[2]]] + ops[i + 1:]}
            if op[2][0] == "s" and len(op[2][1]) > 1:
                for j in range(len(op[2][1])):
                    yield {**case, "ops": ops[:i] + [[op[0], op[1], S(op[2][1][:j] + op[2][1][j + 1:])]] + ops[i + 1:]}
        if op[0] == "setCookie":
            c = op[1]
            if c["kwargs"]:
                yield {**case, "ops": ops[:i] + [["setCookie", {**c, "kwargs": c["kwargs"][1:]}]] + ops[i + 1:]}
            for k in ("domain", "samesite", "max_age", "expires", "expires_days"):
                if c[k] is not None and not (c["via"] == "signed" and k == "expires_days"):
                    yield {**case, "ops": ops[:i] + [["setCookie", {**c, k: None}]] + ops[i + 1:]}


def neighbours(case):
    if "cp" in case and case.get("field") in RAW_FIELDS:
        for pos in (0, 1, 2):
            for d in (-1, 1):
                if 0 <= case["cp"] + d < 256:
                    yield raw_field_case(case["field"], chr(case["cp"] + d), pos)
        return
    if "cp" in case and case.get("field") in FIELDS_STR + FIELDS_BYTES:
        for pos in (0, 1, 2):
            for d in (-1, 1):
                cp = case["cp"] + d
                if 0 <= cp < 256:
                    ch = chr(cp) if case["field"] in FIELDS_STR else bytes([cp])
                    yield field_case(case["field"], ch, pos)
