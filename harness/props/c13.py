"""C13 — closing an IOStream settles every pending operation exactly once (tornado.iostream.BaseIOStream).

Shares the implementation runner, the Lean stream machine and the wire format with C11 (`props/c11.py`,
`TornadoModel.C11.Model`).  Here the generators put a close cause (local close with/without an exception, EOF,
ECONNRESET, another OSError, a failing send, a failing connect, an unsatisfiable read) at every position of
op sequences with pending reads / writes / connects, and the oracle is the C13 statement applied to what the
real stream did.
"""
import itertools, re
from core.wire import atom, line, parse_reply
from props import c11 as base
from props.c11 import model_result, impl_view, norm, buflen, READ_KINDS  # noqa: F401

ID = "C13"
LEAN_TARGETS = ["TornadoModel.C13.Props", "TornadoModel.C13.CloseStep", "TornadoModel.C13.Reach"]
_P = "TornadoModel.C13."
THEOREMS = [_P + n for n in [
    "close_settles_all", "close_spec", "others_get_closed_error", "close_error", "callback_once_after", "close_again",
    "no_write_after_close", "closed_step", "closed_stays_closed", "read_after_close_only_buffered",
    "satisfiable_read_gets_data", "pending_read_at_close",
    "all_settled_once", "none_pending_after_close", "settled_exactly_once_at_close",
    "tryInline_gets_buffered", "later_read_gets_buffered",
    "read_error_in_loop_gets_data", "eof_in_loop_gets_data", "all_settled_once_arrivals",
    # the closing step, whatever closes the stream (ClosePass.lean / CloseStep.lean)
    "closing_step_settles_all", "closing_step_settles", "settled_exactly_once_at_any_close",
    # ReqIs is reachable; the pending-read theorems over `run` (Reach.lean)
    "pending_read_reqIs", "pending_read_at_close_run", "read_error_at_reachable", "eof_at_reachable",
    # no later write or connect succeeds (Reach.lean)
    "no_connect_after_close", "no_success_on_closed", "no_success_after_close",
]]
TRUSTED = base.TRUSTED + [
    "asyncio.Future set-once semantics and FIFO call_soon ordering (abstraction: a settle event per future id)",
    "connect(): the real IOStream.connect / IOStream._handle_connect run (unbound) on the fake stream over a fake socket "
    "(connect() always 'in progress', SO_ERROR scripted by the op `cerr`); connect(2) itself / synchronous connect errors are not exercised",
]
ASSUMPTIONS = base.ASSUMPTIONS + [
    "write futures: sizes only, the transport either takes everything, blocks, or raises (partial sends belong to C12)",
    "at most one connect() per stream, at any position incl. after the close (a second connect() overwrites _connect_future: API misuse, excluded)",
    "op `arrive` (bytes reach the transport, the handler does not run yet) stands for an IOLoop that reports readiness once "
    "per iteration; an error / EOF always comes with an event or is found by the next read call",
]
RULE = ("op sequences <= 5 over a 12-op alphabet (complete for <= 2 in quick, <= 3 in thorough) with each of 7 close causes "
        "inserted at every position and followed by a read, a write, a connect and a read_until_close, plus random sequences "
        "with writes and one connect at any position (also after the close), plus the after-close grid (4 ways bytes get "
        "buffered unconsumed x 7 pending reads x 8 causes x 9 sequences of later reads: complete in thorough, 30 % sample in "
        "quick), plus the loop-close grid (read_chunk_size 1..5/default x 0..9 filler bytes x 21 pending reads x ECONNRESET / "
        "EIO / EOF met INSIDE one pass of the read loop x 5 ways bytes and cause meet the read [handler pass, handler pass on "
        "a non-empty buffer, two transport segments, inline in the read call, inline with a close callback], plus the local / "
        "write causes: 20412 cases, complete in thorough, 6 % sample in quick) and random members of that neighbourhood "
        "(unreported arrivals `arrive`); non-trivial = the stream closed while at "
        "least one future was pending")
EXHAUSTIVE = {"quick": False, "thorough": False}
CLAUSES = {
    "every pending read, write and connect future is completed exactly once":
        "settled_exactly_once_at_any_close (any run from a fresh stream, ANY op that takes the stream from open to closed — "
        "close(), EOF, ECONNRESET, OSError, failed send, failed connect, Unsatisfiable / buffer-full read: nothing is pending "
        "after that step, and a future pending before it occurs exactly once in the settle log of the whole run, in that step) "
        "= closing_step_settles_all + closing_step_settles + all_settled_once / all_settled_once_arrivals (no id settled twice "
        "over ANY run); close_settles_all + close_spec (what close() emits, exactly) + none_pending_after_close + "
        "settled_exactly_once_at_close (the explicit close() op); the harness also counts done-callbacks per future",
    "reads that buffered data can satisfy complete with that data":
        "pending_read_at_close_run (any point of any run, close() with/without exception: the pending future gets "
        "Spec.expected(request it was issued with, buffer) or StreamClosedError) from pending_read_reqIs (ReqIs holds in every "
        "reachable state for the issued request) + satisfiable_read_gets_data + pending_read_at_close; for the close made by "
        "_read_to_buffer inside the read loop (transport error k / EOF): read_error_in_loop_gets_data / eof_in_loop_gets_data "
        "are function-level (state at the moment the loop asks the transport again); read_error_at_reachable / eof_at_reachable "
        "discharge their ReqIs hypothesis for reachable states with no unread bytes in the transport; with unread bytes (the "
        "state after some pulls of the same pass) ReqIs is tie only; oracle clause (2) on the buffer snapshot taken at entry "
        "of close(), for every close cause",
    "everything else fails with StreamClosedError carrying the real error": "others_get_closed_error + pending_read_at_close + close_error",
    "the close callback runs exactly once after that": "callback_once_after + close_again (per close() call; run level: tie only — "
                                                       "the oracle counts callback runs per step and over the case)",
    "no later write or connect succeeds":
        "no_write_after_close + no_connect_after_close (both raise StreamClosedError(real error), state unchanged; connect: after "
        "the fix) + no_success_after_close (in ANY continuation of a closed state no write / connect future completes "
        "successfully: the only events are read results, StreamClosedErrors and the close callback) + closed_stays_closed; the "
        "tie runs the real IOStream.connect on closed streams (generators put connect at any position, incl. after the close)",
    "later reads succeed only from data that was already buffered":
        "read_after_close_only_buffered + closed_step (only from the buffer) + later_read_gets_buffered / tryInline_gets_buffered "
        "(and they do succeed from it, for every stream.error: a read the buffered bytes satisfy is completed at once with "
        "Spec.expected; oracle clause (6) = Spec.laterReads on the buffer snapshot taken at entry of close())",
}
PARALLEL = False
CASE_TIMEOUT = 120


# ---- the op `arrive` (added after the missed seeded change C13-2) -----------------------------------------------------
# `feed` / `eof` / `rerr` are FakeStream.feed*: the transport changes and the stream's handler runs at once.  A real
# IOLoop reports readiness once per iteration, so the peer's last bytes and its RST / FIN are normally picked up by ONE
# pass of `_read_to_buffer_loop`: `close()` is then called inside the loop while the read is still registered and the
# bytes pulled since the last scan have not been looked at.  `["arrive", hex]` puts bytes into the transport without
# running anything (Lean: `C13.XOp.arrive`); the next event or read call sees them together with what follows.
class Runner(base.Runner):
    def apply(self, op):
        if op[0] == "arrive":
            if op[1]:
                self.s.incoming.append(bytes.fromhex(op[1]))
            return "U"
        return super().apply(op)


def run_impl(case):
    return Runner(case).run()


def wire_op(op):
    if op[0] == "arrive":
        return [atom("arrive"), bytes.fromhex(op[1])]
    return base.wire_op(op)


ALPHABET = [
    ["feed", b"a\n".hex()], ["feed", b"12x\r\n\r\nb".hex()],
    ["rb", 3, False], ["rb", 2, True], ["ri", 4, False], ["ru", b"\n".hex(), None], ["ru", b"\r\n\r\n".hex(), 4],
    ["rr", 1, None], ["ruc"], ["write", 2], ["wmode", "block"], ["setcb"],
]
CAUSES = {
    "close": [["close", False]],
    "close-exc": [["close", True]],
    "eof": [["eof"]],
    "reset": [["rerr", "reset"]],
    "oserr": [["rerr", "oserr"]],
    "send-fail": [["wmode", "epipe"], ["write", 1], ["writable"]],
    "send-fail2": [["wmode", "wioerr"], ["writable"], ["write", 1]],
}
TAIL = [["rb", 2, True], ["write", 1], ["connect"], ["ruc"]]     # after the close: a read, a write, a connect, a read


def _enum(maxlen, rng=None, sample=None):
    for L in range(0, maxlen + 1):
        for seq in itertools.product(ALPHABET, repeat=L):
            for pos in range(L + 1):
                for cname, cops in CAUSES.items():
                    if sample is not None and rng.random() > sample:
                        continue
                    yield {"cfg": [None, None], "ops": [list(o) for o in seq[:pos]] + cops + [list(o) for o in seq[pos:]] + TAIL,
                           "enum": cname}


# ---- reads after the close, on data that was buffered before it (added after the missed seeded change C13-1) ----------
# how unconsumed bytes get into the read buffer x the read pending at the close x the cause x the reads issued afterwards
AC_DATA = b"ab\n12x\r\n\r\ncd"
AC_SETUP = {
    "consumed-part": [["feed", AC_DATA.hex()], ["rb", 2, False]],            # 10 bytes stay buffered, stream idle
    "pending-then-arrival": [["rb", 2, False], ["feed", AC_DATA.hex()]],     # the arrival completes the read, rest buffered
    "in-transport": [["feed", AC_DATA.hex()]],                               # nobody listens: read together with the cause
    "callback+consumed": [["setcb"], ["feed", AC_DATA.hex()], ["ri", 3, False]],
}
AC_PENDING = [None, ["rb", 100, False], ["ru", b"zz".hex(), None], ["ru", b"\r\n\r\n".hex(), None], ["ri", 100, False],
              ["ruc"], ["rr", 1, None]]
AC_CAUSES = dict(CAUSES, unsat=[["ru", b"zz".hex(), 3]])
AC_LATER = [
    [["rb", 2, False]],
    [["rb", 3, True], ["ruc"]],
    [["ri", 2, False], ["ru", b"\n".hex(), None]],
    [["ru", b"\r\n\r\n".hex(), None], ["rb", 64, True]],
    [["rr", 1, None], ["ri", 64, True]],
    [["rb", 100, False], ["rb", 1, False]],
    [["ruc"], ["ruc"]],
    [["ru", b"zz".hex(), 3], ["rb", 2, False]],
    [["rr", 0, None], ["ru", b"d".hex(), 1]],
]


def after_close_grid(rng=None, sample=None):
    for sname, setup in AC_SETUP.items():
        for pend in AC_PENDING:
            for cname, cops in AC_CAUSES.items():
                for later in AC_LATER:
                    if sample is not None and rng.random() > sample:
                        continue
                    ops = [list(o) for o in setup] + ([list(pend)] if pend else []) + [list(o) for o in cops] + \
                          [list(o) for o in later]
                    yield {"cfg": [None, None], "ops": ops, "enum": "after:" + cname}

# ---- a close INSIDE the read loop (added after the missed seeded change C13-2) ------------------------------------------
# `close()` is the only place where a read that became satisfiable during the CURRENT pass of `_read_to_buffer_loop` is
# resolved when that pass ends in a close: the loop rescans the buffer only after the first chunk and whenever the buffer
# has doubled, so with a small read_chunk_size the bytes that complete a delimiter are usually pulled without a scan, and
# the transport's EOF / ECONNRESET / OSError is hit before the next one.  Dimensions of the grid:
#   read_chunk_size 1..5 and default  x  k = 0..9 filler bytes in front of the record (moves every delimiter across the
#   chunk / rescan boundaries)  x  the pending read (each delimiter of the record, both regexes, max_bytes none / large /
#   exactly the record / one short; read_bytes / read_into exact, one more, partial; read_until_close)  x  the cause
#   (ECONNRESET, EIO, EOF inside the loop; the local / write causes after the pass, for completeness)  x  how the bytes
#   and the cause meet the read:
#     handler   read pending, bytes arrive, then the cause: one `_handle_read` pass pulls everything and hits the cause
#     handler+  the same after a first part was delivered (and scanned) on its own: the pass starts on a non-empty buffer
#     segs      the bytes sit in the transport as two segments (a short read_from_fd in the middle of the pass)
#     inline    bytes and cause are there before the read is issued: the pass runs inside the read call
#     inline-cb the same on a stream with a close callback (it listens while idle: the cause event pulls one chunk first)
LC_TAIL = b"1x\r\n\r\nb"
LC_CHUNKS = [1, 2, 3, 4, 5, None]
LC_CAUSES = {"reset": [["rerr", "reset"]], "oserr": [["rerr", "oserr"]], "eof": [["eof"]]}
LC_MODES = ["handler", "handler+", "segs", "inline", "inline-cb"]
LC_LATER = [["rb", 2, False], ["ruc"]]


def lc_reads(k):
    n = k + len(LC_TAIL)
    nl = k + 4                      # end of the first "\n"
    return [
        ["ru", b"\n".hex(), None], ["ru", b"\n".hex(), 64], ["ru", b"\n".hex(), nl], ["ru", b"\n".hex(), nl - 1],
        ["ru", b"x".hex(), None], ["ru", b"\r\n\r\n".hex(), None], ["ru", b"b".hex(), None], ["ru", b"b".hex(), n],
        ["ru", b"zz".hex(), None],
        ["rr", 0, None], ["rr", 0, 64], ["rr", 1, None], ["rr", 1, k + 2], ["rr", 1, k + 1],
        ["rb", n, False], ["rb", n + 1, False], ["rb", n + 1, True], ["ri", n, False], ["ri", n + 1, False],
        ["ri", n + 1, True], ["ruc"],
    ]


def lc_case(chunk, k, read, cause_ops, mode, cname=""):
    data = b"a" * k + LC_TAIL
    cut = max(1, min(len(data) - 1, chunk or 3))
    if mode == "handler":
        ops = [list(read), ["arrive", data.hex()]]
    elif mode == "handler+":
        ops = [["setcb"], list(read), ["feed", data[:cut].hex()], ["arrive", data[cut:].hex()]]
    elif mode == "segs":
        ops = [list(read), ["arrive", data[:k + 3].hex()], ["arrive", data[k + 3:].hex()]]
    elif mode == "inline":
        return {"cfg": [chunk, None], "enum": "loop:" + cname,
                "ops": [["arrive", data.hex()]] + [list(o) for o in cause_ops] + [list(read)] + [list(o) for o in LC_LATER]}
    else:
        return {"cfg": [chunk, None], "enum": "loop:" + cname,
                "ops": [["setcb"], ["arrive", data.hex()]] + [list(o) for o in cause_ops] + [list(read)] +
                       [list(o) for o in LC_LATER]}
    return {"cfg": [chunk, None], "ops": ops + [list(o) for o in cause_ops] + [list(o) for o in LC_LATER], "enum": "loop:" + cname}


def loop_close_grid(rng=None, sample=None):
    causes = dict(LC_CAUSES)
    for chunk in LC_CHUNKS:
        for k in range(10):
            for read in lc_reads(k):
                for cname, cops in causes.items():
                    for mode in LC_MODES:
                        if sample is not None and rng.random() > sample:
                            continue
                        yield lc_case(chunk, k, read, cops, mode, cname)
    # the causes that cannot occur inside the loop (local close, close(exc), failing send): same set-ups, thinner
    for chunk in (1, 4):
        for k in (0, 3, 6):
            for read in lc_reads(k):
                for cname in ("close", "close-exc", "send-fail", "send-fail2"):
                    for mode in ("handler", "handler+", "inline"):
                        if sample is not None and rng.random() > sample:
                            continue
                        yield lc_case(chunk, k, read, CAUSES[cname], mode, cname)


def gen_loop_close(rng):
    """random member of the neighbourhood: random bytes (rich in delimiters) in random transport segments, some delivered
    with an event and some silently, any read kind, small chunk sizes / buffer limits, a cause from the transport"""
    chunk = rng.choice([1, 1, 2, 3, 4, 5, 7, 8, None])
    maxbuf = rng.choice([None, None, None, None, 9, 16, 33])
    n = rng.choice([1, 2, 3, 5, 8, 13, 20, 40])
    data = base._rand_bytes(rng, n)
    segs = base._segments(rng, data, max(1, min(chunk or 8, 8)))
    hint = max(1, n // 2)
    ops = []
    if rng.random() < 0.4:
        ops.append(["setcb"])
    early = rng.random() < 0.65
    if early:
        ops.append(base._rand_read(rng, hint))
    for sg in segs:
        ops.append(["arrive" if rng.random() < 0.75 else "feed", sg.hex()])
        if rng.random() < 0.1:
            ops.append(base._rand_read(rng, hint))
    ops += rng.choice([[["rerr", "reset"]], [["rerr", "reset"]], [["rerr", "oserr"]], [["eof"]], [["close", True]],
                       [["wmode", "epipe"], ["write", 1]], [["feed", b"\n".hex()]]])
    if not early or rng.random() < 0.5:
        ops.append(base._rand_read(rng, hint))
    for _ in range(rng.randint(0, 2)):
        ops.append(base._rand_read(rng, hint))
    return {"cfg": [chunk, maxbuf], "ops": ops, "enum": "loop:random"}


def _with_arrivals(rng, c):
    """a random op sequence in which some arrivals are not reported at once"""
    return {**c, "ops": [["arrive", o[1]] if o[0] == "feed" and rng.random() < 0.4 else o for o in c["ops"]]}


def gen_cases(rng, tier):
    if tier == "quick":
        yield from loop_close_grid(rng, 0.06)
    elif tier == "thorough":
        yield from loop_close_grid()
    else:
        yield from loop_close_grid(rng, 0.06)
    for _ in range({"quick": 500, "thorough": 15000, "search": 1000}[tier]):
        yield gen_loop_close(rng)
    if tier == "quick":
        yield from after_close_grid(rng, 0.3)
    elif tier == "thorough":
        yield from after_close_grid()
    else:
        yield from after_close_grid(rng, 0.15)
    if tier == "quick":
        yield from _enum(2)
        yield from _enum(4, rng, 0.0012)
        n = 1500
    elif tier == "thorough":
        yield from _enum(3)
        yield from _enum(5, rng, 0.0012)
        n = 30000
    else:
        yield from _enum(4, rng, 0.002)
        n = 2000
    for _ in range(n):
        c = base.gen_ops(rng, writes=0.7, closes=1.0)
        if rng.random() < 0.2:
            c = _with_arrivals(rng, c)
        if rng.random() < 0.3 and not any(o[0] == "connect" for o in c["ops"]):   # one connect: first or anywhere (also
            c = {**c, "ops": base.add_connect(rng, c["ops"], refused=0.4)}          # after the close), completing or failing
        yield c


def model_requests(case, impl):
    eff = impl["eff"] if isinstance(impl, dict) and "eff" in impl else [65536, base.BIG]
    return [line("C13", "run", eff, [wire_op(o) for o in case["ops"]])]


# ------------------------------------------------------------------------------------------------ oracle
def closing_op(impl):
    for i, o in enumerate(impl["outs"]):
        if "snap" in o:
            return i
    return None


def _created_in(case, impl, i):
    """fids of futures created by op i (returned, or orphaned by a raising read call)"""
    r = impl["outs"][i]["ret"]
    out = [r[1]] if isinstance(r, list) and r and r[0] == "fut" else []
    out += [f for f, j in impl["orphans"] if j == i]
    return out


def pending_read_at_close(case, impl, c):
    req = base.read_requests(case, impl)
    prev = impl["outs"][c - 1]["view"][5] if c > 0 else []
    cands = [f for f in list(prev) + _created_in(case, impl, c) if req.get(f) and req[f][0] in READ_KINDS]
    return cands, req


def _is_fail(oc):
    return isinstance(oc, list) and oc and oc[0] in ("closed", "exc")


def buffered_after_close(case, impl, c):
    """the bytes that are in the read buffer once the close has completed, from the PROPERTY's point of view: the
    buffer at entry of the first close() (`snap`) minus what the read pending at that moment was completed with.
    (Not the implementation's own buffer after the close: a close that throws buffered data away must not hide it.)"""
    buf = bytes.fromhex(impl["outs"][c]["snap"][0])
    if impl["outs"][c]["snap"][1]:
        cands, _ = pending_read_at_close(case, impl, c)
        settled_c = dict((f, o) for f, o in impl["outs"][c]["settled"])
        if len(cands) == 1 and cands[0] in settled_c and not _is_fail(settled_c[cands[0]]):
            data = base._result_bytes(settled_c[cands[0]])
            if data is not None and buf.startswith(data):
                buf = buf[len(data):]
    return buf


def later_reads(case, impl, c):
    """indices of the read ops issued after the closing op"""
    return [i for i in range(c + 1, len(case["ops"])) if case["ops"][i][0] in READ_KINDS]


def _plan(case, impl):
    """(expect line | None, later line | None)"""
    if "outs" not in impl:
        return None, None
    c = closing_op(impl)
    if c is None:
        return None, None
    expect = None
    if impl["outs"][c]["snap"][1]:
        cands, req = pending_read_at_close(case, impl, c)
        if len(cands) == 1:
            q = req[cands[0]]
            expect = line("C13", "expect", wire_op(q), bytes.fromhex(impl["outs"][c]["snap"][0]))
    later = later_reads(case, impl, c)
    lat = line("C13", "later", [wire_op(case["ops"][i]) for i in later], buffered_after_close(case, impl, c)) if later else None
    return expect, lat


def spec_requests(case, impl):
    return [l for l in _plan(case, impl) if l is not None]


def spec_violation(case, impl, replies):
    outs, ops = impl["outs"], case["ops"]
    kinds = impl["kinds"]
    plan = _plan(case, impl)
    replies = list(replies)
    expect_reply = replies.pop(0) if plan[0] is not None else None
    later_reply = replies.pop(0) if plan[1] is not None else None
    for i, o in enumerate(outs):
        r = o["ret"]
        if isinstance(r, list) and (r[0] == "drain-raised" or (r[0] == "raised" and str(r[1]).startswith("Uncaught"))):
            return "op %d %s: unexpected exception %s" % (i, ops[i][0], r[1])
        for fid, oc in o["settled"]:
            if isinstance(oc, list) and oc and oc[0] in ("exc", "badtype"):
                return "op %d: future of %s settled with %r" % (i, kinds[fid], oc[:2])
    for fid, n in enumerate(impl["settle_calls"]):
        if n > 1:
            return "future %d (%s) settled %d times" % (fid, kinds[fid], n)
    c = closing_op(impl)
    if c is None:
        if any(o["cbs"] for o in outs):
            return "close callback ran although the stream never closed"
        return None
    oc_rec = outs[c]
    closed, K = oc_rec["view"][0], oc_rec["view"][1]
    if not closed:
        return "op %d: close() began but the stream is not closed afterwards" % c
    settled_c = dict((f, o) for f, o in oc_rec["settled"])
    prev_pend = outs[c - 1]["view"][5] if c > 0 else []
    # (1) every future pending at the close is settled in that op, none is left
    for f in list(prev_pend) + _created_in(case, impl, c):
        if f not in settled_c:
            return "op %d (%s): %s future %d still pending after the stream closed" % (c, ops[c][0], kinds[f], f)
    if oc_rec["view"][5]:
        return "op %d: futures %r pending after the stream closed" % (c, oc_rec["view"][5])
    # (2) the pending read: data if the buffered data satisfies it, StreamClosedError otherwise
    if oc_rec["snap"][1]:
        cands, req = pending_read_at_close(case, impl, c)
        if len(cands) != 1:
            return "op %d: cannot identify the read pending at close (%r)" % (c, cands)
        st, vals = parse_reply(expect_reply)
        assert st == "ok", expect_reply
        want = norm(vals[0])
        got = settled_c[cands[0]]
        if want is None:
            if not _is_fail(got):
                return "op %d: pending %s completed with %r although the buffered data cannot satisfy it" % (c, req[cands[0]][0], got)
        elif got != want:
            return "op %d: pending %s is satisfiable from the buffer (%r) but got %r" % (c, req[cands[0]][0], want, got)
    # (3) the real cause
    want_k = None
    if oc_rec["traised"] is not None:
        want_k = [oc_rec["traised"]]
    elif ops[c][0] == "close":
        want_k = ["custom" if ops[c][1] else "none"]
    else:
        want_k = ["none", "unsat"]
    if K not in want_k:
        return "op %d (%s): stream.error is %s, the cause was %s" % (c, ops[c][0], K, "/".join(want_k))
    for i in range(c, len(outs)):
        if outs[i]["view"][1] != K:
            return "op %d: stream.error changed after close (%s -> %s)" % (i, K, outs[i]["view"][1])
        for f, o in outs[i]["settled"]:
            if _is_fail(o) and o != ["closed", K]:
                return "op %d: %s future failed with %r, real cause %s" % (i, kinds[f], o, K)
        r = outs[i]["ret"]
        if isinstance(r, list) and r[0] == "raised" and r[1] == "StreamClosedError" and r[2] != K:
            return "op %d: %s raised StreamClosedError(%s), real cause %s" % (i, ops[i][0], r[2], K)
    # (4) close callback: exactly once, after everything is settled
    set_before = any(op[0] == "setcb" for op in ops[:c + 1])  # ops[c] is never setcb itself
    for i, o in enumerate(outs[:c]):
        if o["cbs"]:
            return "op %d: close callback ran before the stream closed" % i
    if oc_rec["cbs"] != (1 if set_before else 0):
        return "op %d: close callback ran %d times at close (callback %sset)" % (c, oc_rec["cbs"], "" if set_before else "not ")
    if any(impl["pending_at_cb"]):
        return "close callback ran while futures %r were still pending" % ([p for p in impl["pending_at_cb"] if p][0],)
    if sum(o["cbs"] for o in outs) > impl["cb_sets"]:
        return "close callback ran more often than it was set"
    # (a callback installed after the close runs at the next close() call, explicit or implied: that is by design)
    if any(o["cbs"] > 1 for o in outs):
        return "close callback ran twice in one step"
    # (5) nothing but buffered reads succeeds afterwards
    later = b""
    at_close_buf = oc_rec["view"][2]
    for i in range(c + 1, len(outs)):
        if not outs[i]["view"][0]:
            return "op %d: stream reopened" % i
        r = outs[i]["ret"]
        if ops[i][0] in ("write", "connect"):
            # "does not succeed": the call raises StreamClosedError, or hands out a future that fails in the same step
            refused = isinstance(r, list) and r[0] == "raised" and r[1] == "StreamClosedError"
            if isinstance(r, list) and r[0] == "fut":
                refused = _is_fail(dict((f, o) for f, o in outs[i]["settled"]).get(r[1]))
            if not refused:
                return "op %d: %s on a closed stream returned %r" % (i, ops[i][0], r)
        for f, o in outs[i]["settled"]:
            if not _is_fail(o):
                if kinds[f] not in READ_KINDS:
                    return "op %d: %s future succeeded after close" % (i, kinds[f])
                later += base._result_bytes(o)
    if len(later) > buflen(at_close_buf) or (isinstance(at_close_buf, str) and not bytes.fromhex(at_close_buf).startswith(later)):
        return "reads after close returned %r, buffered at close: %r" % (later.hex(), at_close_buf)
    # (6) ... and they DO succeed from it: a later read that the bytes buffered at the close (minus what earlier reads took)
    # can satisfy is completed with exactly those bytes, whatever the cause of the close was (Spec.laterReads).  The
    # comparison stops at the first read call that raises on the closed stream (it leaves its future registered, so
    # every later call raises too: that is how the code is, and the statement does not speak about it).
    if later_reply is not None:
        st, vals = parse_reply(later_reply)
        assert st == "ok", later_reply
        wants = norm(vals[0])
        for i, want in zip(later_reads(case, impl, c), wants):
            r = outs[i]["ret"]
            got = None
            if isinstance(r, list) and r[0] == "fut":
                got = dict((f, o) for f, o in outs[i]["settled"]).get(r[1])
            if want is None:
                if got is None or not _is_fail(got):
                    break       # raised (future abandoned), or data the buffer cannot give: clause (5) judges that
                continue
            if got != want:
                return ("op %d: %s after the %s close: the bytes buffered at the close satisfy it (%r) but it %s" %
                        (i, ops[i][0], K, want, "raised %s" % (r[1:],) if isinstance(r, list) and r[0] == "raised" else
                         "got %r" % (got,)))
    return None


# ------------------------------------------------------------------------------------------------ evidence
def nontrivial(case, impl):
    c = closing_op(impl) if "outs" in impl else None
    if c is None:
        return False
    return bool((impl["outs"][c - 1]["view"][5] if c > 0 else []) or _created_in(case, impl, c))


def stats(case, impl):
    out = ["kind:" + ("enum:" + case["enum"] if "enum" in case else "random")]
    c = closing_op(impl)
    if c is None:
        return out + ["never-closed"]
    o = impl["outs"][c]
    out.append("closed-by:%s/%s" % (case["ops"][c][0], o["view"][1]))
    out.append("pending-at-close:%d" % len(o["settled"]))
    for f, oc in o["settled"]:
        out.append("at-close:%s:%s" % (impl["kinds"][f], "fail" if _is_fail(oc) else "data"))
    if o["snap"][1]:
        out.append("read-pending-at-close:buf=%d" % min(8, len(o["snap"][0]) // 2))
    out.append("cb-at-close:%d" % o["cbs"])
    for i in range(c + 1, len(impl["outs"])):
        r = impl["outs"][i]["ret"]
        if case["ops"][i][0] in READ_KINDS:
            out.append("read-after-close:" + ("raised" if isinstance(r, list) and r[0] == "raised" else
                                              "data" if any(not _is_fail(x) for _, x in impl["outs"][i]["settled"]) else "other"))
    return out


def signature(case, impl, why):
    w = re.sub(r"op \d+", "op", why)
    w = re.sub(r"future \d+", "future", w)
    for key, sig in [("still pending", "close/left-pending"), ("pending after", "close/left-pending"),
                     ("satisfiable from the buffer", "close/satisfiable-read-failed"),
                     ("cannot satisfy", "close/unsatisfiable-read-completed"),
                     ("real cause", "close/wrong-cause"), ("stream.error", "close/wrong-cause"),
                     ("close callback", "close/callback"), ("on a closed stream returned", "after-close/write-accepted"),
                     ("succeeded after close", "after-close/non-read-succeeded"),
                     ("reads after close", "after-close/read-not-from-buffer"),
                     ("bytes buffered at the close satisfy", "after-close/buffered-data-lost"), ("settled with", "future/bad-result"),
                     ("times", "future/settled-twice"), ("unexpected exception", "uncaught")]:
        if key in w:
            return sig
    return "other/" + re.sub(r"[^a-zA-Z]+", "-", w)[:40]


def shrink(case):
    yield from base.shrink(case)
    ops = case["ops"]
    for i, o in enumerate(ops):
        if o[0] == "arrive" and len(o[1]) > 2:
            yield {**case, "ops": ops[:i] + [["arrive", o[1][:-2]]] + ops[i + 1:]}
            yield {**case, "ops": ops[:i] + [["arrive", o[1][2:]]] + ops[i + 1:]}
