"""C30 — form bodies are parsed losslessly and untrusted bodies fail cleanly
(tornado.httputil.parse_body_arguments / parse_multipart_form_data / escape.parse_qs_bytes)."""
import re, json
from core.wire import atom, line, parse_reply, Atom

ID = "C30"
LEAN_TARGETS = ["TornadoModel.C30.Props"]
_T = "TornadoModel.C30."
THEOREMS = [_T + n for n in [
    "only_input_error", "urlencoded_roundtrip", "urlencoded_roundtrip_entry", "limits_enforced_parts", "limits_enforced_parts_reject",
    "limits_enforced_header", "multipart_roundtrip", "multipart_roundtrip_refuted", "multipart_disposition_recovered",
    "multipart_trailing_backslash_fixed", "multipart_trailing_backslash_recovered", "limits_exact",
    "multipart_disposition2231_recovered", "multipart_roundtrip_2231", "limits_exact_2231",
    "urlencoded_utf8_names_mojibake", "urlencoded_utf8_roundtrip_partial", "urlencoded_utf8_roundtrip_refuted",
    "urlencoded_names_latin1", "urlencoded_wide_name_unrecoverable",
    "multipart_roundtrip_prefilled", "multipart_roundtrip_2231_prefilled", "multipart_roundtrip_entry", "multipart_roundtrip_2231_entry",
    "multipart_inner_exceptions", "multipart_inner_unicode_error", "part_headers_never_keyerror", "parse_body_outcomes",
]]
TRUSTED = [
    "bytes.find/rfind/split, str.split/strip/partition/startswith, UTF-8 decoding, urllib.parse.parse_qs(l)/unquote (latin-1), "
    "email.utils (see C43) — modelled as they behave in CPython 3.12 and exercised by the correspondence stream",
    "the C06 model of HTTPHeaders.parse (part headers, _chars_are_bytes=False) and the C43 model of _parse_header's parameter decoding "
    "(decode_params / RFC 2231 / collapse); _parseparam is modelled in C30/Model.lean as it is after the fix 112a637",
    "the form encoder used by the generator is the Lean definition Spec.encodeMultipart / encodeMultipart2231 / encodeUrlencoded: "
    "the Python encoder's output is compared with it on every generated form",
]
ASSUMPTIONS = [
    "the `arguments` and `files` dictionaries passed to parse_body_arguments are empty (pre-filled dictionaries are exercised at the "
    "parse_multipart_form_data entry: multipart_roundtrip_prefilled, label inner-prefilled)",
    "RFC 2231 parameters: the single form name*=utf-8''pct (and us-ascii/latin-1) is modelled; continuations and other codecs "
    "answer `Unmodelled` and are excluded from the diff (inside parse_body_arguments every exception becomes HTTPInputError anyway)",
    "quoted-string form: names/filenames contain none of the characters HTTPHeaders refuses in a field value "
    "([\\x00-\\x08\\x0a-\\x1f\\x7f]); names are non-empty; upload filenames are non-empty",
    "Content-Disposition parameter names contain no non-ASCII cased letters (see C43)",
]
RULE = ("forms of 0-6 fields/files (binary contents, empty values, repeated names, quoted/escaped/non-ASCII names; control-character names "
        "and filenames in the RFC 2231 form) encoded as multipart (quoted-string or RFC 2231 parameters) or urlencoded (names as latin-1 bytes, or any text as UTF-8); every single-byte mutation of small bodies; arbitrary bodies and content "
        "types; limits at count-1/count/count+1; every non-urlencoded case is also run through parse_multipart_form_data directly (result and "
        "exception type compared with the model's parseMultipart); non-trivial = a form with >=1 part parsed successfully, or a mutated body")
EXHAUSTIVE = {"quick": False, "thorough": False}
CLAUSE_CAVEATS = [
    "only_input_error itself restates the `except Exception` of parse_body_arguments (modelled as `collapse`); its content is "
    "multipart_inner_exceptions (outside the catch-all only UnicodeDecodeError can occur), tied at the parse_multipart_form_data entry. "
    "Still open: where the model answers Unmodelled (an RFC 2231 charset other than utf-8/us-ascii/latin-1 in a part: parse_body_outcomes) "
    "the clause rests on the oracle ('no Uncaught:' on the real result) alone",
]
CLAUSES = {
    "multipart with a boundary occurring nowhere in the content is recovered exactly": "multipart_roundtrip (side condition: boundary without LF — "
        "multipart_roundtrip_refuted shows the clause is false as written for a boundary containing CR LF, which no Content-Type header can carry); "
        "the former side condition 'no upload whose field name ends in a backslash' is gone with the fix 112a637: multipart_disposition_recovered, "
        "multipart_trailing_backslash_fixed / multipart_trailing_backslash_recovered evaluate the old witness; "
        "RFC 2231 parameters (name*=utf-8''pct): multipart_roundtrip_2231 (names/filenames ANY non-empty scalar-valued text, control "
        "characters included; same side condition), multipart_disposition2231_recovered (_parse_header level); at the parse_body_arguments "
        "entry, boundary carried by the Content-Type header: multipart_roundtrip_entry, multipart_roundtrip_2231_entry; pre-filled dicts: "
        "multipart_roundtrip_prefilled, multipart_roundtrip_2231_prefilled",
    "urlencoded forms are recovered exactly": "urlencoded_roundtrip, urlencoded_roundtrip_entry (names sent as latin-1 bytes); names sent the standard "
        "way, as UTF-8: urlencoded_utf8_roundtrip_partial (ASCII names) — the full clause is FALSE for non-ASCII names, "
        "urlencoded_utf8_roundtrip_refuted / urlencoded_utf8_names_mojibake; urlencoded_names_latin1 / urlencoded_wide_name_unrecoverable: no body at "
        "all yields a name with a character above U+00FF (known finding urlencoded/lossy/non-ascii-name-utf8: "
        "parse_qs_bytes reads names as latin-1, documented)",
    "any other body succeeds or raises HTTPInputError, never another exception": "only_input_error, parse_body_outcomes (entry: result / "
        "HTTPInputError / model gives up); multipart_inner_exceptions + multipart_inner_unicode_error + part_headers_never_keyerror (what the "
        "catch-all has to catch: at the parse_multipart_form_data entry the only other exception type is UnicodeDecodeError, and it occurs); "
        "the exception TYPE at that inner entry is compared with the real code on every multipart/raw case",
    "part-count and part-header-size limits are enforced": "limits_enforced_parts, limits_enforced_parts_reject, limits_enforced_header, "
        "limits_exact, limits_exact_2231 (encoded forms, both parameter styles: = accepted, > refused with HTTPInputError, both limits)",
}
PARALLEL = True
CASE_TIMEOUT = 120   # pure functions: only a runaway mutant gets here; generous because the pool may be starved on a loaded machine

NAMES = ["a", "b", "field", "a b", "x;y", "q\"uote", "back\\slash", "\"quoted\"", "tr\\", "é", "名前", "<angle>", "a=b", " lead", "trail ",
         "'tick'", "semi;\"colon", "a\tb", "%41", "a*", "utf-8''x", "\\\"", "\\\\", "😀", "a\xa0", "x" * 40]
FILENAMES = ["f.txt", "a b.png", "q\"uote.txt", "C:\\dir\\file", "é.txt", "semi;colon", "\"", "\\", "x\\\"", "<f>", "файл.bin", "a%22b", " "]
CTYPES = [None, "text/plain", "application/octet-stream", "image/png; x=y", "text/plain; charset=\"utf-8\""]
VALUES = [b"", b"v", b"hello world", b"\x00\xff\xfe", b"line1\r\nline2", b"--", b"\r\n", b"--x", b"a=b&c=d", b"\r\n\r\n", b"x" * 70,
          "é".encode(), b"--boundary", b"-", b"\r", b"\n", b"--\r\n"]
BOUNDARIES = ["zZ9", "1234", "----WebKitFormBoundaryAbC123", "boundary", "b", "a'b", "x=y", "(+_,-./:?)", "B--", "--", "é", "a b", "\"", "q\"q",
              "0" * 70]
U8_NAMES = ["a", "é", "名前", "😀", "a b", "x&y", "k=v", "ü%41", "\x7f", "\x80", "ÿ", "Ā", "+", "z" * 30]
_FORBIDDEN = re.compile(r"[\x00-\x08\x0a-\x1f\x7f]")
# names / filenames only the RFC 2231 form can carry (they travel percent-encoded): control characters, CR LF, DEL, NUL
R_ONLY = ["a\nb", "\x00", "\r\n", "x\x7f", "\x1f;\"", "tab\there\n", "\x0b\x0c", "\x85\u2028", "'", "utf-8''%41", "\n"]


# ----------------------------------------------------------------------------------------------- encoders (generator side)
def _q(s):
    return '"' + s.replace("\\", "\\\\").replace('"', '\\"') + '"'


def _pct(s):
    return "".join(chr(b) if (chr(b).isalnum() and b < 128) or chr(b) in "-._~" else "%%%02X" % b for b in s.encode("utf-8"))


def encode_multipart(form, boundary, parts):
    out = b""
    b = boundary.encode("utf-8")
    for name, fn, ct, val in parts:
        if form == "q":
            disp = "Content-Disposition: form-data; name=" + _q(name) + ("; filename=" + _q(fn) if fn is not None else "")
        else:
            disp = "Content-Disposition: form-data; name*=utf-8''" + _pct(name) + \
                ("; filename*=utf-8''" + _pct(fn) if fn is not None else "")
        out += b"--" + b + b"\r\n" + disp.encode("utf-8") + b"\r\n"
        if ct is not None:
            out += ("Content-Type: " + ct).encode("utf-8") + b"\r\n"
        out += b"\r\n" + bytes.fromhex(val) + b"\r\n"
    return out + b"--" + b + b"--\r\n"


def _qb(bs):
    return "".join(chr(b) if (chr(b).isalnum() and b < 128) or chr(b) in "_.-~" else "+" if b == 32 else "%%%02X" % b for b in bs)


def encode_urlencoded(fields, enc="l1"):
    """enc = "l1": names as latin-1 bytes (the only encoding parse_qs_bytes inverts); "u8": names as UTF-8 bytes (what browsers send)"""
    codec = "utf-8" if enc == "u8" else "latin-1"
    return "&".join(_qb(n.encode(codec)) + "=" + _qb(bytes.fromhex(v)) for n, v in fields).encode("ascii")


# ----------------------------------------------------------------------------------------------- generators
def _parts(rng, n):
    ps = []
    for _ in range(n):
        name = rng.choice(NAMES[:6]) if rng.random() < 0.5 else rng.choice(NAMES)
        if ps and rng.random() < 0.25:
            name = rng.choice(ps)[0]
        is_file = rng.random() < 0.4
        fn = rng.choice(FILENAMES) if is_file else None
        ct = rng.choice(CTYPES) if is_file else (rng.choice(CTYPES) if rng.random() < 0.1 else None)
        val = rng.choice(VALUES) if rng.random() < 0.7 else bytes(rng.randrange(256) for _ in range(rng.randint(0, 24)))
        ps.append([name, fn, ct, val.hex()])
    return ps


def _ctype_header(rng, boundary):
    k = rng.random()
    if k < 0.6:
        return "multipart/form-data; boundary=" + boundary
    if k < 0.75:
        return "multipart/form-data; boundary=\"" + boundary + "\""
    if k < 0.85:
        return "multipart/form-data; charset=utf-8; boundary=" + boundary
    if k < 0.92:
        return "multipart/form-data;boundary=" + boundary + "; x=y"
    return "multipart/form-data ;  boundary=" + boundary


def _cfg(rng, parts, body, boundary):
    """limits around the actual counts"""
    k = rng.random()
    cfg = {"enabled": True, "max_parts": 100, "max_hdr": 10240}
    if k < 0.25:
        cfg["max_parts"] = max(0, len(parts) + rng.choice([-1, 0, 0, 1]))
    elif k < 0.5:
        sizes = _header_sizes(body, boundary.encode("utf-8"))
        if sizes:
            cfg["max_hdr"] = max(0, rng.choice(sizes) + rng.choice([-1, 0, 0, 1]))
    elif k < 0.53:
        cfg["enabled"] = False
    return cfg


def _pieces(body, b):
    idx = body.rfind(b"--" + b + b"--")
    if idx < 0:
        return None
    return body[:idx].split(b"--" + b + b"\r\n")


def _header_sizes(body, b):
    ps = _pieces(body, b) or []
    return [p.find(b"\r\n\r\n") for p in ps if p and p.find(b"\r\n\r\n") >= 0]


def _prefill(rng):
    """pre-filled `arguments` / `files` dictionaries for the direct parse_multipart_form_data call (as after query-string parsing);
    names overlap with the generated ones so that appending to an existing key is exercised"""
    args = [[rng.choice(NAMES[:8]), [rng.choice(VALUES).hex() for _ in range(rng.randint(1, 2))]] for _ in range(rng.randint(0, 2))]
    files = [[rng.choice(NAMES[:8]), [[rng.choice(FILENAMES), rng.choice(VALUES).hex(), "text/plain"]]] for _ in range(rng.randint(0, 1))]
    dedup = lambda l: [kv for i, kv in enumerate(l) if kv[0] not in [x[0] for x in l[:i]]]
    return {"args": dedup(args), "files": dedup(files)}


def _form_case(rng, maxparts=6):
    boundary = rng.choice(BOUNDARIES[:4]) if rng.random() < 0.6 else rng.choice(BOUNDARIES)
    form = "q" if rng.random() < 0.7 else "r"
    parts = _parts(rng, rng.randint(0, maxparts))
    if form == "r":
        for p in parts:
            if rng.random() < 0.2:
                p[0] = rng.choice(R_ONLY)
            if p[1] is not None and rng.random() < 0.2:
                p[1] = rng.choice(R_ONLY)
    body = encode_multipart(form, boundary, parts)
    ct = _ctype_header(rng, boundary)
    case = {"kind": "form", "form": form, "boundary": boundary, "parts": parts, "ct": ct, "ce": rng.random() < 0.03,
            "cfg": _cfg(rng, parts, body, boundary)}
    if rng.random() < 0.15:
        case["pre"] = _prefill(rng)
    return case


RAW_CT = ["multipart/form-data; boundary=b", "multipart/form-data", "multipart/form-dataxyz; boundary=b", "multipart/form-data; boundary=",
          "multipart/form-data; Boundary=b", "multipart/form-data; boundary=\"b\"", "multipart/form-data; boundary=\"", "application/x-www-form-urlencoded",
          "application/x-www-form-urlencoded; charset=utf-8", "application/x-www-form-urlencodedX", "text/plain", "", "application/json",
          "multipart/form-data; boundary=\udc80", "multipart/form-data; boundary=b; boundary=c", "multipart/form-data; a=1; boundary =b",
          " multipart/form-data; boundary=b", "MULTIPART/FORM-DATA; boundary=b", "multipart/form-data\xa0; boundary=b"]
RAW_BODY = [b"", b"--b--", b"--b--\r\n", b"--b\r\n--b--", b"--b\r\n\r\n--b--", b"--b\r\n\r\n\r\n--b--", b"--b\r\nContent-Disposition: form-data; name=\"a\"\r\n\r\nv\r\n--b--",
            b"--b\r\nContent-Disposition: form-data; name=\"a\"\r\n\r\nv--b--", b"--b\r\nContent-Disposition: attachment; name=\"a\"\r\n\r\nv\r\n--b--",
            b"--b\r\nContent-Disposition: form-data\r\n\r\nv\r\n--b--", b"--b\r\nContent-Disposition: form-data; name=\r\n\r\nv\r\n--b--",
            b"--b\r\nContent-Disposition: form-data; name=a; filename=\r\n\r\nv\r\n--b--", b"--b\r\n\xff: x\r\n\r\nv\r\n--b--",
            b"--b\r\nContent-Disposition: form-data; name=\"a\"\r\n folded\r\n\r\nv\r\n--b--", b"--b\r\nno colon\r\n\r\nv\r\n--b--",
            b"--b\r\n folded first\r\n\r\nv\r\n--b--", b"--b\r\nContent-Disposition: form-data; name*1=a; name*=b\r\n\r\nv\r\n--b--",
            b"--b\r\nContent-Disposition: form-data; name*=undefined''x\r\n\r\nv\r\n--b--", b"--b\r\nA: b\x00\r\n\r\nv\r\n--b--",
            b"preamble--b\r\nContent-Disposition: form-data; name=a\r\n\r\nv\r\n--b--", b"--b\r\nContent-Disposition: form-data; name=a\r\n\r\nv\r\n--b--epilogue--b--",
            b"--b\r\nContent-Disposition: form-data; name=a\n\nv\r\n--b--", b"--b\r\nContent-Disposition: form-data; name=a\r\nContent-Disposition: x\r\n\r\nv\r\n--b--",
            b"--b\r\nContent-Disposition: form-data; name*0=a; name*=b\r\n\r\nv\r\n--b--",
            b"--b\r\nContent-Disposition: form-data; x*1=a; x*=b; name=n\r\n\r\nv\r\n--b--",
            b"--b\r\nContent-Disposition: form-data; name*=idna''xn--a..b\r\n\r\nv\r\n--b--",
            b"--b\r\nContent-Disposition: form-data; name*=a%00b''x\r\n\r\nv\r\n--b--",
            b"--b\r\nContent-Disposition: form-data; name=\xff\r\n\r\nv\r\n--b--",
            b"a=1&b=2", b"a=1&a=2&&=x&y", b"%zz=%41+%", b"\xff=\xfe&\xe9", b"a=b=c;d=e", b"a", b"="]


def _mutations(body):
    for i in range(len(body)):
        yield body[:i] + body[i + 1:]
        yield body[:i] + bytes([body[i] ^ 0x20]) + body[i + 1:]
        yield body[:i] + b"\"" + body[i:]
        yield body[:i] + b"-" + body[i + 1:]


def gen_cases(rng, tier):
    n_form = {"quick": 1100, "thorough": 60000, "search": 1500}[tier]
    n_raw = {"quick": 500, "thorough": 30000, "search": 600}[tier]
    n_mut_bodies = {"quick": 2, "thorough": 120, "search": 3}[tier]
    for _ in range(n_form):
        yield _form_case(rng)
    for _ in range(n_form // 3):
        fields = []
        for _ in range(rng.randint(0, 5)):
            name = rng.choice(["a", "b", "a b", "é", "x&y", "k=v", "%41", "+", "", "a;b", "\xff"])
            val = rng.choice(VALUES) if rng.random() < 0.7 else bytes(rng.randrange(256) for _ in range(rng.randint(0, 12)))
            fields.append([name, val.hex()])
        case = {"kind": "urlenc", "fields": fields, "ct": rng.choice(RAW_CT[7:9]), "ce": rng.random() < 0.03}
        if rng.random() < 0.35:
            # the standard encoding: names as percent-encoded UTF-8, any text (known finding: non-ASCII names come back as mojibake)
            case["enc"] = "u8"
            for f in fields:
                if rng.random() < 0.5:
                    f[0] = rng.choice(U8_NAMES)
        yield case
    for _ in range(n_raw):
        k = rng.random()
        body = rng.choice(RAW_BODY)
        if k < 0.5:
            for _ in range(rng.randint(0, 2)):
                if body:
                    i = rng.randrange(len(body))
                    body = body[:i] + rng.choice([b"", b"\r\n", b"--b", b"\"", b";", b"\\", bytes([rng.randrange(256)])]) + body[i + rng.choice([0, 1]):]
        elif k < 0.6:
            body = bytes(rng.choice(b"-b\r\n:;=\"a \\*'") for _ in range(rng.randint(0, 40)))
        case = {"kind": "raw", "ct": RAW_CT[0] if rng.random() < 0.5 else rng.choice(RAW_CT), "body": body.hex(), "ce": rng.random() < 0.05,
                "cfg": {"enabled": rng.random() > 0.03, "max_parts": rng.choice([100, 100, 0, 1, 2]), "max_hdr": rng.choice([10240, 10240, 0, 10, 45])}}
        if rng.random() < 0.1:
            case["pre"] = _prefill(rng)
        yield case
    # every single-byte mutation of a few small bodies (complete for these bodies)
    for _ in range(n_mut_bodies):
        c = _form_case(rng, maxparts=2)
        body = encode_multipart(c["form"], c["boundary"], c["parts"])
        if len(body) > 220:
            continue
        for m in _mutations(body):
            yield {"kind": "raw", "ct": c["ct"], "body": m.hex(), "ce": False, "cfg": {"enabled": True, "max_parts": 100, "max_hdr": 10240},
                   "mutant_of": True}


# ----------------------------------------------------------------------------------------------- implementation
def _exc(e):
    from tornado.httputil import HTTPInputError
    if isinstance(e, HTTPInputError):
        return "HTTPInputError"
    return "Uncaught:" + type(e).__name__


def _body_ct(case):
    if case["kind"] == "form":
        return encode_multipart(case["form"], case["boundary"], case["parts"]), case["ct"]
    if case["kind"] == "urlenc":
        return encode_urlencoded(case["fields"], case.get("enc", "l1")), case["ct"]
    return bytes.fromhex(case["body"]), case["ct"]


def _cfgof(case):
    return case.get("cfg") or {"enabled": True, "max_parts": 100, "max_hdr": 10240}


def _inner_boundary(case):
    """the boundary handed to parse_multipart_form_data in the direct (inner entry) call: the form's own boundary, or the first
    non-empty boundary= parameter of the content type (as parse_body_arguments extracts it), else b"b" (the RAW_BODY boundary)"""
    if case["kind"] == "form":
        return case["boundary"].encode("utf-8")
    for field in case["ct"].split(";"):
        k, _sep, v = field.strip().partition("=")
        if k == "boundary" and v:
            try:
                return v.encode("utf-8")
            except UnicodeEncodeError:
                break
    return b"b"


def _result(args, files):
    return [[[k, [v.hex() for v in vs]] for k, vs in args.items()],
            [[k, [[f.filename, f.body.hex(), f.content_type] for f in fs]] for k, fs in files.items()]]


def run_impl(case):
    from tornado import httputil
    body, ct = _body_ct(case)
    c = _cfgof(case)
    cfg = httputil.ParseBodyConfig(multipart=httputil.ParseMultipartConfig(enabled=c["enabled"], max_parts=c["max_parts"],
                                                                              max_part_header_size=c["max_hdr"]))
    headers = httputil.HTTPHeaders({"Content-Encoding": "gzip"}) if case.get("ce") else (httputil.HTTPHeaders() if len(body) % 2 else None)
    args, files = {}, {}
    try:
        httputil.parse_body_arguments(ct, body, args, files, headers, config=cfg)
        r = _result(args, files)
    except Exception as e:
        r = _exc(e)
    out = {"r": r, "body": body.hex()}
    if case["kind"] != "urlenc":
        # the inner entry, outside the catch-all of parse_body_arguments: here the exception TYPE is observable
        # (HTTPInputError vs UnicodeDecodeError …) and is compared with the model's parseMultipart
        pre = case.get("pre") or {"args": [], "files": []}
        args = {n: [bytes.fromhex(v) for v in vs] for n, vs in pre["args"]}
        files = {n: [httputil.HTTPFile(filename=fn, body=bytes.fromhex(b), content_type=t) for fn, b, t in fs] for n, fs in pre["files"]}
        try:
            httputil.parse_multipart_form_data(_inner_boundary(case), body, args, files, config=cfg.multipart)
            out["mp"] = _result(args, files)
        except Exception as e:
            out["mp"] = _exc(e)
    return out


# ----------------------------------------------------------------------------------------------- model / spec
_SKIP = set()
_SKIP_MP = set()


def _key(case):
    return json.dumps(case, sort_keys=True)


def _wire_parts(case):
    return [[n, fn, ct, bytes.fromhex(v)] for n, fn, ct, v in case["parts"]]


def _formenc(case):
    return "formenc8" if case.get("enc") == "u8" else "formenc"


def model_requests(case, impl):
    body, ct = _body_ct(case)
    c = _cfgof(case)
    out = [line(ID, "parse", c["enabled"], c["max_parts"], c["max_hdr"], ct, body, bool(case.get("ce")))]
    if case["kind"] == "form":
        out.append(line(ID, "encode", atom(case["form"]), case["boundary"].encode("utf-8"), _wire_parts(case)))
    if case["kind"] == "urlenc":
        out.append(line(ID, _formenc(case), [[n, bytes.fromhex(v)] for n, v in case["fields"]]))
    else:
        pre = case.get("pre")
        extra = [] if pre is None else [[[[n, [bytes.fromhex(v) for v in vs]] for n, vs in pre["args"]],
                                         [[n, [[fn, bytes.fromhex(b), t] for fn, b, t in fs]] for n, fs in pre["files"]]]]
        out.append(line(ID, "multipart", c["enabled"], c["max_parts"], c["max_hdr"], _inner_boundary(case), body, *extra))
    return out


def _norm(v):
    if isinstance(v, Atom):
        return {"T": True, "F": False}.get(str(v), str(v))
    if isinstance(v, (bytes, bytearray)):
        return bytes(v).hex()
    if isinstance(v, list):
        return [_norm(x) for x in v]
    return v


def _py(reply):
    st, vals = parse_reply(reply)
    assert st == "ok", reply
    return [_norm(v) for v in vals]


def model_result(case, replies):
    r = _py(replies[0])[0]
    if r == "Unmodelled":
        _SKIP.add(_key(case))
    out = {"r": r}
    if case["kind"] in ("form", "urlenc"):
        out["body"] = _py(replies[1])[0]
    if case["kind"] != "urlenc":
        out["mp"] = _py(replies[-1])[0]
        if out["mp"] == "Unmodelled":
            _SKIP_MP.add(_key(case))
    return out


def impl_view(case, impl):
    out = {"r": "Unmodelled" if _key(case) in _SKIP else impl["r"]}
    if case["kind"] in ("form", "urlenc"):
        out["body"] = impl["body"]
    if case["kind"] != "urlenc":
        out["mp"] = "Unmodelled" if _key(case) in _SKIP_MP else impl["mp"]
    return out


def spec_requests(case, impl):
    if case["kind"] == "form":
        return [line(ID, "expected", _wire_parts(case))]
    if case["kind"] == "urlenc":
        return [line(ID, _formenc(case), [[n, bytes.fromhex(v)] for n, v in case["fields"]])]
    return []


def _roundtrip_domain(case):
    """the hypotheses of the lossless clause; -> None when they hold, else the reason the clause says nothing"""
    b = case["boundary"].encode("utf-8")
    body = encode_multipart(case["form"], case["boundary"], case["parts"])
    if body.count(b) != len(case["parts"]) + 1:
        return "boundary occurs in the content"
    if not re.fullmatch(r"[0-9A-Za-z'()+_,\-./:=? ]{0,69}[0-9A-Za-z'()+_,\-./:=?]", case["boundary"]):
        return "boundary outside RFC 2046 bchars"    # also gives `LF not in boundary`, the side condition of multipart_roundtrip
    if case["ct"].count("boundary=") != 1 or ";" in case["boundary"]:
        return "content-type header ambiguous"
    for n, fn, ct, v in case["parts"]:
        if n == "" or fn == "":
            return "empty name/filename"
        if case["form"] == "q" and (_FORBIDDEN.search(n) or (fn is not None and _FORBIDDEN.search(fn))):
            return "control characters cannot be sent in a quoted-string parameter"
    c = _cfgof(case)
    if not c["enabled"] or case.get("ce"):
        return "disabled / content-encoding"
    if len(case["parts"]) > c["max_parts"] or any(s > c["max_hdr"] for s in _header_sizes(body, b)):
        return "over a configured limit"
    return None


def spec_violation(case, impl, replies):
    r = impl["r"]
    if isinstance(r, str) and r.startswith("Uncaught:"):
        return "parse_body_arguments raised %s" % r[9:]
    body, ct = _body_ct(case)
    c = _cfgof(case)
    # limits: whatever the body, success means the limits were respected
    if isinstance(r, list) and ct.startswith("multipart/form-data"):
        m = re.search(r"(?:^|;)\s*boundary=([^;]+)", ct)
        if m:
            b = m.group(1).strip().encode("utf-8", "replace")
            if b.startswith(b'"') and b.endswith(b'"'):
                b = b[1:-1]
            ps = _pieces(body, b)
            if ps is not None:
                if len(ps) - 1 > c["max_parts"]:
                    return "limit not enforced: %d parts accepted with max_parts=%d" % (len(ps) - 1, c["max_parts"])
                big = [s for s in _header_sizes(body, b) if s > c["max_hdr"]]
                if big:
                    return "limit not enforced: part header of %d bytes accepted with max_part_header_size=%d" % (big[0], c["max_hdr"])
    if case["kind"] == "form":
        why_not = _roundtrip_domain(case)
        if why_not is None:
            want = _py(replies[0])[0]
            if r != want:
                trailing = any(fn is not None and n.endswith("\\") for n, fn, ct_, v in case["parts"]) and case["form"] == "q"
                return "multipart form not recovered%s: got %r, expected %r" % (" (name ending in a backslash before filename)" if trailing else "",
                                                                                 r if isinstance(r, str) else r, want)
    if case["kind"] == "urlenc" and not case.get("ce"):
        want = _py(replies[0])[1]
        want = [[n, vs] for n, vs in want]
        if r != [want, []]:
            u8 = case.get("enc") == "u8" and any(not n.isascii() for n, _v in case["fields"])
            return "urlencoded form not recovered%s: got %r, expected %r" % (" (non-ASCII name sent as UTF-8)" if u8 else "", r, want)
    return None


def nontrivial(case, impl):
    if case["kind"] == "form":
        return isinstance(impl["r"], list) and len(case["parts"]) >= 1
    if case["kind"] == "urlenc":
        return len(case["fields"]) >= 1
    return bool(case.get("mutant_of")) or isinstance(impl["r"], list)


def stats(case, impl):
    out = ["kind:" + case["kind"] + ("/mutant" if case.get("mutant_of") else "")]
    r = impl["r"]
    out.append("result:" + (r if isinstance(r, str) else "ok"))
    if case["kind"] == "urlenc":
        out.append("urlenc-names:" + ("latin-1" if case.get("enc") != "u8" else
                                      "utf-8/ascii-only" if all(n.isascii() for n, _v in case["fields"]) else "utf-8/non-ascii"))
    if case["kind"] == "form":
        out.append("parts:%d" % len(case["parts"]))
        out.append("form:" + case["form"])
        out.append("lossless-clause:" + (_roundtrip_domain(case) or "applies"))
        if case["form"] == "r" and any(_FORBIDDEN.search(n) or (fn is not None and _FORBIDDEN.search(fn)) for n, fn, _c, _v in case["parts"]):
            out.append("r-form:control-character-name" + ("/recovered" if isinstance(r, list) else ""))
    if _key(case) in _SKIP:
        out.append("unmodelled")
    if case.get("pre") is not None:
        out.append("inner-prefilled" + ("/ok" if isinstance(impl.get("mp"), list) else ""))
    if "mp" in impl:
        out.append("inner:" + (impl["mp"] if isinstance(impl["mp"], str) else "ok"))
    return out


def signature(case, impl, why):
    if "raised" in why:
        return "uncaught/" + why.rsplit(" ", 1)[-1]
    if "name ending in a backslash" in why:
        return "multipart/lossy/name-trailing-backslash"
    if "limit not enforced" in why:
        return "limits/" + ("parts" if "max_parts" in why else "header")
    if "multipart form not recovered" in why:
        return "multipart/lossy/" + case.get("form", "?")
    if "non-ASCII name sent as UTF-8" in why:
        return "urlencoded/lossy/non-ascii-name-utf8"
    if "urlencoded" in why:
        return "urlencoded/lossy"
    return "other"


def shrink(case):
    if case["kind"] == "form":
        ps = case["parts"]
        for i in range(len(ps)):
            yield {**case, "parts": ps[:i] + ps[i + 1:]}
        for i, p in enumerate(ps):
            if p[3]:
                yield {**case, "parts": ps[:i] + [[p[0], p[1], p[2], ""]] + ps[i + 1:]}
            if p[2] is not None:
                yield {**case, "parts": ps[:i] + [[p[0], p[1], None, p[3]]] + ps[i + 1:]}
        if case["boundary"] != "b":
            yield {**case, "boundary": "b", "ct": "multipart/form-data; boundary=b"}
    if case["kind"] == "urlenc":
        fs = case["fields"]
        for i in range(len(fs)):
            yield {**case, "fields": fs[:i] + fs[i + 1:]}
    if case["kind"] == "raw":
        b = bytes.fromhex(case["body"])
        for i in range(len(b)):
            yield {**case, "body": (b[:i] + b[i + 1:]).hex()}
