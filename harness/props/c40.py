"""C40 — selector-thread loop never deadlocks, loses events or hangs on close (tornado.platform.asyncio.SelectorThread).

Tie.  The *real* `SelectorThread` code runs on two real threads, but every primitive through which the threads
interact is supplied by the harness (module-level names `threading`, `select`, `socket` of tornado.platform.asyncio
are replaced by shims for the duration of a case; the wrapped event loop is a minimal thread-safe callback queue):

  threading.Condition  -> a lock + wait/notify implemented on a *deterministic scheduler*
  threading.Thread     -> a real thread whose start/join go through that scheduler
  select.select        -> simulated readiness (pipes are "made ready" by the script), blocks in the scheduler; raises
                          OSError(EBADF) when a captured int descriptor has been closed by the script
  socket.socketpair    -> the waker as a byte counter
  loop.call_soon_threadsafe -> FIFO queue, callbacks run by the script on the loop thread

Exactly one thread runs at a time; at every interaction point a seeded scheduler decides who runs next, so each case
(script + schedule seed) is one exactly reproducible interleaving, a lost wake-up shows as a *detected* deadlock (no
runnable thread) instead of a timeout, and both threads' steps are recorded in their true order.  The recorded
execution is replayed through the Lean model as an acceptor (trace inclusion) and the final states are compared.
Thorough adds executions with the real select/socketpair/Condition under randomised delays (end-to-end checks only).
"""
import os, random, re, sys, threading as real_threading, time, types
from unittest import mock
from core.wire import atom, line, parse_reply, Atom

ID = "C40"
LEAN_TARGETS = ["TornadoModel.C40.Props"]
THEOREMS = [
    "TornadoModel.C40.invTok_step",
    "TornadoModel.C40.invWake_step",
    "TornadoModel.C40.invClose_step",
    "TornadoModel.C40.inv_reach",
    "TornadoModel.C40.token_unique",
    "TornadoModel.C40.assert_never_fails",
    "TornadoModel.C40.post_finds_args_empty",
    "TornadoModel.C40.at_most_one_select",
    "TornadoModel.C40.wake_invariant",
    "TornadoModel.C40.waker_always_captured",
    "TornadoModel.C40.stale_select_returns",
    "TornadoModel.C40.callbacks_on_loop_thread",
    "TornadoModel.C40.raise_keeps_round",
    "TornadoModel.C40.close_progress",
    "TornadoModel.C40.close_rank_decreases",
    "TornadoModel.C40.join_returns",
    "TornadoModel.C40.close_can_wake",
    "TornadoModel.C40.selected_reports_ready",
    "TornadoModel.C40.invExit_step",
    "TornadoModel.C40.exit_only_after_closing",
    "TornadoModel.C40.quiescent_nothing_ready",
    "TornadoModel.C40.quiescent_select_in_progress",
    "TornadoModel.C40.ebadf_recovers",
    "TornadoModel.C40.ebadf_round",
    "TornadoModel.C40.ready_fd_forces_progress",
    "TornadoModel.C40.rank_step",
    "TornadoModel.C40.rank_env",
    "TornadoModel.C40.rank_mut",
    "TornadoModel.C40.watched_can_move",
    "TornadoModel.C40.no_lost_event",
    "TornadoModel.C40.rank_run",
    "TornadoModel.C40.every_schedule_dispatches",
    "TornadoModel.C40.no_lost_event_fair",
    "TornadoModel.C40.no_lost_event_partial",
    "TornadoModel.C40.no_lost_event_refuted",
    "TornadoModel.C40.Refute.s0_needs_17",
]
TRUSTED = [
    "atomicity: steps of the model are atomic because the code holds _select_cond there or uses one thread-safe primitive (socket send/recv, select returning, call_soon_threadsafe) — GIL / threading.Condition / asyncio contracts",
    "the harness shims for Condition, Thread, select and the waker socket implement those contracts (deterministic scheduler, one thread runs at a time)",
]
ASSUMPTIONS = [
    "close() is called between callbacks (not from inside a reader/writer callback) and registrations are not changed after close",
    "a descriptor is closed only after it has been unregistered from both maps (then select may fail with EBADF/WSAENOTSOCK: "
    "on entry, and per case also while blocked; recovery branch modelled as the code has it); closing a registered descriptor, "
    "other select errors and interpreter shutdown (_atexit_callback) are not exercised",
    "user fds are never the waker; a raising callback is handed to the loop's exception handler (the loop goes on)",
]
RULE = ("scripts of loop-thread actions (add/remove reader/writer, close an unregistered fd - possibly captured by the select in "
        "flight, so that the scripted select raises EBADF -, make fd ready/unready, run a queued callback, callbacks that "
        "consume / unregister / unregister+close / register, close) x seeded schedules over the yield points of both threads; "
        "non-trivial = at least one user fd dispatched or a registration changed while a select was in progress")
EXHAUSTIVE = {"quick": False, "thorough": False}
CLAUSE_CAVEATS = [
    'the liveness chain (no_lost_event, every_schedule_dispatches, no_lost_event_fair) is stated for reader fds; writers have the safety forms quiescent_nothing_ready / ready_fd_forces_progress; executions with raising callbacks or EBADF recovery are outside the fairness theorems (tie only)',
]
CLAUSES = {
    "at most one select call is in progress": "token_unique, at_most_one_select, assert_never_fails, post_finds_args_empty",
    "every readiness of an fd that stays registered is eventually dispatched on the event-loop thread":
        "safety form proved: quiescent_nothing_ready / ready_fd_forces_progress (a registered ready fd always leaves a step enabled: no deadlock with work to do), wake_invariant, "
        "waker_always_captured, stale_select_returns, selected_reports_ready; "
        "liveness proved with an explicit ranking function rank(fd, state) on (token position, wake-up owed): rank_step (every progress step of "
        "either thread strictly decreases it until fd's callback runs), rank_env (the environment does not move it), rank_mut (a user call "
        "add/remove_reader/writer that leaves fd registered raises it by at most 2), watched_can_move (a progress step is always enabled while a "
        "registered fd is readable: the selector/loop pair never deadlocks), no_lost_event (an explicit schedule of <= rank progress steps "
        "dispatches fd), rank_run / every_schedule_dispatches (EVERY execution of progress, environment and user-call steps with more than "
        "rank + 2*calls progress steps has dispatched fd), no_lost_event_fair (infinite executions under fairness with finitely many user calls: "
        "the callback runs, no later than the rank+2M+1-th progress step); the first-stated constant bound of 16 steps is false "
        "(no_lost_event_refuted, Refute.s0_needs_17: with 16 readable fds the last needs 17 steps, callbacks of a round run in order) and holds "
        "where rank <= 16 (no_lost_event_partial); EBADF recovery: ebadf_recovers (the poll finds the waker: the thread does not die), "
        "ebadf_round (the recovery returns to the loop and the token is posted again), quiescent_select_in_progress (a rest state has a select "
        "in progress); tie: settle-phase oracle Spec.lost + Spec.inSelect on every execution; liveness across EBADF recoveries: tie only",
    "callbacks never run on the selector thread": "callbacks_on_loop_thread (structural) + thread identity observed in every execution",
    "close always returns with the selector thread stopped": "close_can_wake, close_progress, close_rank_decreases, join_returns",
    "real executions are executions of the model": "tie only: every recorded execution is accepted by Model.step and ends in the model's final state",
}
PARALLEL = False
CASE_TIMEOUT = 120
LEVEL_NOTE = "OS scheduler and real select(2) errors are outside the model; liveness is proved at the level of the model (ranking function; bound rank + 2 per user call); unboundedly many user calls / callbacks that never return are outside it"

WAKER = 0
FDS = [3, 4, 5]


class Abort(BaseException):
    """raised inside a managed thread to unwind it when the case is being torn down"""


class Infra(Exception):
    pass


class Deadlock(Exception):
    pass


class Boom(Exception):
    """raised by a scripted user callback"""


# --------------------------------------------------------------------------- deterministic scheduler
class Sched:
    WATCHDOG = 60.0

    def __init__(self, seed, stay):
        self.cv = real_threading.Condition()
        self.rng = random.Random(seed)
        self.stay = stay
        self.current = "L"
        self.th = {"L": {"pred": None, "done": False, "stuck_ok": False}}
        self.aborted = False
        self.deadlock = None
        self.switches = 0
        self.dead = False               # case over: every primitive degenerates to a no-op

    def me(self):
        return getattr(real_threading.current_thread(), "_c40_name", "L")

    def _enabled(self):
        out = []
        for n, t in self.th.items():
            if t["done"] or t.get("unstarted"):
                continue
            if t["pred"] is None or t["pred"]():
                out.append(n)
        return out

    def _pick(self, me):
        en = self._enabled()
        if not en:
            lt = self.th["L"]
            if lt["stuck_ok"] and not lt["done"]:
                lt["stuck"] = True
                return "L"
            self.deadlock = {n: t.get("where") for n, t in self.th.items() if not t["done"]}
            self.aborted = True
            return "L"
        if me in en and self.rng.random() < self.stay:
            return me
        return self.rng.choice(sorted(en))

    def _wait_turn(self, me):
        t0 = time.time()
        while self.current != me:
            if self.aborted and me != "L":
                raise Abort()
            if not self.cv.wait(timeout=5.0) and time.time() - t0 > self.WATCHDOG:
                self.aborted = True
                self.cv.notify_all()
                raise Infra("scheduler watchdog: thread %s never got its turn" % me)
        if self.aborted and me != "L":
            raise Abort()
        if self.deadlock is not None and me == "L":
            d, self.deadlock = self.deadlock, None
            raise Deadlock(str(d))

    def yield_point(self, where, pred=None, stuck_ok=False):
        """the running thread offers the baton; returns when it is this thread's turn again and `pred` holds.
        -> True normally, False when resumed because nothing at all could run (only with stuck_ok)."""
        me = self.me()
        if self.dead:
            return True
        with self.cv:
            t = self.th[me]
            t["pred"], t["where"], t["stuck_ok"], t["stuck"] = pred, where, stuck_ok, False
            self.switches += 1
            self.current = self._pick(me)
            self.cv.notify_all()
            self._wait_turn(me)
            t["pred"], t["stuck_ok"] = None, False
            return not t["stuck"]

    def register(self, name):
        self.th[name] = {"pred": None, "done": False, "stuck_ok": False, "unstarted": True}

    def started(self, name):
        self.th[name]["unstarted"] = False

    def thread_begin(self, name):
        with self.cv:
            self._wait_turn(name)

    def thread_end(self, name):
        with self.cv:
            self.th[name]["done"] = True
            if self.current == name:
                self.current = self._pick(name)
            self.cv.notify_all()

    def abort(self):
        with self.cv:
            self.aborted = True
            self.cv.notify_all()


# --------------------------------------------------------------------------- shims
class World:
    """everything one case shares: scheduler, trace, simulated readiness, the waker, the loop queue"""

    def __init__(self, seed, stay):
        self.sched = Sched(seed, stay)
        self.trace = []
        self.readyR, self.readyW = set(), set()
        self.bytes = 0
        self.queue = []                 # (callback, args) queued with call_soon / call_soon_threadsafe
        self.sel = None
        self.errors = []
        self.threads = []
        self.off_thread = []            # callbacks observed on a thread other than L
        self.first_post = True
        self.infra = None
        self.handled = []               # exceptions handed to loop.call_exception_handler
        self.closes = []                # trace positions of close_fd
        self.closed = set()             # user fds that have been closed (after being unregistered)
        self.ebadf_blocked = False      # does closing a captured fd also fail a select that is already blocked?
        self.after_ebadf = False
        self.ebadf = 0
        self.ebadf_where = []

    def rec(self, *ev):
        self.trace.append(list(ev))

    def fdnum(self, x):
        return x if isinstance(x, int) else x.fileno()

    def sets(self, r, w):
        # a bare int equal to the waker's descriptor number is what the EBADF recovery reports (`_waker_r.fileno()`): it
        # is not a key of `_readers` (the waker is registered as the socket object) - for `_handle_select` it is nothing
        def key(x):
            return not (isinstance(x, int) and x == WAKER)
        return [[self.fdnum(x) for x in r if key(x)], [self.fdnum(x) for x in w if key(x)]]


def make_shims(W):
    sched = W.sched

    class Cond:
        def __init__(self):
            self.owner = None
            self.waiting, self.notified = [], set()
            self.snap = {}

        def _snapshot(self, me):
            s = W.sel
            self.snap[me] = (None if s._select_args is None else W.sets(*s._select_args), bool(s._closing_selector))

        def __enter__(self):
            me = sched.me()
            sched.yield_point("cond.acquire", pred=lambda: self.owner is None)
            self.owner = me
            self._snapshot(me)
            return self

        def __exit__(self, et, ev, tb):
            me = sched.me()
            s = W.sel
            before_args, before_closing = self.snap.get(me, (None, False))
            now_args = None if s._select_args is None else W.sets(*s._select_args)
            if et is None:
                if me == "L":
                    if s._closing_selector and not before_closing:
                        W.rec("setClosing")
                    elif now_args is not None and before_args is None:
                        W.rec("start" if W.first_post else "post", *now_args)
                        W.first_post = False
                else:
                    if s._closing_selector:
                        W.rec("sexit")
                    elif before_args is not None:
                        W.rec("take", *before_args)
            self.owner = None
            if et is None or et is AssertionError:
                try:
                    sched.yield_point("cond.released")
                except Abort:
                    if et is None:
                        raise
            return False

        def wait(self, timeout=None):
            me = sched.me()
            assert self.owner == me
            self.owner = None
            self.waiting.append(me)
            sched.yield_point("cond.wait", pred=lambda: me in self.notified and self.owner is None)
            self.notified.discard(me)
            self.owner = me
            self._snapshot(me)
            return True

        def notify(self, n=1):
            for _ in range(n):
                if self.waiting:
                    self.notified.add(self.waiting.pop(0))

        def notify_all(self):
            self.notify(len(self.waiting))

    class Thread:
        def __init__(self, name=None, daemon=None, target=None, args=(), kwargs=None):
            self.target, self.args, self.kwargs = target, args, kwargs or {}
            self.name = "S"
            sched.register("S")
            self.real = real_threading.Thread(target=self._run, daemon=True, name="c40-selector")
            self.real._c40_name = "S"
            W.threads.append(self)
            self.exc = None

        def _run(self):
            try:
                sched.thread_begin("S")
                self.target(*self.args, **self.kwargs)
            except Abort:
                pass
            except Infra as e:
                W.infra = str(e)
            except BaseException as e:      # the selector thread died: part of the observation
                self.exc = type(e).__name__
                W.errors.append("selector thread raised %s" % type(e).__name__)
            finally:
                try:
                    sched.thread_end("S")
                except BaseException:
                    pass

        def start(self):
            sched.started("S")
            self.real.start()
            sched.yield_point("thread.start")

        def join(self, timeout=None):
            sched.yield_point("thread.join", pred=lambda: sched.th["S"]["done"])
            W.rec("joined")

        def is_alive(self):
            return not sched.th["S"]["done"]

    class WakerEnd:
        def __init__(self, is_r):
            self.is_r = is_r
            self.closed = False

        def fileno(self):
            return WAKER if self.is_r else 1

        def setblocking(self, flag):
            pass

        def send(self, data):
            sched.yield_point("waker.send")
            W.bytes += len(data)
            W.rec("wake")
            return len(data)

        def recv(self, n):
            sched.yield_point("waker.recv")
            if W.bytes == 0:
                W.rec("consume", 0)
                raise BlockingIOError()
            k = min(n, W.bytes)
            W.bytes -= k
            W.rec("consume", k)
            return b"a" * k

        def close(self):
            self.closed = True

        def __hash__(self):
            return id(self)

    def socketpair(*a, **k):
        return WakerEnd(True), WakerEnd(False)

    def sim_select(r, w, x, timeout=None):
        import errno

        def result():
            rs = [f for f in r if (W.bytes > 0 if W.fdnum(f) == WAKER else W.fdnum(f) in W.readyR)]
            ws = [f for f in w if W.fdnum(f) in W.readyW]
            return rs, ws

        def bad():
            # descriptors passed as ints that have been closed meanwhile: select(2) fails with EBADF (WSAENOTSOCK)
            return any(isinstance(f, int) and f in W.closed for f in list(r) + list(w))

        def fail(where):
            W.after_ebadf = True
            W.ebadf += 1
            W.ebadf_where.append(where)
            raise OSError(errno.EBADF, "Bad file descriptor")
        if timeout is None:
            sched.yield_point("select.enter")
            if bad():                       # closed before the thread got into the system call
                fail("on-entry")
            sched.yield_point("select", pred=lambda: any(result()) or (W.ebadf_blocked and bad()))
            if W.ebadf_blocked and bad():   # closed while the call was blocked (platforms where that fails the call)
                fail("while-blocked")
        elif W.after_ebadf:
            # the recovery branch polls the waker alone right after the failure: one atomic step with it
            W.after_ebadf = False
            rs, ws = result()
            if rs:
                W.rec("ebadf")
            return rs, ws, []
        else:
            sched.yield_point("select.poll")
        rs, ws = result()
        W.rec("selected", *W.sets(rs, ws))
        return rs, ws, []

    th = types.SimpleNamespace(Condition=Cond, Thread=Thread, current_thread=real_threading.current_thread)
    sel = types.SimpleNamespace(select=sim_select)
    import socket as real_socket
    sock = types.SimpleNamespace(socketpair=socketpair, socket=real_socket.socket)
    return th, sel, sock


class FakeLoop:
    """the wrapped asyncio loop, reduced to what SelectorThread uses: a FIFO of callbacks"""

    def __init__(self, W):
        self.W = W
        self.closed = False

    def call_soon(self, cb, *args, context=None):
        self.W.queue.append((cb, args, "init"))

    def call_soon_threadsafe(self, cb, *args, context=None):
        W = self.W
        W.sched.yield_point("call_soon_threadsafe")
        if self.closed:
            raise RuntimeError("Event loop is closed")
        if len(args) == 2:
            W.rec("report", *W.sets(*args))
        else:
            W.errors.append("call_soon_threadsafe with %d args" % len(args))
        W.queue.append((cb, args, "report"))

    def call_exception_handler(self, context):
        self.W.handled.append(type(context.get("exception")).__name__)

    def create_task(self, coro):
        try:
            coro.send(None)
        except StopIteration:
            return None
        raise RuntimeError("thread manager did not complete its first step")


# --------------------------------------------------------------------------- one deterministic execution
def _run_sim(case):
    import tornado.platform.asyncio as tpa
    W = World(case["sched_seed"], case["stay"])
    W.ebadf_blocked = bool(case.get("ebadf_blocked"))
    sched = W.sched
    th, selmod, sockmod = make_shims(W)
    behaviours = {}
    dispatched = []
    settle_at = [None]
    outcome = {"status": "ok"}

    def callback(kind, fd):
        if sched.me() != "L":
            W.off_thread.append([kind, fd])
        W.rec("dispatch", kind, fd)
        dispatched.append([kind, fd])
        for act in behaviours.get((kind, fd), []):
            do(act)

    def do(act):
        s = W.sel
        k = act[0]
        if k in ("add_reader", "add_writer"):
            W.closed.discard(act[1])        # a new descriptor with the same number
        if k == "close_fd":
            # the application is done with the fd: only ever after it has been unregistered (both maps)
            if act[1] in s._readers or act[1] in s._writers or act[1] in W.closed:
                return
            W.closed.add(act[1])
            W.closes.append(len(W.trace))
            for kind, rset in (("R", W.readyR), ("W", W.readyW)):
                rset.discard(act[1])
                W.rec("unready", kind, act[1])
        elif k == "add_reader":
            behaviours[("R", act[1])] = act[2] if len(act) > 2 else []
            W.rec("addReader", act[1])
            s.add_reader(act[1], callback, "R", act[1])
        elif k == "add_writer":
            behaviours[("W", act[1])] = act[2] if len(act) > 2 else []
            W.rec("addWriter", act[1])
            s.add_writer(act[1], callback, "W", act[1])
        elif k == "remove_reader":
            found = act[1] in s._readers
            W.rec("removeReader", act[1], found)
            if s.remove_reader(act[1]) != found:
                W.errors.append("remove_reader returned the wrong flag")
        elif k == "remove_writer":
            found = act[1] in s._writers
            W.rec("removeWriter", act[1], found)
            if s.remove_writer(act[1]) != found:
                W.errors.append("remove_writer returned the wrong flag")
        elif k == "ready":
            if act[2] in W.closed:
                return                       # nothing is ever ready on a closed descriptor
            W.rec("ready", act[1], act[2])
            (W.readyW if act[1] == "W" else W.readyR).add(act[2])
        elif k == "unready":
            (W.readyW if act[1] == "W" else W.readyR).discard(act[2])
            W.rec("unready", act[1], act[2])
        elif k == "raise":
            W.rec("raised")
            raise Boom()
        elif k == "yield":
            sched.yield_point("script")
        elif k in ("run", "wait_run"):
            run_one(k == "wait_run")
        elif k == "close":
            close(act[1] if len(act) > 1 else "close")
        else:
            raise AssertionError(act)

    def run_one(wait):
        if wait and not W.queue:
            if not sched.yield_point("loop.idle", pred=lambda: bool(W.queue), stuck_ok=True):
                return False
        else:
            sched.yield_point("loop.iter")
        if not W.queue:
            return False
        cb, args, kind = W.queue.pop(0)
        if kind == "report":
            W.rec("handleBegin", *W.sets(*args))
        try:
            cb(*args)
        except Boom:
            pass          # asyncio hands it to the loop's exception handler; the loop goes on
        return True

    closed = [False]

    def close(how):
        if closed[0]:
            return
        closed[0] = True
        s = W.sel
        if how == "aclose":
            try:
                s._thread_manager_handle.aclose().send(None)
            except StopIteration:
                pass
        else:
            s.close()
        W.rec("closed")

    orig_remove_reader = tpa.SelectorThread.remove_reader

    try:
        with mock.patch.object(tpa, "threading", th), mock.patch.object(tpa, "select", selmod), \
                mock.patch.object(tpa, "socket", sockmod):
            loop = FakeLoop(W)
            try:
                s = tpa.SelectorThread(loop)
                W.sel = s
                if W.trace != [["wake"]]:
                    W.errors.append("constructor trace %r" % (W.trace,))
                W.trace.clear()           # the model's init state already holds the constructor's wake

                def rr(fd, _s=s):
                    if fd is _s._waker_r:
                        W.rec("removeReader", WAKER, fd in _s._readers)
                    return orig_remove_reader(_s, fd)
                s.remove_reader = rr
                # the loop starts: run the queued `call_soon` (creates the thread, first _start_select)
                run_one(False)
                for act in case["script"]:
                    do(act)
                # settle: let both threads run until nothing can happen or a few rounds have passed
                settle_at[0] = len(W.trace)
                rounds = 0
                if not closed[0]:
                    outcome["settled"] = "rounds"
                while not closed[0] and rounds < case.get("settle_rounds", 4):
                    if not run_one(True):
                        outcome["settled"] = "quiescent"
                        break
                    rounds += 1
                outcome["settle_rounds"] = rounds
                close(case.get("close_how", "close"))
                outcome["thread_alive"] = any(t.real.is_alive() and not sched.th["S"]["done"] for t in W.threads)
            except Deadlock as e:
                outcome["status"] = "deadlock"
                outcome["where"] = str(e)
            except AssertionError:
                outcome["status"] = "AssertionError"
            except Infra as e:
                outcome["status"] = "infra"
                outcome["where"] = str(e)
            except Exception as e:
                outcome["status"] = "Uncaught:" + type(e).__name__
            finally:
                sched.abort()
                for t in W.threads:
                    t.real.join(timeout=10)
                    if t.real.is_alive():
                        outcome.setdefault("leak", True)
                sched.dead = True
                try:
                    tpa._selector_loops.discard(W.sel)
                    if outcome["status"] != "ok" and W.sel is not None:
                        W.sel._closed = True      # a later close() (generator finalisation) must be a no-op
                except Exception:
                    pass
    finally:
        pass
    if W.infra:
        outcome = {"status": "infra", "where": W.infra}
    s = W.sel
    final = None
    if s is not None:
        final = {"readers": [W.fdnum(x) for x in s._readers], "writers": [W.fdnum(x) for x in s._writers],
                 "args": None if s._select_args is None else W.sets(*s._select_args),
                 "closing": bool(s._closing_selector), "bytes": W.bytes, "queue": len(W.queue),
                 "closed": bool(s._closed)}
    return {"trace": W.trace, "outcome": outcome, "final": final, "errors": W.errors, "off_thread": W.off_thread,
            "dispatched": dispatched, "settle_at": settle_at[0], "switches": sched.switches,
            "ebadf": W.ebadf, "ebadf_where": W.ebadf_where, "closes": len(W.closes)}


# --------------------------------------------------------------------------- real threads (thorough)
_REAL = r"""
import asyncio, json, os, random, sys, threading, time
sys.dont_write_bytecode = True
sys.path.insert(0, sys.argv[1])
case = json.loads(sys.argv[2])
import tornado.platform.asyncio as tpa
rng = random.Random(case["seed"])
real_select = tpa.select.select
def jitter():
    if rng.random() < 0.5: time.sleep(rng.choice([0, 0.0002, 0.001, 0.003]))
class Sel:
    @staticmethod
    def select(r, w, x, timeout=None):
        jitter(); out = real_select(r, w, x) if timeout is None else real_select(r, w, x, timeout); jitter(); return out
tpa.select = Sel
res = {"got": {}, "off_thread": 0, "errors": []}
async def main():
    loop = asyncio.get_running_loop()
    main_thread = threading.get_ident()
    sel = tpa.SelectorThread(loop)
    pipes = [os.pipe() for _ in range(case["npipes"])]
    for r, w in pipes: os.set_blocking(r, False); os.set_blocking(w, False)
    want = {}
    done = asyncio.Event()
    def on_read(i):
        if threading.get_ident() != main_thread: res["off_thread"] += 1
        try: data = os.read(pipes[i][0], 65536)
        except BlockingIOError: data = b""
        res["got"][i] = res["got"].get(i, 0) + len(data)
        if all(res["got"].get(j, 0) >= want.get(j, 0) for j in want): done.set()
    for step in case["steps"]:
        k = step[0]
        jitter()
        if k == "add": sel.add_reader(pipes[step[1]][0], on_read, step[1])
        elif k == "remove": sel.remove_reader(pipes[step[1]][0])
        elif k == "write":
            os.write(pipes[step[1]][1], b"x" * step[2]); want[step[1]] = want.get(step[1], 0) + step[2]
        elif k == "sleep": await asyncio.sleep(step[1] / 1000.0)
    # every pipe that is registered at the end must deliver everything that was written to it
    reg = set()
    for step in case["steps"]:
        if step[0] == "add": reg.add(step[1])
        elif step[0] == "remove": reg.discard(step[1])
    want = {i: n for i, n in want.items() if i in reg}
    if all(res["got"].get(j, 0) >= want.get(j, 0) for j in want): done.set()
    try:
        await asyncio.wait_for(done.wait(), 30); res["delivered"] = True
    except asyncio.TimeoutError:
        res["delivered"] = False
    res["want"] = want
    t0 = time.time()
    th = sel._thread
    closer = threading.Thread(target=sel.close, daemon=True)   # so that a hanging close cannot hang us
    # close must run on the loop thread in real use; here the loop thread is idle-waiting, which is equivalent for the selector
    closer.start()
    while closer.is_alive() and time.time() - t0 < 30: await asyncio.sleep(0.01)
    res["close_returned"] = not closer.is_alive()
    res["thread_alive"] = bool(th is not None and th.is_alive())
    for r, w in pipes:
        os.close(r); os.close(w)
asyncio.run(main())
print("RESULT " + json.dumps(res))
os._exit(0)
"""


def _run_real(case):
    import json, subprocess
    from core import runner
    try:
        p = subprocess.run([sys.executable, "-B", "-c", _REAL, runner.REPO, json.dumps(case)],
                           stdout=subprocess.PIPE, stderr=subprocess.PIPE, text=True, timeout=100)
    except subprocess.TimeoutExpired:
        return {"infra": "real-thread script timed out"}
    m = re.search(r"^RESULT (.*)$", p.stdout, re.M)
    if not m:
        return {"infra": "no result rc=%s err=%s" % (p.returncode, p.stderr[-400:])}
    return json.loads(m.group(1))


def run_impl(case):
    return _run_sim(case) if case["kind"] == "sim" else _run_real(case)


# --------------------------------------------------------------------------- generators
def _behaviour(rng, kind, fd):
    k = rng.random()
    if k < 0.45:
        return [["unready", kind, fd]]                        # the callback consumes what made the fd ready
    if k < 0.6:
        return [["remove_reader" if kind == "R" else "remove_writer", fd]]
    if k < 0.7:
        other = rng.choice(FDS)
        return [["unready", kind, fd], ["add_writer", other, [["remove_writer", other]]]]
    if k < 0.8:
        other = rng.choice(FDS)
        return [["unready", kind, fd], ["add_reader", other, [["unready", "R", other]]], ["ready", "R", other]]
    if k < 0.83:
        # the callback is done with the connection: unregister, then close the descriptor
        return [["remove_reader" if kind == "R" else "remove_writer", fd], ["close_fd", fd]]
    if k < 0.86:
        return []                                             # level-triggered: stays ready, fires every round
    if k < 0.93:
        return [["unready", kind, fd], ["raise"]]             # the callback fails after consuming
    return [["unready", kind, fd], ["remove_reader" if kind == "R" else "remove_writer", fd],
            ["add_reader" if kind == "R" else "add_writer", fd, [["unready", kind, fd]]]]


def _rand_script(rng):
    script = []
    reg = {"R": set(), "W": set()}
    for _ in range(rng.randint(1, 14)):
        k = rng.random()
        fd = rng.choice(FDS)
        if k < 0.2:
            script.append(["add_reader", fd, _behaviour(rng, "R", fd)]); reg["R"].add(fd)
            if rng.random() < 0.5:
                script.append(["ready", "R", fd])
        elif k < 0.3:
            script.append(["add_writer", fd, _behaviour(rng, "W", fd)]); reg["W"].add(fd)
            if rng.random() < 0.5:
                script.append(["ready", "W", fd])
        elif k < 0.38:
            script.append(["remove_reader", fd]); reg["R"].discard(fd)
            if fd not in reg["W"] and rng.random() < 0.5:
                script.append(["close_fd", fd])               # unregistered, then closed (possibly before select starts)
        elif k < 0.43:
            script.append(["remove_writer", fd]); reg["W"].discard(fd)
            if fd not in reg["R"] and rng.random() < 0.5:
                script.append(["close_fd", fd])
        elif k < 0.6:
            kind = rng.choice(["R", "R", "W"])
            if reg[kind] and rng.random() < 0.8:
                fd = rng.choice(sorted(reg[kind]))          # mostly fds somebody is listening to
            script.append(["ready", kind, fd])
        elif k < 0.65:
            script.append(["unready", rng.choice(["R", "W"]), fd])
        elif k < 0.8:
            script.append(["run"])
        elif k < 0.92:
            script.append(["wait_run"])
        else:
            script.append(["yield"])
    if rng.random() < 0.15:
        script.append(["close", rng.choice(["close", "aclose"])])
    return script


def _sim_case(rng):
    case = {"kind": "sim", "script": _rand_script(rng), "sched_seed": rng.randrange(1 << 30),
            "stay": rng.choice([0.0, 0.3, 0.5, 0.7, 0.9]), "close_how": rng.choice(["close", "close", "aclose"])}
    if "close_fd" in repr(case["script"]):
        case["ebadf_blocked"] = rng.random() < 0.5
    return case


def _ebadf_cases(rng, per):
    """an fd is unregistered and closed right after a select captured it: in some schedules before the selector thread
    gets into the system call (EBADF on entry), in others while it is blocked; afterwards other fds - still registered, or
    registered later - become ready and must be dispatched.  Every scenario under `per` schedules x both select semantics."""
    consume = lambda k, fd: [["unready", k, fd]]
    base = []
    for kind, add, rem in (("R", "add_reader", "remove_reader"), ("W", "add_writer", "remove_writer")):
        base += [
            # captured by the first post of the settle-free prefix, then removed + closed; a new fd afterwards
            [[add, 3, consume(kind, 3)], ["wait_run"], [rem, 3], ["close_fd", 3], ["add_reader", 4, consume("R", 4)], ["ready", "R", 4]],
            # ... with another fd that stays registered and becomes ready later
            [["add_reader", 5, consume("R", 5)], [add, 3, consume(kind, 3)], ["wait_run"], [rem, 3], ["close_fd", 3], ["yield"],
             ["ready", "R", 5]],
            # closed from inside its own callback (remove + close), then the descriptor number is reused
            [[add, 3, [[rem, 3], ["close_fd", 3]]], ["ready", kind, 3], ["wait_run"], ["wait_run"], [add, 3, consume(kind, 3)],
             ["ready", kind, 3]],
            # two fds closed one after the other, rounds in between
            [[add, 3, consume(kind, 3)], ["add_reader", 4, consume("R", 4)], ["wait_run"], [rem, 3], ["close_fd", 3], ["wait_run"],
             ["remove_reader", 4], ["close_fd", 4], ["add_writer", 5, [["remove_writer", 5]]], ["ready", "W", 5]],
            # removed, closed, nothing else registered: the pair must come to rest inside select, and close() must return
            [[add, 3, consume(kind, 3)], ["wait_run"], [rem, 3], ["close_fd", 3]],
            # removed + closed, then close() at once
            [[add, 3, consume(kind, 3)], ["wait_run"], [rem, 3], ["close_fd", 3], ["close"]],
            # removed but NOT closed (control), and closed only after a full round
            [[add, 3, consume(kind, 3)], ["wait_run"], [rem, 3], ["add_reader", 4, consume("R", 4)], ["ready", "R", 4]],
            [[add, 3, consume(kind, 3)], ["wait_run"], [rem, 3], ["wait_run"], ["wait_run"], ["close_fd", 3], ["add_reader", 4, consume("R", 4)],
             ["ready", "R", 4]],
        ]
    # registered both ways: closing is allowed only after both registrations are gone
    base.append([["add_reader", 3, consume("R", 3)], ["add_writer", 3, [["remove_writer", 3]]], ["wait_run"], ["remove_reader", 3],
                 ["close_fd", 3], ["remove_writer", 3], ["close_fd", 3], ["add_reader", 4, consume("R", 4)], ["ready", "R", 4]])
    for sc in base:
        for i in range(per):
            yield {"kind": "sim", "script": sc, "sched_seed": rng.randrange(1 << 30), "stay": rng.choice([0.0, 0.3, 0.6, 0.85, 0.95]),
                   "close_how": rng.choice(["close", "aclose"]), "focused": True, "ebadf_blocked": bool(i % 2)}


def _focused_cases(rng):
    """scenarios around the known delicate points, each under many schedules"""
    base = [
        [["add_reader", 3, [["unready", "R", 3]]], ["ready", "R", 3]],
        [["ready", "R", 3], ["add_reader", 3, [["unready", "R", 3]]]],
        [["add_reader", 3, [["unready", "R", 3]]], ["wait_run"], ["ready", "R", 3]],
        [["add_reader", 3, [["unready", "R", 3]]], ["wait_run"], ["wait_run"], ["ready", "R", 3], ["wait_run"], ["ready", "R", 3]],
        [["add_writer", 4, [["remove_writer", 4]]], ["ready", "W", 4]],
        [["add_reader", 3, []], ["ready", "R", 3], ["wait_run"], ["wait_run"], ["remove_reader", 3]],
        [["add_reader", 3, [["remove_reader", 3]]], ["add_reader", 4, [["unready", "R", 4]]], ["ready", "R", 3], ["ready", "R", 4]],
        [["wait_run"], ["close"]],
        [["close"]],
        [["add_reader", 3, [["unready", "R", 3]]], ["ready", "R", 3], ["close"]],
        [["wait_run"], ["wait_run"], ["add_reader", 5, [["unready", "R", 5]]], ["yield"], ["ready", "R", 5]],
        [["add_reader", 3, [["unready", "R", 3], ["add_reader", 4, [["unready", "R", 4]]], ["ready", "R", 4]]], ["ready", "R", 3]],
        [["add_reader", 3, [["unready", "R", 3], ["raise"]]], ["ready", "R", 3], ["wait_run"], ["wait_run"], ["ready", "R", 3]],
        [["add_reader", 3, [["raise"]]], ["add_reader", 4, [["unready", "R", 4]]], ["ready", "R", 3], ["ready", "R", 4],
         ["wait_run"], ["wait_run"], ["remove_reader", 3]],
        [["add_reader", 3, [["raise"]]], ["add_reader", 4, []], ["ready", "R", 3], ["ready", "R", 4]],
        [["add_writer", 3, [["raise"]]], ["add_reader", 4, [["unready", "R", 4]]], ["add_writer", 5, [["remove_writer", 5]]],
         ["ready", "W", 3], ["ready", "W", 5], ["ready", "R", 4]],
    ]
    for sc in base:
        for _ in range(12):
            yield {"kind": "sim", "script": sc, "sched_seed": rng.randrange(1 << 30), "stay": rng.choice([0.0, 0.3, 0.6, 0.85]),
                   "close_how": rng.choice(["close", "aclose"]), "focused": True}


def _real_case(rng):
    n = rng.randint(1, 3)
    steps = []
    reg = set()
    for _ in range(rng.randint(2, 12)):
        k = rng.random()
        i = rng.randrange(n)
        if k < 0.35:
            steps.append(["add", i]); reg.add(i)
        elif k < 0.45 and i in reg:
            steps.append(["remove", i]); reg.discard(i)
        elif k < 0.8:
            steps.append(["write", i, rng.choice([1, 10, 1000])])
        else:
            steps.append(["sleep", rng.choice([0, 1, 5])])
    return {"kind": "real", "npipes": n, "steps": steps, "seed": rng.randrange(1 << 30)}


def gen_cases(rng, tier):
    if tier == "quick":
        yield from _focused_cases(rng)
        yield from _ebadf_cases(rng, 12)
        for _ in range(1000):
            yield _sim_case(rng)
    elif tier == "thorough":
        for _ in range(4):
            yield from _focused_cases(rng)
        yield from _ebadf_cases(rng, 48)
        for _ in range(3000):
            yield _sim_case(rng)
        for _ in range(30):
            yield _real_case(rng)
    else:
        yield from _ebadf_cases(rng, 6)
        for _ in range(800):
            yield _sim_case(rng)


# --------------------------------------------------------------------------- model / spec
def _wire_trace(tr):
    out = []
    for e in tr:
        out.append([atom(e[0])] + [atom(x) if isinstance(x, (str, bool)) else x for x in e[1:]])
    return out


def model_requests(case, impl):
    if "infra" in impl or impl.get("outcome", {}).get("status") == "infra":
        raise RuntimeError("C40 infrastructure trouble: %r" % (impl.get("infra") or impl["outcome"],))
    if case["kind"] != "sim":
        return []
    _CUT[id(case)] = impl["outcome"]["status"]
    return [line(ID, "accept", _wire_trace(impl["trace"]))]


_CUT = {}


def _plain(v):
    if isinstance(v, Atom):
        return {"T": True, "F": False}.get(str(v), str(v))
    if isinstance(v, list):
        return [_plain(x) for x in v]
    return v


def model_result(case, replies):
    if case["kind"] != "sim":
        return "real"
    st, vals = parse_reply(replies[0])
    assert st == "ok", replies[0]
    vals = _plain(vals)
    if vals[0] is not True:
        return {"accepted": False, "rejected_at": vals[1], "state_before": vals[2]}
    cut = _CUT.pop(id(case), "ok")
    if cut != "ok":
        return {"accepted": True, "cut": cut}
    readers, writers, args, closing, nbytes, queue, spc, lpc, failed = vals[1]
    return {"accepted": True, "final": {"readers": readers, "writers": writers, "args": args, "closing": closing,
                                        "bytes": nbytes, "queue": queue, "closed": lpc == "closed"},
            "spc": spc[0], "failed": failed}


def impl_view(case, impl):
    if case["kind"] != "sim":
        return "real"
    o = impl["outcome"]
    if o["status"] != "ok":
        # the execution was cut short (detected deadlock, assertion, …): only trace acceptance is compared
        return {"accepted": True, "cut": o["status"]}
    return {"accepted": True, "final": impl["final"], "spc": "exited", "failed": False}


def spec_requests(case, impl):
    if case["kind"] != "sim":
        return []
    k = impl["settle_at"] if impl["settle_at"] is not None else len(impl["trace"])
    return [line(ID, "spec", k, _wire_trace(impl["trace"]))]


def spec_violation(case, impl, replies):
    if case["kind"] == "real":
        if impl["off_thread"]:
            return "thread: %d callbacks ran on a thread other than the loop thread" % impl["off_thread"]
        if not impl["delivered"]:
            return "lost: registered pipes did not deliver everything written to them within 30 s (got %r want %r)" % (impl["got"], impl["want"])
        if not impl["close_returned"]:
            return "close: close() did not return within 30 s"
        if impl["thread_alive"]:
            return "close: selector thread still alive after close()"
        return None
    o = impl["outcome"]
    if impl["off_thread"]:
        return "thread: callback of %r ran on the selector thread" % (impl["off_thread"][0],)
    if o["status"] == "deadlock":
        phase = "close" if any(e[0] == "setClosing" for e in impl["trace"]) else "run"
        return "deadlock/%s: no thread can run: %s" % (phase, o.get("where"))
    if o["status"] == "AssertionError":
        return "assert: `assert self._select_args is None` failed (a second select would have been posted)"
    if o["status"] != "ok":
        return "error: loop thread raised %s" % o["status"]
    if impl["errors"]:
        return "error: %s" % impl["errors"][0]
    st, vals = parse_reply(replies[0])
    assert st == "ok", replies[0]
    alternates, lostR, lostW, close_ok, in_select = _plain(vals)
    if not alternates:
        return "overlap: posting and taking select arguments do not alternate (more than one select in flight)"
    if o.get("settled") in ("rounds", "quiescent"):
        # the script did not close: the harness let both threads run until nothing could happen any more, or for
        # 4 full select rounds — two rounds suffice for a correct implementation to notice any registration
        if lostR or lostW:
            return "lost: fds registered and ready throughout the settle phase were never dispatched: R%r W%r" % (lostR, lostW)
    if o.get("settled") == "quiescent" and not in_select:
        # both threads at rest, close() not called: the only healthy rest is the selector thread blocked inside select.
        # Here nothing is posted, nothing queued and no select is running: the select token is gone, _start_select will
        # never be called again and no readiness of any fd - registered now or later - can ever be dispatched
        return "deadlock/run: both threads wait for each other: no select in progress and none will be started"
    if not close_ok or o.get("thread_alive"):
        return "close: close() returned without the selector thread having exited / events out of order"
    return None


def nontrivial(case, impl):
    if case["kind"] != "sim":
        return bool(impl.get("want"))
    return any(e[0] in ("dispatch", "ebadf") for e in impl["trace"])


def stats(case, impl):
    out = ["kind:" + case["kind"] + (":focused" if case.get("focused") else "")]
    if case["kind"] != "sim":
        return out
    out.append("status:" + impl["outcome"]["status"])
    tr = impl["trace"]
    out.append("events:%d" % (min(200, len(tr)) // 20 * 20))
    out.append("dispatches:%d" % min(9, sum(1 for e in tr if e[0] == "dispatch")))
    out.append("rounds:%d" % min(9, sum(1 for e in tr if e[0] == "handleBegin")))
    # a registration changed while the selector thread was inside select
    sel = False
    for e in tr:
        if e[0] == "take":
            sel = True
        elif e[0] == "selected":
            sel = False
        elif sel and e[0] in ("addReader", "addWriter", "removeReader", "removeWriter"):
            out.append("mutation-during-select")
            break
    for e in tr:
        if e[0] == "selected" and e[1] == [WAKER] and not e[2]:
            out.append("woken-by-waker-only")
            break
    if impl.get("closes"):
        out.append("fd-closed-after-unregistering")
        out.append("select-semantics:" + ("closing-fails-blocked-select" if case.get("ebadf_blocked") else "ebadf-on-entry-only"))
    if impl.get("ebadf"):
        out.append("select-raised-EBADF:%d" % min(3, impl["ebadf"]))
        for w in sorted(set(impl.get("ebadf_where", []))):
            out.append("select-raised-EBADF:" + w)
        if any(e[0] == "ebadf" for e in tr):
            out.append("ebadf-recovery-reported")
    out.append("stay:%s" % case["stay"])
    return out


def signature(case, impl, why):
    m = re.match(r"([\w/]+):", why)
    sig = "%s/%s" % (case["kind"], m.group(1) if m else "other")
    if case["kind"] == "sim" and any(e[0] == "raised" for e in impl.get("trace", [])):
        sig += "/after-callback-raised"
    return sig


def shrink(case):
    if case["kind"] != "sim":
        return
    sc = case["script"]
    for i in range(len(sc) - 1, -1, -1):
        yield {**case, "script": sc[:i] + sc[i + 1:]}
    for i, a in enumerate(sc):
        if a[0] in ("add_reader", "add_writer") and len(a) > 2 and a[2]:
            yield {**case, "script": sc[:i] + [[a[0], a[1], []]] + sc[i + 1:]}
    for stay in (0.9, 0.5, 0.0):
        if case["stay"] != stay:
            yield {**case, "stay": stay}
    if case.get("ebadf_blocked"):
        yield {**case, "ebadf_blocked": False}


def neighbours(case):
    if case["kind"] != "sim":
        return
    for k in range(40):
        yield {**case, "sched_seed": (case["sched_seed"] * 31 + k * 7919) % (1 << 30), "stay": [0.0, 0.3, 0.6, 0.9][k % 4],
               "ebadf_blocked": bool(k & 4) if "ebadf_blocked" in case else False}
