"""C27 — static range and conditional responses match the file exactly (StaticFileHandler.get, httputil._parse_request_range)."""
import atexit, hashlib, logging, os, re, shutil, sys
from core.wire import atom, line, parse_reply, Atom
import mimetypes
import tornado.web, tornado.httpserver, tornado.httputil     # imported before the workers fork
from core import vloop, faketransport
mimetypes.init()

ID = "C27"
LEAN_TARGETS = ["TornadoModel.C27.Props"]
THEOREMS = [
    "TornadoModel.C27.plan_window",
    "TornadoModel.C27.parse_end_nonneg",
    "TornadoModel.C27.getContent_window",
    "TornadoModel.C27.response_shape",
    "TornadoModel.C27.respond_ne_500",
    "TornadoModel.C27.head_same_headers",
    "TornadoModel.C27.unparsed_range_ignored",
    "TornadoModel.C27.intOrNone_digits",
    "TornadoModel.C27.honoured_fields_digits",
    "TornadoModel.C27.invalid_range_ignored_refuted",
    "TornadoModel.C27.honoured_dash_valid",
    "TornadoModel.C27.invalid_range_ignored",
    "TornadoModel.C27.status_304_iff",
    "TornadoModel.C27.ims_304_iff_instant",
    "TornadoModel.C27.parseInstant_eq",
    "TornadoModel.C27.inm_precedence",
    "TornadoModel.C27.unconditional_not_304",
]
TRUSTED = [
    "hashlib.sha512 (ETag), httputil.format_timestamp (Last-Modified) and mimetypes.guess_type are parameters of the model; the harness computes them with the same stdlib functions",
    "email.utils.parsedate_to_datetime (_parsedate_tz, datetime/timezone constructors, aware comparison) is modelled by hand in C27/Date.lean on latin-1 text "
    "and exercised by the correspondence stream; the oracle computes the instant a date denotes with its own strict RFC 5322 / RFC 9110 reader (no stdlib date code)",
    "str.partition/strip/isascii/isdigit, int() on ASCII digits (incl. the 4300-digit limit), re.findall for the ETag list regex, "
    "file seek/read: modelled by hand in C27/Model.lean, exercised by the correspondence stream",
]
ASSUMPTIONS = [
    "files up to 300 bytes, served by an unmodified StaticFileHandler from a fixture directory; one Range / If-None-Match / If-Modified-Since header each",
    "header values are what an HTTP/1.1 peer can send (latin-1 text without control characters); the unit stream feeds arbitrary Unicode strings to _parse_request_range directly",
    "If-None-Match is compared on code points (utf8() is injective and the ETag syntax is ASCII)",
    "optional whitespace (SP/HTAB) around the unit, '=', the numbers and '-' and a case-insensitive unit count as syntactically valid (DESIGN section 6)",
    "If-Modified-Since values are latin-1 text of at most 200 characters without control characters other than HTAB (int()'s 4300-digit limit is out of reach)",
    "the 304 oracle judges If-Modified-Since values that are well-formed dates (RFC 5322 date-time incl. obs-zone names and 2-digit years 00-49 / 85-99, "
    "RFC 850 and asctime forms, fields in calendar range, zone offset below 24 h: 304 iff the denoted instant >= mtime) and values without any month name "
    "(never 304); date-like text outside that grammar (no zone, 2-digit years 50-84 where RFC 5322, RFC 9110 and CPython disagree, years before 0100, second 60, AST/ADT, "
    "3-digit years, out-of-range fields) is compared with the model only",
]
RULE = ("(file size, Range header, If-None-Match, If-Modified-Since) -> GET and HEAD with the header, GET without Range, through a real "
        "Application/HTTPServer over a fake transport; Range strings from a grammar of valid and invalid specs dense around 0/size-1/size/size+1; "
        "If-Modified-Since dates rendered from (instant, zone, form): instants dense around the mtime and around mtime - zone offset (where the wall-clock "
        "reading and the instant fall on different sides of the mtime), zones GMT / +-hhmm / obsolete names / none, forms IMF-fixdate, RFC 5322 with and "
        "without day name or seconds, 2-digit years, RFC 850, asctime, trailing comment, odd case and spacing, plus mutated and garbage values; "
        "all sizes 0-40 x a fixed header set enumerated; non-trivial = a Range header is present and the response is not a plain 200 or the header is invalid, "
        "or an If-Modified-Since date is judged by the oracle; distinct by canonical JSON")
EXHAUSTIVE = {"quick": False, "thorough": False}
CLAUSES = {
    "200 whole / 206 with Content-Range a-b/size and body = bytes a..b / 416 with */size / 304 without body, Content-Length = body length":
        "response_shape (every file, every header text, GET/HEAD) via plan_window (all size/start/end, omega) + getContent_window + parse_end_nonneg",
    "HEAD yields the same status and headers with no body": "head_same_headers",
    "which conditional requests get the 304 (implied by 'conditional responses match the file exactly'; the statement itself only lists the shapes)":
        "status_304_iff + ims_304_iff_instant (no If-None-Match: 304 iff If-Modified-Since parses and the INSTANT it denotes, wall clock minus zone offset "
        "(parseInstant_eq), is >= the mtime) + inm_precedence + unconditional_not_304, about the hand-written model of parsedate_to_datetime (Date.lean); "
        "tie only: that the model's reading of a date text is the RFC 5322 / RFC 9110 one -- checked on every case by the oracle's own strict date reader "
        "(304 iff denoted instant >= mtime for well-formed dates, never for non-dates), not proved in Lean",
    "a Range header that is not a syntactically valid single byte-range is ignored": "invalid_range_ignored (every header whose value contains a '-' and that the RFC grammar Spec.validRange rejects gives exactly "
        "the no-Range response) via honoured_dash_valid (honoured + dash => grammatical) + unparsed_range_ignored + "
        "honoured_fields_digits/intOrNone_digits; the dashless case: invalid_range_ignored_full is refuted by 'bytes=1' "
        "(invalid_range_ignored_refuted, known finding); the oracle also evaluates Spec.validRange on every case",
}
PARALLEL = True
CASE_TIMEOUT = 120

VERIF = os.path.dirname(os.path.dirname(os.path.dirname(os.path.abspath(__file__))))
MTIME = 1700000000
MAXSIZE = 300
_FX = None


def _content(size):
    return bytes((i * 7 + size * 13 + (i * i) // 5) % 256 for i in range(size))


def _cleanup(path, pid):
    if os.getpid() == pid:
        shutil.rmtree(path, ignore_errors=True)
        try:
            os.rmdir(os.path.dirname(path))
        except OSError:
            pass


def _fx():
    global _FX
    if _FX is not None:
        return _FX
    fx = os.path.join(os.path.realpath(VERIF), ".build", str(os.getpid()), "c27fx")
    shutil.rmtree(fx, ignore_errors=True)
    os.makedirs(fx)
    atexit.register(_cleanup, fx, os.getpid())
    for size in range(MAXSIZE + 1):
        p = os.path.join(fx, "f%d.bin" % size)
        with open(p, "wb") as f:
            f.write(_content(size))
        os.utime(p, (MTIME, MTIME))
    _FX = fx
    return fx


# ------------------------------------------------------------------ generators
WS = ["", "", "", " ", "\t", "  ", " \t "]
BADWS = ["\xa0", "\x85", "\xa0 ", "\x0b", "\x0c", "\x1c", " ", "　"]
FULLWIDTH = str.maketrans("0123456789", "０１２３４５６７８９")
ARABIC = str.maketrans("0123456789", "٠١٢٣٤٥٦٧٨٩")


def _num(rng, size):
    k = rng.random()
    if k < 0.6:
        return rng.choice([0, 1, 2, size - 2, size - 1, size, size + 1, size // 2, size // 2 + 1, 2 * size, 5])
    if k < 0.8:
        return rng.randint(0, max(1, size + 3))
    if k < 0.9:
        return rng.choice([10 ** 6, 2 ** 31, 2 ** 63, 2 ** 64 + 1, 10 ** 30])
    return rng.randint(0, 400)


def _numtext(rng, n):
    n = max(0, n)
    s = str(n)
    if rng.random() < 0.1:
        s = "0" * rng.choice([1, 2, 7]) + s
    return s


def _valid_range(rng, size):
    k = rng.random()
    w = lambda: rng.choice(WS)
    if k < 0.45:
        a = _num(rng, size)
        b = rng.choice([a, a + 1, a - 1, _num(rng, size), size - 1, size, a + rng.randint(0, 20)])
        core = "%s%s-%s%s" % (_numtext(rng, a), w(), w(), _numtext(rng, b))
    elif k < 0.7:
        core = "%s%s-" % (_numtext(rng, _num(rng, size)), w())
    else:
        core = "-%s%s" % (w(), _numtext(rng, _num(rng, size)))
    unit = "bytes" if rng.random() < 0.9 else rng.choice(["Bytes", "BYTES", "bYtEs"])
    return "%s%s%s=%s%s%s" % (w(), unit, w(), w(), core, w())


INVALID = [
    "bytes=+1-2", "bytes=1-+2", "bytes=--5", "bytes=-+5", "bytes=1--5", "bytes=-5-", "bytes=- -5", "bytes=1_0-", "bytes=1_0-2_0", "bytes=-1_0",
    "bytes=_1-", "bytes=1__0-", "bytes=1-2,4-5", "bytes=1-2,", "bytes=,1-2", "bytes=1-2-3", "bytes=a-b", "bytes=1", "bytes", "bytes=", "bytes=-",
    "bytes= - ", "bits=0-1", "byte=0-1", "bytess=0-1", "bytes==0-1", "bytes=0-1=", "=0-1", "0-1", "bytes=0x10-", "bytes=0b1-", "bytes=1e1-",
    "bytes=1.0-", "bytes=1 0-", "bytes=0-1 2", "bytes:0-1", "bytes 0-1", "bytes=0−1", "by tes=0-1", "bytes=0-1;", "bytes=0-1 bytes=2-3",
    "none", "*", "bytes=*", "bytes=0-*", "bytes=-0x5", "bytes=١-٢".encode("utf-8").decode("latin1"), "bytes=１-２".encode("utf-8").decode("latin1"),
    "bytes=\xb9-\xb2", "bytes=\xa01-2", "bytes=1-2\xa0", "bytes\xa0=1-2", "\xa0bytes=1-2", "bytes=1\x85-2", "bytes=-\xa05", "bytes= +0-",
    "bytes=-" + "9" * 4301, "bytes=0-" + "1" * 4301,
]
SPECIAL_VALID = ["bytes=0-", "bytes=-0", "bytes=0-0", "bytes=-1", "bytes=00-", "bytes=-" + "0" * 4299 + "3", "bytes=0-" + "9" * 4300,
                 "bytes=" + "0" * 4298 + "1-" + "0" * 4299 + "2", "bytes=" + "0" * 4300 + "1-", "bytes = 0 - 0", "bytes=\t1-\t", "BYTES=1-1"]
UNIT_ONLY = [  # only reachable by calling _parse_request_range directly
    "bytes=１-２", "bytes=١-٢", "bytes=1-２", "bytes= 1-2", "bytes=1-2　", "bytes=\x0b1-2", "bytes=\x1c1-2", "bytes=1-2\n", "\nbytes=1-2",
    "bytes=1 -2", "bytes=١_٢-", "bytes=+１-", "bytes=-１", "bytes=--１", "", "=", "-", "bytes=\x00", "bytes=1-\x00",
]


def _range_header(rng, size):
    k = rng.random()
    if k < 0.5:
        return _valid_range(rng, size)
    if k < 0.58:
        return rng.choice(SPECIAL_VALID)
    if k < 0.85:
        return rng.choice(INVALID)
    # mutate a valid one
    h = _valid_range(rng, size)
    i = rng.randrange(len(h) + 1)
    m = rng.random()
    ins = rng.choice(["+", "-", "_", ",", " ", "\xa0", "\x85", "=", "0", "x", "\xb2", "\xd9\xa1", "\t", ";"])
    if m < 0.6:
        return h[:i] + ins + h[i:]
    if m < 0.8 and h:
        i = min(i, len(h) - 1)
        return h[:i] + h[i + 1:]
    return h[:i] + ins + h[i + 1:]


def _etag(size):
    return '"%s"' % hashlib.sha512(_content(size)).hexdigest()


def _inm(rng, size):
    e = _etag(size)
    other = '"%s"' % hashlib.sha512(b"other").hexdigest()
    return rng.choice([
        e, e, "W/" + e, "*", other, "W/" + other, '"x", ' + e, 'W/"x",W/' + e, other + ", *", "* , " + other, e[:-1], e[1:-1], e[:50] + '"',
        '"x"', '""', '"', "W/", 'w/' + e, "W/ " + e, e + e, '"a" "b"' + e, "garbage", "\xe9" + e, '"\xe9"', e.upper(), '"x' + e, 'W/"x' + e,
    ])


# ---- If-Modified-Since: own calendar arithmetic, renderer and strict reader (no stdlib date code on the oracle side)
MON = ["Jan", "Feb", "Mar", "Apr", "May", "Jun", "Jul", "Aug", "Sep", "Oct", "Nov", "Dec"]
DAY = ["Mon", "Tue", "Wed", "Thu", "Fri", "Sat", "Sun"]
DAYLONG = ["Monday", "Tuesday", "Wednesday", "Thursday", "Friday", "Saturday", "Sunday"]
RFC_ZONES = {"GMT": 0, "UT": 0, "EST": -5, "EDT": -4, "CST": -6, "CDT": -5, "MST": -7, "MDT": -6, "PST": -8, "PDT": -7}   # RFC 5322 4.3 obs-zone (hours)
DISPUTED_ZONES = {"AST", "ADT"}      # CPython knows them, RFC 5322 says "unknown = -0000"


def _days_from_civil(y, m, d):
    """days since 1970-01-01 of the proleptic Gregorian date y-m-d"""
    y -= m <= 2
    era = y // 400
    yoe = y - era * 400
    doy = (153 * (m + (-3 if m > 2 else 9)) + 2) // 5 + d - 1
    doe = yoe * 365 + yoe // 4 - yoe // 100 + doy
    return era * 146097 + doe - 719468


def _civil_from_days(z):
    z += 719468
    era = z // 146097
    doe = z - era * 146097
    yoe = (doe - doe // 1460 + doe // 36524 - doe // 146096) // 365
    y = yoe + era * 400
    doy = doe - (365 * yoe + yoe // 4 - yoe // 100)
    mp = (5 * doy + 2) // 153
    d = doy - (153 * mp + 2) // 5 + 1
    m = mp + (3 if mp < 10 else -9)
    return y + (m <= 2), m, d


def _dim(y, m):
    return [31, 29 if (y % 4 == 0 and (y % 100 != 0 or y % 400 == 0)) else 28, 31, 30, 31, 30, 31, 31, 30, 31, 30, 31][m - 1]


def _render_date(rng, t, off, zone, form):
    """the date whose instant is t, written with the wall clock of a zone `off` seconds east of UTC; None if the form cannot express it"""
    w = t + off
    days, sod = divmod(w, 86400)
    y, m, d = _civil_from_days(days)
    if not 1 <= y <= 9999:
        return None
    hh, mi, ss = sod // 3600, sod // 60 % 60, sod % 60
    wd = (days + 3) % 7                                   # 1970-01-01 was a Thursday
    sp = lambda: rng.choice([" ", " ", " ", " ", "  ", "\t", " \t"])
    tm = "%02d:%02d:%02d" % (hh, mi, ss)
    if form == "asctime":                                 # RFC 9110 asctime-date (always UTC)
        return "%s %s %2d %s %04d" % (DAY[wd], MON[m - 1], d, tm, y) if off == 0 else None
    if form == "rfc850":                                  # RFC 9110 rfc850-date (always GMT, 2-digit year)
        return "%s, %02d-%s-%02d %s GMT" % (DAYLONG[wd], d, MON[m - 1], y % 100, tm) if off == 0 and (2000 <= y <= 2049 or 1985 <= y <= 1999) else None
    year = "%04d" % y
    if form == "yy":
        if not (2000 <= y <= 2049 or 1985 <= y <= 1999):
            return None
        year = "%02d" % (y % 100)
    if form == "yy-disputed":                             # 50-84: RFC 5322, RFC 9110 and CPython disagree
        year = "%02d" % rng.choice([50, 60, 68, 69, 76, 77, 84])
    if form == "nosec":
        if ss:
            return None
        tm = tm[:5]
    day = "%02d" % d if form != "shortday" else "%d" % d
    mon, dn = MON[m - 1], DAY[wd]
    if form == "case":
        f = rng.choice([str.lower, str.upper])
        mon, dn, zone = f(mon), f(dn), f(zone)
    if form == "longmonth":                               # CPython only
        mon = ["January", "February", "March", "April", "May", "June", "July", "August", "September", "October", "November", "December"][m - 1]
    head = "" if form in ("noday", "nosec", "shortday") and rng.random() < 0.7 else dn + "," + ("" if form == "nofws" else sp())
    out = head + day + sp() + mon + sp() + year + sp() + tm + (sp() + zone if zone else "")
    if form == "comment":
        out += " (" + rng.choice(["CEST", "UTC", "local time", "+0000", "Jan 1 1970 00:00:00 GMT"]) + ")"
    return out


IMS_FORMS = ["plain", "plain", "plain", "noday", "nosec", "shortday", "nofws", "yy", "yy-disputed", "case", "comment", "longmonth", "asctime", "rfc850"]
IMS_OFFS = [0, 0, 60, -60, 3600, -3600, 7200, -7200, 19800, -16200, -28800, 50400, -43200, 86340, -86340]
IMS_GARBAGE = ["", "yesterday", "0", "Tue", "Tue, 14 Nov 2023", "2023-11-14T22:13:20Z", "Tue, 14 Nov 2023 25:61:61 GMT", "Tue, 14 Nov 99999 22:13:20 GMT", "\xe9",
               "Wed, 31 Feb 2024 00:00:00 GMT", "Tue, 14 Nov 2023 22:13:60 GMT", "Tue, 14 Nov 2023 22:13:20 +2400", "Tue, 14 Nov 2023 22:13:20 -2400",
               "Tue, 14 Nov 2023 22:13:20 +2359", "Tue, 14 Nov 2023 22:13:20 +9999", "Tue, 14 Nov 2023 22:13:20 +0060", "Tue, 14 Nov 2023 22:13:20 -0000",
               "Tue, 14 Nov 2023 22:13:20 -0", "Tue, 14 Nov 2023 22:13:20 +0", "Tue, 14 Nov 2023 22:13:20 0200", "Tue, 14 Nov 2023 22:13:20 +02:00", "Tue, 14 Nov 2023 22:13:20 +2_00",
               "Tue, 14 Nov 2023 22:13:20+0200", "Tue, 14 Nov 2023 22:13:20-0200", "Tue, 14 Nov 2023 22.13.20 GMT", "Tue, 14 Nov 2023 22.13 GMT", "Tue, 14 Nov 2023 22 GMT",
               "Tue, 14 Nov 2023 22:13:20:00 GMT", "Tue, 14 Nov 2023 -22:13:20 GMT", "Tue, 14 Nov 2023 +22:+13:+20 GMT", "Tue, 14 Nov 2023 2_2:1_3:2_0 GMT",
               "Tue, Nov 14 2023 22:13:20 GMT", "Nov 14, 2023 22:13:20 GMT", "Tue, 14 Nov 22:13:20 2023 GMT", "Tue, 14 Nov 22:13:20 2023", "14-Nov-2023 22:13:20 GMT",
               "14-Nov-23 22:13:20 +0200", "Tuesday, 14-Nov-23 22:13:20 EST", "Tue, 14 Nov 2023, 22:13:20, GMT", "Tue, 14, Nov 2023 22:13:20 GMT", "Tue, 14 Nov, 2023 22:13:20 GMT",
               "Tue, 14 Nov GMT 22:13:20 2023", "Tue, 14 Nov +0200 22:13:20 2023", "Tue, 14 Nov \xb2023 22:13:20 GMT", "Tue, 14 Nov 2023 22:13:20 \xb2", "x,y,14 Nov 2023 22:13:20 GMT",
               ",14 Nov 2023 22:13:20 GMT", "Tue, 0 Nov 2023 22:13:20 GMT", "Tue, 14 Nov 0 22:13:20 GMT", "Tue, 14 Nov 0000 22:13:20 GMT", "Tue, 14 Nov -5 22:13:20 GMT",
               "Tue, 14 Nov 123 22:13:20 GMT", "Mon, 01 Jan 0001 00:00:00 +0100", "Mon, 01 Jan 0001 00:00:00 -0100", "Fri, 31 Dec 9999 23:59:59 -0100", "Fri, 31 Dec 9999 23:59:59 +0100",
               "Fri, 31 Dec 9999 23:59:59 GMT", "Tue, 14 Nov 2023 22:13:20 AST", "Tue, 14 Nov 2023 22:13:20 Z", "Tue, 14 Nov 2023 22:13:20 UTC", "Tue, 14 Nov 2023 22:13:20 A",
               "Tue, 14 Nov 2023 22:13:20 CEST", "Tue, 14 Nov 2023 22:13:20 gmt+1", "Tue, 14 Nov 2023 22:13:20 GMT+0100", "Tue,\xa014\xa0Nov\xa02023\xa022:13:20\xa0GMT",
               "Tue, 14 Nov 2023 22:13:20 GMT garbage", "Thu, 29 Feb 2024 00:00:00 GMT", "Wed, 29 Feb 2023 00:00:00 GMT", "Tue, 29 Feb 2100 00:00:00 GMT", "Tue, 29 Feb 2000 00:00:00 GMT",
               "Sun Nov  6 08:49:37 1994", "Sunday, 06-Nov-94 08:49:37 GMT", "Sun, 06 Nov 1994 08:49:37 GMT", "may 14 2023 22:13:20", "14 May 2023 22:13:20 +0000", "14 mayy 2023 22:13:20 GMT"]


def _ims_structured(rng):
    off = rng.choice(IMS_OFFS)
    zone = None
    k = rng.random()
    if k < 0.25:
        zone = rng.choice(list(RFC_ZONES) + ["AST", "ADT", "Z", "UTC", "A", "N", "CEST", "-0000", "+0000", ""])
        off = 3600 * RFC_ZONES.get(zone, {"AST": -4, "ADT": -3}.get(zone, 0))
    d = rng.choice([-1, 0, 0, 1, -off - 1, -off, -off, -off + 1, -off // 2, -off // 2, off, -3600, 3600, -86400, 86400, -86400 * 400, 86400 * 400,
                    -86400 * 365 * 30, 86400 * 365 * 20, rng.randint(-100000, 100000)])
    if zone is None:
        zone = "GMT" if off == 0 and rng.random() < 0.7 else "%s%02d%02d" % ("+" if off >= 0 else "-", abs(off) // 3600, abs(off) // 60 % 60)
    for _ in range(4):
        s = _render_date(rng, MTIME + d, off, zone, rng.choice(IMS_FORMS))
        if s is not None:
            return s
    return _render_date(rng, MTIME + d, off, zone, "plain")


def _ims(rng):
    k = rng.random()
    if k < 0.7:
        return _ims_structured(rng)
    if k < 0.85:                                           # one-character mutation of a well-formed date
        s = _ims_structured(rng)
        i = rng.randrange(len(s) + 1)
        ins = rng.choice(list("0123456789:,-+ _.()") + ["\t", "\xa0", "\xb2", "\xe9", "G", "a", "Z", "00", "  "])
        m = rng.random()
        if m < 0.4:
            return (s[:i] + ins + s[i:]).strip(" \t")
        if m < 0.7:
            return (s[:i] + s[i + 1:]).strip(" \t")
        return (s[:i] + ins + s[i + 1:]).strip(" \t")
    if k < 0.92:                                           # token-level mutation: swap / drop / duplicate / glue
        t = _ims_structured(rng).split()
        i, j = rng.randrange(len(t)), rng.randrange(len(t))
        m = rng.random()
        if m < 0.4:
            t[i], t[j] = t[j], t[i]
        elif m < 0.6:
            del t[i]
        elif m < 0.8:
            t.insert(j, t[i])
        else:
            t[i] = t[i] + rng.choice(["", ",", "-", "+", ":", "."]) + t[j]
        return " ".join(t)
    return rng.choice(IMS_GARBAGE)


_M3 = "jan|feb|mar|apr|may|jun|jul|aug|sep|oct|nov|dec"
_D3 = "mon|tue|wed|thu|fri|sat|sun"
_RE_5322 = re.compile(r"(?:(?:%s),[ \t]*)?([0-9]{1,2})[ \t]+(%s)[ \t]+([0-9]{2,})[ \t]+([0-9]{2}):([0-9]{2})(?::([0-9]{2}))?[ \t]+([+-][0-9]{4}|[a-z]{1,5})(?:[ \t]+\([^()]*\))?"
                      % (_D3, _M3), re.I | re.A)
_RE_850 = re.compile(r"(?:monday|tuesday|wednesday|thursday|friday|saturday|sunday),[ \t]+([0-9]{2})-(%s)-([0-9]{2})[ \t]+([0-9]{2}):([0-9]{2}):([0-9]{2})[ \t]+gmt" % _M3, re.I | re.A)
_RE_ASC = re.compile(r"(?:%s)[ \t]+(%s)[ \t]+([0-9]{1,2})[ \t]+([0-9]{2}):([0-9]{2}):([0-9]{2})[ \t]+([0-9]{4})" % (_D3, _M3), re.I | re.A)


def _denoted(v):
    """the instant a date string denotes, read strictly and independently of the implementation:
    ("instant", seconds since the epoch, wall-clock seconds) for a well-formed RFC 5322 date-time (incl. obs-zone, obs-year 00-49/85-99, trailing comment),
    RFC 850 date or asctime date whose fields are in calendar range; ("nodate",) for text without any month name; ("unspecified",) otherwise."""
    v = v.strip(" \t")
    zone = "GMT"
    m = _RE_5322.fullmatch(v)
    if m:
        d, mon, y, hh, mi, ss, zone = m.groups()
    else:
        m = _RE_850.fullmatch(v)
        if m:
            d, mon, y, hh, mi, ss = m.groups()
        else:
            m = _RE_ASC.fullmatch(v)
            if m:
                mon, d, hh, mi, ss, y = m.groups()
            else:
                return ("unspecified",) if re.search(_M3, v, re.I) else ("nodate",)
    ylen = len(y)
    d, y, hh, mi, ss = int(d), int(y), int(hh), int(mi), int(ss or "0")
    mon = _M3.split("|").index(mon.lower()) + 1
    if ylen == 2:
        if 50 <= y <= 84:
            return ("unspecified",)
        y += 2000 if y <= 49 else 1900
    elif ylen != 4 or y < 100:                            # CPython reads a zero-padded 00yy like the 2-digit yy
        return ("unspecified",)
    if not (1 <= y <= 9999 and 1 <= d <= _dim(y, mon) and hh <= 23 and mi <= 59 and ss <= 59):
        return ("unspecified",)
    if zone[0] in "+-":
        zh, zm = int(zone[1:3]), int(zone[3:5])
        if zm > 59 or zh > 23:
            return ("unspecified",)
        off = (zh * 3600 + zm * 60) * (-1 if zone[0] == "-" else 1)
    elif zone.upper() in DISPUTED_ZONES:
        return ("unspecified",)
    else:
        off = 3600 * RFC_ZONES.get(zone.upper(), 0)       # RFC 5322: other alphabetic zones are read as -0000
    wall = _days_from_civil(y, mon, d) * 86400 + hh * 3600 + mi * 60 + ss
    return ("instant", wall - off, wall)


def _mk(rng, size):
    c = {"kind": "http", "size": size, "range": None, "inm": None, "ims": None}
    if rng.random() < 0.9:
        c["range"] = _range_header(rng, size)
        if any(ord(ch) < 0x20 and ch != "\t" or ord(ch) == 0x7f or ord(ch) > 0xff for ch in c["range"]):
            c["range"] = "bytes=0-0"
    k = rng.random()
    if k < 0.12:
        c["inm"] = _inm(rng, size)
    elif k < 0.42:
        c["ims"] = _ims(rng)
    elif k < 0.47:
        c["inm"] = _inm(rng, size)
        c["ims"] = _ims(rng)
    return c


ENUM_HEADERS = ["bytes=0-", "bytes=1-", "bytes=-1", "bytes=-0", "bytes=0-0", "bytes=-5", "bytes=5-", "bytes=2-4", "bytes=4-2", "bytes=3-3",
                "bytes=39-", "bytes=40-", "bytes=41-", "bytes=0-39", "bytes=0-40", "bytes=1-1000", "bytes=-40", "bytes=-41", "bytes=-1000",
                "bytes=+1-2", "bytes=--5", "bytes=1_0-", "bytes=1-2,4-5", "bytes= 1 - 2 ", "Bytes=1-2"]


def gen_cases(rng, tier):
    _fx()
    n = {"quick": 2500, "thorough": 60000, "search": 6000}[tier]
    if tier in ("quick", "thorough"):
        sizes = range(0, 41) if tier == "thorough" else [0, 1, 2, 3, 5, 40]
        for size in sizes:
            for h in ENUM_HEADERS + (["bytes=%d-%d" % (a, b) for a in range(0, size + 2) for b in range(0, size + 2)] if size <= (12 if tier == "thorough" else 3) else []):
                yield {"kind": "http", "size": size, "range": h, "inm": None, "ims": None}
        for h in INVALID + SPECIAL_VALID + UNIT_ONLY + ENUM_HEADERS:
            yield {"kind": "unit", "header": h}
        # If-Modified-Since: every zone offset x instants on both sides of the mtime and of mtime - offset, a few forms; all garbage values
        for off in sorted(set(IMS_OFFS)):
            zone = "%s%02d%02d" % ("+" if off >= 0 else "-", abs(off) // 3600, abs(off) // 60 % 60)
            for d in sorted({-1, 0, 1, -off - 1, -off, -off + 1, -off // 2, off}):
                for form in (["plain", "noday", "yy", "comment"] if tier == "thorough" else ["plain"]):
                    v = _render_date(rng, MTIME + d, off, zone, form)
                    if v is not None:
                        yield {"kind": "http", "size": 5, "range": rng.choice([None, "bytes=1-2", "bytes=9-"]), "inm": None, "ims": v}
        for name, hours in sorted(RFC_ZONES.items()):
            for d in (-1, 0, 3600 * hours, -3600 * hours - 1, -3600 * hours):
                yield {"kind": "http", "size": 5, "range": None, "inm": None, "ims": _render_date(rng, MTIME + d, 3600 * hours, name, "plain")}
        for d in (-1, 0, 1):
            for form in ("asctime", "rfc850", "nosec", "shortday", "nofws", "case", "longmonth"):
                v = _render_date(rng, MTIME + d - (MTIME + d) % 60 * (form == "nosec"), 0, "GMT", form)
                if v is not None:
                    yield {"kind": "http", "size": 5, "range": None, "inm": None, "ims": v}
        for v in IMS_GARBAGE:
            yield {"kind": "http", "size": 5, "range": None, "inm": None, "ims": v}
    for _ in range(n):
        k = rng.random()
        if k < 0.8:
            size = rng.choice([0, 1, 2, 3, 7, 10, 40, 100, 299, 300]) if rng.random() < 0.5 else rng.randint(0, MAXSIZE)
            yield _mk(rng, size)
        else:
            h = _range_header(rng, rng.randint(0, 300))
            if rng.random() < 0.4:
                h = rng.choice([h.translate(FULLWIDTH), h.translate(ARABIC), rng.choice(BADWS) + h, h + rng.choice(BADWS),
                                h.replace("=", "=" + rng.choice(BADWS), 1), h.replace("-", rng.choice(BADWS) + "-", 1), rng.choice(UNIT_ONLY)])
            yield {"kind": "unit", "header": h}


# ------------------------------------------------------------------ implementation
def _http(app, raw):
    from core import vloop, faketransport
    from tornado import httpserver
    with vloop.installed() as lp:
        srv = httpserver.HTTPServer(app)
        s = faketransport.FakeStream(lp.io_loop)
        srv.handle_stream(s, ("1.2.3.4", 5))
        lp.drain()
        s.feed(raw)
        lp.drain()
        out = bytes(s.written)
        s.feed_eof()
        lp.drain()
        return out


def _parse_response(out):
    head, sep, body = out.partition(b"\r\n\r\n")
    lines = head.split(b"\r\n")
    m = re.match(rb"HTTP/1\.[01] (\d{3}) ", lines[0] + b" ")
    status = int(m.group(1)) if m else -1
    hdrs = []
    for ln in lines[1:]:
        k, _, v = ln.partition(b":")
        name = k.decode("latin1")
        if name.lower() in ("date", "server"):
            continue
        hdrs.append([name, v.strip().decode("latin1")])
    return {"status": status, "headers": sorted(hdrs), "body": body.hex()}


def _request(app, method, size, hdrs):
    raw = ("%s /f/f%d.bin HTTP/1.1\r\nHost: h\r\n" % (method, size)).encode()
    for k, v in hdrs:
        if v is not None:
            raw += k.encode() + b": " + v.encode("latin1") + b"\r\n"
    return _parse_response(_http(app, raw + b"\r\n"))


def run_impl(case):
    from tornado import web, httputil
    if case["kind"] == "unit":
        try:
            r = httputil._parse_request_range(case["header"])
        except Exception as e:
            return {"parsed": "Uncaught:" + type(e).__name__}
        return {"parsed": None if r is None else [None if x is None else format(x, "x") for x in r]}
    logging.getLogger("tornado").setLevel(logging.CRITICAL)
    web.StaticFileHandler.reset()
    app = web.Application([(r"/f/(.*)", web.StaticFileHandler, {"path": _fx()})])
    hs = [("Range", case["range"]), ("If-None-Match", case["inm"]), ("If-Modified-Since", case["ims"])]
    out = {"get": _request(app, "GET", case["size"], hs), "head": _request(app, "HEAD", case["size"], hs)}
    if case["range"] is not None:
        out["norange"] = _request(app, "GET", case["size"], hs[1:])
    return out


# ------------------------------------------------------------------ model
def _norm(v):
    if isinstance(v, Atom):
        return {"T": True, "F": False}.get(str(v), str(v))
    if isinstance(v, list):
        return [_norm(x) for x in v]
    return v


def _lastmod():
    import email.utils
    return email.utils.formatdate(MTIME, usegmt=True)


def _respond_line(case, impl, head, with_range=True):
    size = case["size"]
    return line(ID, "respond", _content(size), _etag(size), _lastmod(), "application/octet-stream", atom("T" if head else "F"),
                case["range"] if with_range else None, case["inm"], case["ims"], MTIME)


def model_requests(case, impl):
    if case["kind"] == "unit":
        return [line(ID, "parse", case["header"])]
    ls = [_respond_line(case, impl, False), _respond_line(case, impl, True)]
    if case["range"] is not None:
        ls.append(_respond_line(case, impl, False, with_range=False))
    return ls


def _resp(reply):
    st, vals = parse_reply(reply)
    assert st == "ok", reply
    status, hdrs, body = vals
    return {"status": status, "headers": sorted(_norm(hdrs)), "body": bytes(body).hex()}


def model_result(case, replies):
    if case["kind"] == "unit":
        st, vals = parse_reply(replies[0])
        assert st == "ok", replies[0]
        return {"parsed": _norm(vals[0])}
    out = {"get": _resp(replies[0]), "head": _resp(replies[1])}
    if case["range"] is not None:
        out["norange"] = _resp(replies[2])
    return out


def impl_view(case, impl):
    return impl


# ------------------------------------------------------------------ property oracle
def spec_requests(case, impl):
    h = case["header"] if case["kind"] == "unit" else case["range"]
    return [line(ID, "valid", h)] if h is not None else []


def _hget(resp, name):
    vs = [v for k, v in resp["headers"] if k.lower() == name]
    return vs[0] if len(vs) == 1 else (None if not vs else vs)


def _shape(resp, content, head):
    """the property statement applied to one response; -> None | why"""
    st, body = resp["status"], bytes.fromhex(resp["body"])
    size = len(content)
    cl, cr = _hget(resp, "content-length"), _hget(resp, "content-range")
    if head and body:
        return "HEAD response has a body"
    if st == 200:
        want = content
        if cr is not None:
            return "200 with Content-Range"
    elif st == 206:
        m = re.fullmatch(r"bytes (\d+)-(\d+)/(\d+)", cr or "")
        if not m:
            return "206 with Content-Range %r" % (cr,)
        a, b, t = map(int, m.groups())
        if not (a <= b < size and t == size):
            return "206 Content-Range %r does not fit size %d" % (cr, size)
        want = content[a:b + 1]
    elif st == 416:
        if cr != "bytes */%d" % size:
            return "416 with Content-Range %r" % (cr,)
        want = b""
    elif st == 304:
        if body:
            return "304 with a body"
        if cl not in (None, "0"):
            return "304 with Content-Length %r" % (cl,)
        return None
    else:
        return "status %d" % st
    if cl != str(len(want)):
        return "%d Content-Length %r but %d bytes are due" % (st, cl, len(want))
    if not head and body != want:
        return "%d body is not the requested part of the file" % st
    return None


_RE_ETAGS = re.compile(r'(?:W/)?"[\x21\x23-\x7e\x80-\xff]*"(?:[ \t]*,[ \t]*(?:W/)?"[\x21\x23-\x7e\x80-\xff]*")*')


def _expect_304(case):
    """RFC 9110 13.2.2 for a GET/HEAD of an existing file, from the request alone: True / False / None (not judged).
    If-None-Match takes precedence (judged when it is `*` or a well-formed entity-tag list: weak comparison with the file's ETag);
    otherwise 304 exactly when If-Modified-Since denotes an instant >= the file's mtime."""
    inm, ims = case["inm"], case["ims"]
    if inm:
        v = inm.strip(" \t")
        if v == "*":
            return True
        if _RE_ETAGS.fullmatch(v):
            mine = _etag(case["size"])
            return any(t == mine for t in re.findall(r'"[^"]*"', v))
        return None
    if inm is not None:
        return None                                   # an empty If-None-Match: not generated
    if ims is None:
        return False
    d = _denoted(ims)
    if d[0] == "instant":
        return d[1] >= MTIME
    return False if d[0] == "nodate" else None


def _why_304(case, got):
    if case["inm"]:
        return "304 although no listed entity-tag matches" if got else "no 304 although If-None-Match lists the file's entity-tag"
    if case["ims"] is None:
        return "304 without a conditional header"
    d = _denoted(case["ims"])
    if d[0] == "nodate":
        return "304 although If-Modified-Since is not a date"
    wall = "wall-clock reading on the other side" if (d[2] >= MTIME) != (d[1] >= MTIME) else "same side in any zone"
    if got:
        return "304 although If-Modified-Since denotes an instant before the file's mtime (instant %d, mtime %d; %s)" % (d[1], MTIME, wall)
    return "no 304 although If-Modified-Since denotes an instant at or after the file's mtime (instant %d, mtime %d; %s)" % (d[1], MTIME, wall)


def spec_violation(case, impl, replies):
    valid = None
    if replies:
        s, vals = parse_reply(replies[0])
        assert s == "ok", replies[0]
        valid = _norm(vals[0])
    if case["kind"] == "unit":
        p = impl["parsed"]
        if isinstance(p, str):
            return "_parse_request_range raised %s" % p
        if valid is False and p not in (None, [None, None]):
            return "invalid Range header honoured (%s): parsed as %r" % (_hclass(case["header"]), p)
        return None
    content = _content(case["size"])
    for which, head in (("get", False), ("head", True)):
        why = _shape(impl[which], content, head)
        if why:
            return "%s: %s" % (which.upper(), why)
    g, h = impl["get"], impl["head"]
    if g["status"] != h["status"] or g["headers"] != h["headers"]:
        return "HEAD differs from GET in status or headers"
    exp = _expect_304(case)
    if exp is not None:
        for which in ("get", "head", "norange"):
            if which in impl and (impl[which]["status"] == 304) != exp:
                return "%s: %s" % (which.upper(), _why_304(case, not exp))
    if valid is False and impl["norange"] != g:
        return "invalid Range header honoured (%s): response differs from the one without Range" % _hclass(case["range"])
    return None


def nontrivial(case, impl):
    if case["kind"] == "unit":
        return True
    if case["ims"] is not None and _denoted(case["ims"])[0] == "instant":
        return True
    return case["range"] is not None and (impl["get"]["status"] != 200 or impl["get"] == impl.get("norange"))


def stats(case, impl):
    if case["kind"] == "unit":
        p = impl["parsed"]
        return ["kind:unit", "unit:" + ("ignored" if p is None else "whole" if p == [None, None] else "honoured")]
    out = ["kind:http", "status:%d" % impl["get"]["status"], "size:%s" % ("0" if case["size"] == 0 else "1-40" if case["size"] <= 40 else "41-300")]
    for k in ("range", "inm", "ims"):
        if case[k] is not None:
            out.append("has:" + k)
    if case["ims"] is not None:
        d = _denoted(case["ims"])
        out.append("ims:" + (d[0] if d[0] != "instant" else "instant-notBefore" if d[1] >= MTIME else "instant-before"))
        if d[0] == "instant":
            out.append("imswall:" + ("other-side" if (d[2] >= MTIME) != (d[1] >= MTIME) else "same-side" if d[2] != d[1] else "utc"))
    e = _expect_304(case)
    out.append("expect304:" + ("unjudged" if e is None else str(e)))
    return out


def _hclass(h):
    """input class of an invalid header, for known-finding signatures"""
    if re.fullmatch(r"[ \t]*bytes[ \t]*=[ \t]*[0-9]+[ \t]*", h):
        return "dashless-number"
    return "other"


def signature(case, impl, why):
    if why.startswith("invalid Range header honoured"):
        return "invalid-range-honoured/" + _hclass(case["header"] if case["kind"] == "unit" else case["range"])
    w = re.sub(r"[^a-zA-Z]+", "-", re.sub(r"%r|'[^']*'|\d+", "", why.split(" but ")[0])).strip("-")[:50]
    return "%s/%s" % (case["kind"], w)


def shrink(case):
    if case["kind"] == "unit":
        h = case["header"]
        for i in range(len(h)):
            yield {**case, "header": h[:i] + h[i + 1:]}
        return
    for k in ("inm", "ims"):
        if case[k] is not None:
            yield {**case, k: None}
    if case["size"] > 3:
        yield {**case, "size": case["size"] // 2}
        yield {**case, "size": case["size"] - 1}
    h = case["range"]
    if h:
        for i in range(len(h)):
            if len(h) < 60:
                yield {**case, "range": h[:i] + h[i + 1:]}


def describe(case):
    return case
