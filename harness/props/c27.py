"""C27 — static range and conditional responses match the file exactly (StaticFileHandler.get, httputil._parse_request_range)."""
import atexit, hashlib, logging, os, re, shutil, sys
from core.wire import atom, line, parse_reply, Atom
import mimetypes
import tornado.web, tornado.httpserver, tornado.httputil     # imported before the workers fork
from core import vloop, faketransport
mimetypes.init()

ID = "C27"
LEAN_TARGETS = ["TornadoModel.C27.Props"]
THEOREMS = [
    "TornadoModel.C27.plan_window",
    "TornadoModel.C27.parse_end_nonneg",
    "TornadoModel.C27.getContent_window",
    "TornadoModel.C27.response_shape",
    "TornadoModel.C27.respond_ne_500",
    "TornadoModel.C27.head_same_headers",
    "TornadoModel.C27.unparsed_range_ignored",
    "TornadoModel.C27.intOrNone_digits",
    "TornadoModel.C27.honoured_fields_digits",
    "TornadoModel.C27.invalid_range_ignored_refuted",
    "TornadoModel.C27.honoured_dash_valid",
    "TornadoModel.C27.invalid_range_ignored",
]
TRUSTED = [
    "hashlib.sha512 (ETag), email.utils.parsedate_to_datetime / datetime comparison (If-Modified-Since), "
    "httputil.format_timestamp (Last-Modified) and mimetypes.guess_type are parameters of the model; the harness computes them with the same stdlib functions",
    "str.partition/strip/isascii/isdigit, int() on ASCII digits (incl. the 4300-digit limit), re.findall for the ETag list regex, "
    "file seek/read: modelled by hand in C27/Model.lean, exercised by the correspondence stream",
]
ASSUMPTIONS = [
    "files up to 300 bytes, served by an unmodified StaticFileHandler from a fixture directory; one Range / If-None-Match / If-Modified-Since header each",
    "header values are what an HTTP/1.1 peer can send (latin-1 text without control characters); the unit stream feeds arbitrary Unicode strings to _parse_request_range directly",
    "If-None-Match is compared on code points (utf8() is injective and the ETag syntax is ASCII)",
    "optional whitespace (SP/HTAB) around the unit, '=', the numbers and '-' and a case-insensitive unit count as syntactically valid (DESIGN section 6)",
]
RULE = ("(file size, Range header, If-None-Match, If-Modified-Since) -> GET and HEAD with the header, GET without Range, through a real "
        "Application/HTTPServer over a fake transport; Range strings from a grammar of valid and invalid specs dense around 0/size-1/size/size+1; "
        "all sizes 0-40 x a fixed header set enumerated; non-trivial = a Range header is present and the response is not a plain 200 or the header is invalid; "
        "distinct by canonical JSON")
EXHAUSTIVE = {"quick": False, "thorough": True}
CLAUSES = {
    "200 whole / 206 with Content-Range a-b/size and body = bytes a..b / 416 with */size / 304 without body, Content-Length = body length":
        "response_shape (every file, every header text, GET/HEAD) via plan_window (all size/start/end, omega) + getContent_window + parse_end_nonneg",
    "HEAD yields the same status and headers with no body": "head_same_headers",
    "a Range header that is not a syntactically valid single byte-range is ignored": "invalid_range_ignored (every header whose value contains a '-' and that the RFC grammar Spec.validRange rejects gives exactly "
        "the no-Range response) via honoured_dash_valid (honoured + dash => grammatical) + unparsed_range_ignored + "
        "honoured_fields_digits/intOrNone_digits; the dashless case: invalid_range_ignored_full is refuted by 'bytes=1' "
        "(invalid_range_ignored_refuted, known finding); the oracle also evaluates Spec.validRange on every case",
}
PARALLEL = True
CASE_TIMEOUT = 120

VERIF = os.path.dirname(os.path.dirname(os.path.dirname(os.path.abspath(__file__))))
MTIME = 1700000000
MAXSIZE = 300
_FX = None


def _content(size):
    return bytes((i * 7 + size * 13 + (i * i) // 5) % 256 for i in range(size))


def _cleanup(path, pid):
    if os.getpid() == pid:
        shutil.rmtree(path, ignore_errors=True)
        try:
            os.rmdir(os.path.dirname(path))
        except OSError:
            pass


def _fx():
    global _FX
    if _FX is not None:
        return _FX
    fx = os.path.join(os.path.realpath(VERIF), ".build", str(os.getpid()), "c27fx")
    shutil.rmtree(fx, ignore_errors=True)
    os.makedirs(fx)
    atexit.register(_cleanup, fx, os.getpid())
    for size in range(MAXSIZE + 1):
        p = os.path.join(fx, "f%d.bin" % size)
        with open(p, "wb") as f:
            f.write(_content(size))
        os.utime(p, (MTIME, MTIME))
    _FX = fx
    return fx


# ------------------------------------------------------------------ generators
WS = ["", "", "", " ", "\t", "  ", " \t "]
BADWS = ["\xa0", "\x85", "\xa0 ", "\x0b", "\x0c", "\x1c", " ", "　"]
FULLWIDTH = str.maketrans("0123456789", "０１２３４５６７８９")
ARABIC = str.maketrans("0123456789", "٠١٢٣٤٥٦٧٨٩")


def _num(rng, size):
    k = rng.random()
    if k < 0.6:
        return rng.choice([0, 1, 2, size - 2, size - 1, size, size + 1, size // 2, size // 2 + 1, 2 * size, 5])
    if k < 0.8:
        return rng.randint(0, max(1, size + 3))
    if k < 0.9:
        return rng.choice([10 ** 6, 2 ** 31, 2 ** 63, 2 ** 64 + 1, 10 ** 30])
    return rng.randint(0, 400)


def _numtext(rng, n):
    n = max(0, n)
    s = str(n)
    if rng.random() < 0.1:
        s = "0" * rng.choice([1, 2, 7]) + s
    return s


def _valid_range(rng, size):
    k = rng.random()
    w = lambda: rng.choice(WS)
    if k < 0.45:
        a = _num(rng, size)
        b = rng.choice([a, a + 1, a - 1, _num(rng, size), size - 1, size, a + rng.randint(0, 20)])
        core = "%s%s-%s%s" % (_numtext(rng, a), w(), w(), _numtext(rng, b))
    elif k < 0.7:
        core = "%s%s-" % (_numtext(rng, _num(rng, size)), w())
    else:
        core = "-%s%s" % (w(), _numtext(rng, _num(rng, size)))
    unit = "bytes" if rng.random() < 0.9 else rng.choice(["Bytes", "BYTES", "bYtEs"])
    return "%s%s%s=%s%s%s" % (w(), unit, w(), w(), core, w())


INVALID = [
    "bytes=+1-2", "bytes=1-+2", "bytes=--5", "bytes=-+5", "bytes=1--5", "bytes=-5-", "bytes=- -5", "bytes=1_0-", "bytes=1_0-2_0", "bytes=-1_0",
    "bytes=_1-", "bytes=1__0-", "bytes=1-2,4-5", "bytes=1-2,", "bytes=,1-2", "bytes=1-2-3", "bytes=a-b", "bytes=1", "bytes", "bytes=", "bytes=-",
    "bytes= - ", "bits=0-1", "byte=0-1", "bytess=0-1", "bytes==0-1", "bytes=0-1=", "=0-1", "0-1", "bytes=0x10-", "bytes=0b1-", "bytes=1e1-",
    "bytes=1.0-", "bytes=1 0-", "bytes=0-1 2", "bytes:0-1", "bytes 0-1", "bytes=0−1", "by tes=0-1", "bytes=0-1;", "bytes=0-1 bytes=2-3",
    "none", "*", "bytes=*", "bytes=0-*", "bytes=-0x5", "bytes=١-٢".encode("utf-8").decode("latin1"), "bytes=１-２".encode("utf-8").decode("latin1"),
    "bytes=\xb9-\xb2", "bytes=\xa01-2", "bytes=1-2\xa0", "bytes\xa0=1-2", "\xa0bytes=1-2", "bytes=1\x85-2", "bytes=-\xa05", "bytes= +0-",
    "bytes=-" + "9" * 4301, "bytes=0-" + "1" * 4301,
]
SPECIAL_VALID = ["bytes=0-", "bytes=-0", "bytes=0-0", "bytes=-1", "bytes=00-", "bytes=-" + "0" * 4299 + "3", "bytes=0-" + "9" * 4300,
                 "bytes=" + "0" * 4298 + "1-" + "0" * 4299 + "2", "bytes=" + "0" * 4300 + "1-", "bytes = 0 - 0", "bytes=\t1-\t", "BYTES=1-1"]
UNIT_ONLY = [  # only reachable by calling _parse_request_range directly
    "bytes=１-２", "bytes=١-٢", "bytes=1-２", "bytes= 1-2", "bytes=1-2　", "bytes=\x0b1-2", "bytes=\x1c1-2", "bytes=1-2\n", "\nbytes=1-2",
    "bytes=1 -2", "bytes=١_٢-", "bytes=+１-", "bytes=-１", "bytes=--１", "", "=", "-", "bytes=\x00", "bytes=1-\x00",
]


def _range_header(rng, size):
    k = rng.random()
    if k < 0.5:
        return _valid_range(rng, size)
    if k < 0.58:
        return rng.choice(SPECIAL_VALID)
    if k < 0.85:
        return rng.choice(INVALID)
    # mutate a valid one
    h = _valid_range(rng, size)
    i = rng.randrange(len(h) + 1)
    m = rng.random()
    ins = rng.choice(["+", "-", "_", ",", " ", "\xa0", "\x85", "=", "0", "x", "\xb2", "\xd9\xa1", "\t", ";"])
    if m < 0.6:
        return h[:i] + ins + h[i:]
    if m < 0.8 and h:
        i = min(i, len(h) - 1)
        return h[:i] + h[i + 1:]
    return h[:i] + ins + h[i + 1:]


def _etag(size):
    return '"%s"' % hashlib.sha512(_content(size)).hexdigest()


def _inm(rng, size):
    e = _etag(size)
    other = '"%s"' % hashlib.sha512(b"other").hexdigest()
    return rng.choice([
        e, e, "W/" + e, "*", other, "W/" + other, '"x", ' + e, 'W/"x",W/' + e, other + ", *", "* , " + other, e[:-1], e[1:-1], e[:50] + '"',
        '"x"', '""', '"', "W/", 'w/' + e, "W/ " + e, e + e, '"a" "b"' + e, "garbage", "\xe9" + e, '"\xe9"', e.upper(), '"x' + e, 'W/"x' + e,
    ])


def _ims(rng):
    import email.utils
    k = rng.random()
    if k < 0.7:
        d = rng.choice([-86400 * 400, -3600, -1, 0, 0, 1, 3600, 86400 * 400])
        s = email.utils.formatdate(MTIME + d, usegmt=True)
        m = rng.random()
        if m < 0.1:
            s = s.replace(" GMT", "")          # naive: the code assumes UTC
        elif m < 0.2:
            s = s.replace("GMT", "-0000")
        elif m < 0.3:
            s = s.replace("GMT", "+0100")
        return s
    return rng.choice(["yesterday", "0", "Tue", "Tue, 14 Nov 2023", "2023-11-14T22:13:20Z", "Tue, 14 Nov 2023 25:61:61 GMT",
                       "Tue, 14 Nov 99999 22:13:20 GMT", "\xe9", "Wed, 31 Feb 2024 00:00:00 GMT"])


def _mk(rng, size):
    c = {"kind": "http", "size": size, "range": None, "inm": None, "ims": None}
    if rng.random() < 0.9:
        c["range"] = _range_header(rng, size)
        if any(ord(ch) < 0x20 and ch != "\t" or ord(ch) == 0x7f or ord(ch) > 0xff for ch in c["range"]):
            c["range"] = "bytes=0-0"
    k = rng.random()
    if k < 0.12:
        c["inm"] = _inm(rng, size)
    elif k < 0.24:
        c["ims"] = _ims(rng)
    elif k < 0.28:
        c["inm"] = _inm(rng, size)
        c["ims"] = _ims(rng)
    return c


ENUM_HEADERS = ["bytes=0-", "bytes=1-", "bytes=-1", "bytes=-0", "bytes=0-0", "bytes=-5", "bytes=5-", "bytes=2-4", "bytes=4-2", "bytes=3-3",
                "bytes=39-", "bytes=40-", "bytes=41-", "bytes=0-39", "bytes=0-40", "bytes=1-1000", "bytes=-40", "bytes=-41", "bytes=-1000",
                "bytes=+1-2", "bytes=--5", "bytes=1_0-", "bytes=1-2,4-5", "bytes= 1 - 2 ", "Bytes=1-2"]


def gen_cases(rng, tier):
    _fx()
    n = {"quick": 2500, "thorough": 60000, "search": 6000}[tier]
    if tier in ("quick", "thorough"):
        sizes = range(0, 41) if tier == "thorough" else [0, 1, 2, 3, 5, 40]
        for size in sizes:
            for h in ENUM_HEADERS + (["bytes=%d-%d" % (a, b) for a in range(0, size + 2) for b in range(0, size + 2)] if size <= (12 if tier == "thorough" else 3) else []):
                yield {"kind": "http", "size": size, "range": h, "inm": None, "ims": None}
        for h in INVALID + SPECIAL_VALID + UNIT_ONLY + ENUM_HEADERS:
            yield {"kind": "unit", "header": h}
    for _ in range(n):
        k = rng.random()
        if k < 0.8:
            size = rng.choice([0, 1, 2, 3, 7, 10, 40, 100, 299, 300]) if rng.random() < 0.5 else rng.randint(0, MAXSIZE)
            yield _mk(rng, size)
        else:
            h = _range_header(rng, rng.randint(0, 300))
            if rng.random() < 0.4:
                h = rng.choice([h.translate(FULLWIDTH), h.translate(ARABIC), rng.choice(BADWS) + h, h + rng.choice(BADWS),
                                h.replace("=", "=" + rng.choice(BADWS), 1), h.replace("-", rng.choice(BADWS) + "-", 1), rng.choice(UNIT_ONLY)])
            yield {"kind": "unit", "header": h}


# ------------------------------------------------------------------ implementation
def _http(app, raw):
    from core import vloop, faketransport
    from tornado import httpserver
    with vloop.installed() as lp:
        srv = httpserver.HTTPServer(app)
        s = faketransport.FakeStream(lp.io_loop)
        srv.handle_stream(s, ("1.2.3.4", 5))
        lp.drain()
        s.feed(raw)
        lp.drain()
        out = bytes(s.written)
        s.feed_eof()
        lp.drain()
        return out


def _parse_response(out):
    head, sep, body = out.partition(b"\r\n\r\n")
    lines = head.split(b"\r\n")
    m = re.match(rb"HTTP/1\.[01] (\d{3}) ", lines[0] + b" ")
    status = int(m.group(1)) if m else -1
    hdrs = []
    for ln in lines[1:]:
        k, _, v = ln.partition(b":")
        name = k.decode("latin1")
        if name.lower() in ("date", "server"):
            continue
        hdrs.append([name, v.strip().decode("latin1")])
    return {"status": status, "headers": sorted(hdrs), "body": body.hex()}


def _request(app, method, size, hdrs):
    raw = ("%s /f/f%d.bin HTTP/1.1\r\nHost: h\r\n" % (method, size)).encode()
    for k, v in hdrs:
        if v is not None:
            raw += k.encode() + b": " + v.encode("latin1") + b"\r\n"
    return _parse_response(_http(app, raw + b"\r\n"))


def _ims_class(v):
    """the external date comparison of should_return_304, with the same stdlib calls"""
    import datetime, email.utils
    if v is None:
        return "absent"
    try:
        d = email.utils.parsedate_to_datetime(v)
    except Exception:
        return "unparseable"
    if d.tzinfo is None:
        d = d.replace(tzinfo=datetime.timezone.utc)
    try:
        return "notBefore" if d >= datetime.datetime.fromtimestamp(MTIME, datetime.timezone.utc) else "before"
    except Exception:
        return "unparseable"


def run_impl(case):
    from tornado import web, httputil
    if case["kind"] == "unit":
        try:
            r = httputil._parse_request_range(case["header"])
        except Exception as e:
            return {"parsed": "Uncaught:" + type(e).__name__}
        return {"parsed": None if r is None else [None if x is None else format(x, "x") for x in r]}
    logging.getLogger("tornado").setLevel(logging.CRITICAL)
    web.StaticFileHandler.reset()
    app = web.Application([(r"/f/(.*)", web.StaticFileHandler, {"path": _fx()})])
    hs = [("Range", case["range"]), ("If-None-Match", case["inm"]), ("If-Modified-Since", case["ims"])]
    out = {"get": _request(app, "GET", case["size"], hs), "head": _request(app, "HEAD", case["size"], hs)}
    if case["range"] is not None:
        out["norange"] = _request(app, "GET", case["size"], hs[1:])
    out["ims_class"] = _ims_class(case["ims"])
    return out


# ------------------------------------------------------------------ model
def _norm(v):
    if isinstance(v, Atom):
        return {"T": True, "F": False}.get(str(v), str(v))
    if isinstance(v, list):
        return [_norm(x) for x in v]
    return v


def _lastmod():
    import email.utils
    return email.utils.formatdate(MTIME, usegmt=True)


def _respond_line(case, impl, head, with_range=True):
    size = case["size"]
    return line(ID, "respond", _content(size), _etag(size), _lastmod(), "application/octet-stream", atom("T" if head else "F"),
                case["range"] if with_range else None, case["inm"], atom(impl.get("ims_class") or _ims_class(case["ims"])))


def model_requests(case, impl):
    if case["kind"] == "unit":
        return [line(ID, "parse", case["header"])]
    ls = [_respond_line(case, impl, False), _respond_line(case, impl, True)]
    if case["range"] is not None:
        ls.append(_respond_line(case, impl, False, with_range=False))
    return ls


def _resp(reply):
    st, vals = parse_reply(reply)
    assert st == "ok", reply
    status, hdrs, body = vals
    return {"status": status, "headers": sorted(_norm(hdrs)), "body": bytes(body).hex()}


def model_result(case, replies):
    if case["kind"] == "unit":
        st, vals = parse_reply(replies[0])
        assert st == "ok", replies[0]
        return {"parsed": _norm(vals[0])}
    out = {"get": _resp(replies[0]), "head": _resp(replies[1])}
    if case["range"] is not None:
        out["norange"] = _resp(replies[2])
    return out


def impl_view(case, impl):
    if case["kind"] == "unit":
        return impl
    return {k: v for k, v in impl.items() if k != "ims_class"}


# ------------------------------------------------------------------ property oracle
def spec_requests(case, impl):
    h = case["header"] if case["kind"] == "unit" else case["range"]
    return [line(ID, "valid", h)] if h is not None else []


def _hget(resp, name):
    vs = [v for k, v in resp["headers"] if k.lower() == name]
    return vs[0] if len(vs) == 1 else (None if not vs else vs)


def _shape(resp, content, head):
    """the property statement applied to one response; -> None | why"""
    st, body = resp["status"], bytes.fromhex(resp["body"])
    size = len(content)
    cl, cr = _hget(resp, "content-length"), _hget(resp, "content-range")
    if head and body:
        return "HEAD response has a body"
    if st == 200:
        want = content
        if cr is not None:
            return "200 with Content-Range"
    elif st == 206:
        m = re.fullmatch(r"bytes (\d+)-(\d+)/(\d+)", cr or "")
        if not m:
            return "206 with Content-Range %r" % (cr,)
        a, b, t = map(int, m.groups())
        if not (a <= b < size and t == size):
            return "206 Content-Range %r does not fit size %d" % (cr, size)
        want = content[a:b + 1]
    elif st == 416:
        if cr != "bytes */%d" % size:
            return "416 with Content-Range %r" % (cr,)
        want = b""
    elif st == 304:
        if body:
            return "304 with a body"
        if cl not in (None, "0"):
            return "304 with Content-Length %r" % (cl,)
        return None
    else:
        return "status %d" % st
    if cl != str(len(want)):
        return "%d Content-Length %r but %d bytes are due" % (st, cl, len(want))
    if not head and body != want:
        return "%d body is not the requested part of the file" % st
    return None


def spec_violation(case, impl, replies):
    valid = None
    if replies:
        s, vals = parse_reply(replies[0])
        assert s == "ok", replies[0]
        valid = _norm(vals[0])
    if case["kind"] == "unit":
        p = impl["parsed"]
        if isinstance(p, str):
            return "_parse_request_range raised %s" % p
        if valid is False and p not in (None, [None, None]):
            return "invalid Range header honoured (%s): parsed as %r" % (_hclass(case["header"]), p)
        return None
    content = _content(case["size"])
    for which, head in (("get", False), ("head", True)):
        why = _shape(impl[which], content, head)
        if why:
            return "%s: %s" % (which.upper(), why)
    g, h = impl["get"], impl["head"]
    if g["status"] != h["status"] or g["headers"] != h["headers"]:
        return "HEAD differs from GET in status or headers"
    if valid is False and impl["norange"] != g:
        return "invalid Range header honoured (%s): response differs from the one without Range" % _hclass(case["range"])
    return None


def nontrivial(case, impl):
    if case["kind"] == "unit":
        return True
    return case["range"] is not None and (impl["get"]["status"] != 200 or impl["get"] == impl.get("norange"))


def stats(case, impl):
    if case["kind"] == "unit":
        p = impl["parsed"]
        return ["kind:unit", "unit:" + ("ignored" if p is None else "whole" if p == [None, None] else "honoured")]
    out = ["kind:http", "status:%d" % impl["get"]["status"], "size:%s" % ("0" if case["size"] == 0 else "1-40" if case["size"] <= 40 else "41-300")]
    for k in ("range", "inm", "ims"):
        if case[k] is not None:
            out.append("has:" + k)
    out.append("ims:" + impl["ims_class"])
    return out


def _hclass(h):
    """input class of an invalid header, for known-finding signatures"""
    if re.fullmatch(r"[ \t]*bytes[ \t]*=[ \t]*[0-9]+[ \t]*", h):
        return "dashless-number"
    return "other"


def signature(case, impl, why):
    if why.startswith("invalid Range header honoured"):
        return "invalid-range-honoured/" + _hclass(case["header"] if case["kind"] == "unit" else case["range"])
    w = re.sub(r"[^a-zA-Z]+", "-", re.sub(r"%r|'[^']*'|\d+", "", why.split(" but ")[0])).strip("-")[:50]
    return "%s/%s" % (case["kind"], w)


def shrink(case):
    if case["kind"] == "unit":
        h = case["header"]
        for i in range(len(h)):
            yield {**case, "header": h[:i] + h[i + 1:]}
        return
    for k in ("inm", "ims"):
        if case[k] is not None:
            yield {**case, k: None}
    if case["size"] > 3:
        yield {**case, "size": case["size"] // 2}
        yield {**case, "size": case["size"] - 1}
    h = case["range"]
    if h:
        for i in range(len(h)):
            if len(h) < 60:
                yield {**case, "range": h[:i] + h[i + 1:]}


def describe(case):
    return case
