"""C23 — signed values cannot be forged, replayed across names or crash the reader
(tornado.web.create_signed_value / decode_signed_value / get_signature_key_version)."""
import base64, hashlib, hmac as _hmac, re
from core.wire import atom, line, parse_reply, Atom

ID = "C23"
LEAN_TARGETS = ["TornadoModel.C23.Props"]
THEOREMS = [
    "TornadoModel.C23.b64_roundtrip",
    "TornadoModel.C23.pyInt_toDec",
    "TornadoModel.C23.v2_tosign_injective",
    "TornadoModel.C23.v1_tosign_injective_partial",
    "TornadoModel.C23.v1_tosign_injective_refuted",
    "TornadoModel.C23.decodeFields_toSign",
    "TornadoModel.C23.roundtrip_v2",
    "TornadoModel.C23.roundtrip_v1",
    "TornadoModel.C23.roundtrip",
    "TornadoModel.C23.decode_sound_v2",
    "TornadoModel.C23.decode_sound_v1",
    "TornadoModel.C23.accepted_shape_v2",
    "TornadoModel.C23.decode_sound",
    "TornadoModel.C23.wrong_name_rejected_v2",
    "TornadoModel.C23.expired_rejected",
    "TornadoModel.C23.min_version_respected",
    "TornadoModel.C23.created_version",
    "TornadoModel.C23.decode_total",
    "TornadoModel.C23.utf8?_of_scalar",
    "TornadoModel.C23.utf8?_of_surrogate",
    "TornadoModel.C23.decodeIn_encodable",
    "TornadoModel.C23.decodeIn_unencodable",
    "TornadoModel.C23.decodeIn_total",
    "TornadoModel.C23.decodeInUnfixed_raised",
    "TornadoModel.C23.decodeInUnfixed_encodable",
    "TornadoModel.C23.spec_accept_sound",
]
TRUSTED = [
    "HMAC-SHA1 / HMAC-SHA256 are opaque parameters H1/H2 of every theorem (contract used: digests are non-empty "
    "strings of hex digits); their unforgeability is what turns decode_sound + v2_tosign_injective into 'cannot be forged'",
    "CPython 3.12 int(bytes), bytes.partition/split, slicing, binascii.a2b_base64/b2a_base64 as modelled in "
    "C23/Model.lean (each has its own correspondence stream: pyint, b64enc, b64dec)",
    "escape.utf8 of the *secret* is applied by the harness before the model sees it; utf8 of the name and of a value "
    "given as str IS modelled (utf8Cp; utf8? = None on a lone surrogate = UnicodeEncodeError; PyVal = bytes | str)",
]
ASSUMPTIONS = [
    "*secrets* given as str contain Unicode scalar values only (configuration, like min_version; create_signed_value "
    "raises on such a secret too).  Names and values are arbitrary str (lone surrogates included and generated) or bytes",
    "clock() returns whole seconds >= 0 (int or integral float) and max_age_days is a multiple of 1/4 day, so the "
    "float arithmetic in the expiry test is exact; 'creation time' means the embedded integer timestamp",
    "key versions are non-negative ints; secrets are str/bytes or dict[int, str|bytes]; keys in one case never differ "
    "only by trailing NUL bytes (HMAC zero-pads keys, which is not Tornado's doing)",
    "min_version > 2 raises ValueError by design (configuration error) and is excluded from the 'never raises' clause",
    "strings carrying a correct HMAC that create_signed_value did not issue (made with the key) are used for the "
    "correspondence and for 'never raises' only: 'returns None for any other input' is read modulo unforgeability of H",
]
RULE = ("values presented as bytes or as str (ASCII, surrogateescape-decoded, with a code point of / next to the surrogate "
        "block inserted or replaced), names with such code points; "
        "create+decode cases over both formats and both secret forms with one mutation each (every single-byte "
        "delete/replace/insert position of base values is enumerated), arbitrary and grammar-shaped strings, "
        "key-holder-crafted strings with valid signatures, v1 boundary-shift splices; non-trivial = the case reaches "
        "signature verification (3 v1 parts / 4 parsable v2 fields) or decodes to a value")
EXHAUSTIVE = {"quick": False, "thorough": False}
CLAUSES = {
    "decoding with the same secret and name within max_age_days returns the original value": "roundtrip (roundtrip_v1, roundtrip_v2, created_version, spec_accept_sound)",
    "any modification of a signed value -> None": "decode_sound, decode_sound_v2/_v1, accepted_shape_v2 + v2_tosign_injective (modulo H); tie: every single-byte edit enumerated; v1: v1_tosign_injective_refuted (known finding D5)",
    "a different name -> None": "wrong_name_rejected_v2; decode_sound_v1 (modulo H)",
    "a different secret or key version -> None": "decode_sound_v2/_v1 (accepted => signature made with the verifier's key for that version)",
    "an expired timestamp -> None": "expired_rejected",
    "a version below min_version -> None": "min_version_respected",
    "decoding never raises": "decodeIn_total (caller level: bytes or any str incl. lone surrogates, any str name) over decode_total; "
                             "both hold because the model gives every raising Python operation an explicit branch - WHICH operations "
                             "can raise is model fidelity, i.e. the tie (arb / crafted / scan / sur streams, Uncaught:* compared exactly)",
    "a value or name that cannot be UTF-8 encoded -> None": "decodeIn_unencodable (fixed code; decodeInUnfixed_raised states the former defect)",
    "base64 payload encoding is invertible": "b64_roundtrip",
}
PARALLEL = True
CASE_TIMEOUT = 60
LEVEL_NOTE = "HMAC is a parameter; 'unforgeable' is stated as decode_sound + injectivity of the signed encoding"

DAY = 86400

# ------------------------------------------------------------------ value pools
NAMES = ["n", "name", "user", "a", "", "a|b", "a:b", "12", "3:abc", "é", "naïve-日本", "a\nb", "x" * 40, "\x00", "𝄞k", " sp "]
ASCII_NAMES = ["n", "name", "user", "a", "sid", "x" * 40]
VALUES = [b"", b"v", b"val", b"hello world", b"\x00\xff\x10", "päyload".encode(), b"\xd7\x6d\xf8", b"\xd7\x6d\xf8" * 2,
          b"ABC\xd7\x6d\xf8", b"1234567890", b"a|b|c", b"2|1:0|", b"x" * 57, b"y" * 300, b"ab", b"abcd", b"\n"]
KEYS = ["k", "secret", "sécret", "K" * 70, "0", "other", "k2", "key-3"]
# code points around the surrogate block: D7FF / E000 are the encodable neighbours, D800..DFFF are not encodable;
# 0x1F600 is what the pair D83D+DE00 would mean (encodable as ONE code point, not as two)
SUR_CPS = [0xD800, 0xDBFF, 0xDC00, 0xDFFF, 0xDC80, 0xD83D]
NEAR_CPS = [0xD7FF, 0xE000, 0xE9, 0x10FFFF, 0x1F600, 0x7F, 0x80]


def _kb(k):
    return k.encode("utf-8") if isinstance(k, str) else k


# ------------------------------------------------------------------ HMAC recorder (real digests, captured)
class _Rec:
    def __init__(self, log, key, msg, digestmod):
        self._h = _hmac.new(key, msg, digestmod)
        self._log, self._key, self._buf = log, bytes(key), bytearray(msg or b"")
        self._which = 1 if digestmod is hashlib.sha1 else 2 if digestmod is hashlib.sha256 else 9

    def update(self, b):
        self._buf += b
        self._h.update(b)

    def hexdigest(self):
        d = self._h.hexdigest()
        self._log.append([self._which, self._key.hex(), bytes(self._buf).hex(), d.encode().hex()])
        return d

    def digest(self):
        d = self._h.digest()
        self._log.append([self._which, self._key.hex(), bytes(self._buf).hex(), d.hex().encode().hex()])
        return d


class _HmacShim:
    """stands in for the `hmac` module inside tornado.web only: real HMAC, every (key, message, digest) recorded"""
    def __init__(self):
        self.log = []

    def new(self, key, msg=None, digestmod=None):
        return _Rec(self.log, key, msg, digestmod)

    def digest(self, key, msg, digest):
        # one-shot form (not used by the present code; a rewrite that compares raw digests must not look like a crash)
        d = _hmac.digest(key, msg, digest)
        which = 1 if digest in (hashlib.sha1, "sha1") else 2 if digest in (hashlib.sha256, "sha256") else 9
        self.log.append([which, bytes(key).hex(), bytes(msg).hex(), d.hex().encode().hex()])
        return d

    compare_digest = staticmethod(_hmac.compare_digest)


_SHIM = None


def _web():
    global _SHIM
    from tornado import web
    if _SHIM is None or web.hmac is not _SHIM:
        _SHIM = _HmacShim()
        web.hmac = _SHIM
        import logging
        logging.getLogger("tornado.general").disabled = True     # "Invalid cookie signature …" warnings
    _SHIM.log = []
    return web, _SHIM


def _table(shim):
    seen, out = set(), []
    for e in shim.log:
        t = tuple(e)
        if t not in seen:
            seen.add(t)
            out.append(e)
    return out


# ------------------------------------------------------------------ helpers shared by generator and runner
def _secret_obj(sec):
    """JSON secret -> python object: ["s", key] | ["b", hexkey] | ["d", [[ver, key], …]]"""
    if sec[0] == "s":
        return sec[1]
    if sec[0] == "b":
        return bytes.fromhex(sec[1])
    return {int(k): v for k, v in sec[1]}


def _secret_wire(sec):
    if sec[0] == "s":
        return _kb(sec[1])
    if sec[0] == "b":
        return bytes.fromhex(sec[1])
    return [[int(k), _kb(v)] for k, v in sec[1]]


def _sign_key(sec, kv):
    """effective signing key bytes (None if the call is mis-configured)"""
    if sec[0] == "d":
        d = {int(k): v for k, v in sec[1]}
        if kv is None or kv not in d:
            return None
        return _kb(d[kv])
    return _secret_wire(sec)


def _mutate(s, m):
    k = m[0]
    if k == "none":
        return s
    if k == "rep":
        if not s:
            return s
        i = m[1] % len(s)
        return s[:i] + bytes([m[2]]) + s[i + 1:]
    if k == "ins":
        i = m[1] % (len(s) + 1)
        return s[:i] + bytes([m[2]]) + s[i:]
    if k == "del":
        if not s:
            return s
        i = m[1] % len(s)
        return s[:i] + s[i + 1:]
    if k == "swap":
        f = s.split(b"|")
        i, j = m[1] % len(f), m[2] % len(f)
        f[i], f[j] = f[j], f[i]
        return b"|".join(f)
    if k == "trunc":
        return s[:len(s) - (m[1] % (len(s) + 1))]
    if k == "app":
        return s + bytes.fromhex(m[1])
    if k == "upper":
        return s[:-40].__add__(s[-40:].upper()) if len(s) >= 40 else s.upper()
    if k == "v1name":   # D5: boundary shift between name and value (applied together with name + b64[:k])
        return s[m[1]:]
    if k == "v1ts":     # D5: boundary shift between value and timestamp: move the last 4 (digit) chars of the b64
        p = s.split(b"|")
        if len(p) != 3 or len(p[0]) < 4:
            return s
        return p[0][:-4] + b"|" + p[0][-4:] + p[1] + b"|" + p[2]
    raise AssertionError(m)


def _exc(e):
    return "Uncaught:" + type(e).__name__


def _present(case, string):
    """how the byte string `string` is handed to decode_signed_value: as bytes, or as a `str`.
    str_value: False = bytes | True = str when ASCII (else bytes) | ["sesc"] = str via utf-8/surrogateescape (undecodable
    bytes become the lone surrogates U+DC80..U+DCFF) | ["ins", pos, cp] / ["rep", pos, cp] = that str with one code point
    inserted / replaced | ["pair", pos] = a high and a low surrogate inserted as TWO code points."""
    sv = case.get("str_value")
    if not sv:
        return string
    if sv is True:
        try:
            return string.decode("ascii")
        except UnicodeDecodeError:
            return string
    t = string.decode("utf-8", "surrogateescape")
    if sv[0] == "sesc":
        return t
    i = sv[1] % (len(t) + 1)
    if sv[0] == "ins":
        return t[:i] + chr(sv[2]) + t[i:]
    if sv[0] == "rep":
        return t[:i] + chr(sv[2]) + t[i + 1:]
    if sv[0] == "pair":
        return t[:i] + "\ud83d\ude00" + t[i:]
    raise AssertionError(sv)


def _enc(x):
    """utf8() of a presented value / a name: bytes, or None when it cannot be encoded (lone surrogate)"""
    if isinstance(x, bytes):
        return x
    try:
        return x.encode("utf-8")
    except UnicodeEncodeError:
        return None


def _hx(b):
    return None if b is None else (b if isinstance(b, str) else bytes(b).hex())


def _clock(now, as_float):
    return (lambda: float(now)) if as_float else (lambda: now)


# ------------------------------------------------------------------ generators
def _rand_secret(rng):
    k = rng.random()
    if k < 0.55:
        return ["s", rng.choice(KEYS)]
    if k < 0.65:
        return ["b", rng.choice([b"k", b"\xff\x00k", b"\x00x", b"bytes-key"]).hex()]
    n = rng.choice([1, 2, 3])
    vers = rng.sample([0, 1, 2, 7, 10, 123], n)
    return ["d", [[v, rng.choice(KEYS)] for v in vers]]


def _related_secret(rng, sec, kv):
    """the secret the verifier holds, in a chosen relation to the signer's"""
    k = rng.random()
    if k < 0.62:
        return sec
    key = _sign_key(sec, kv)
    keytxt = None
    if sec[0] == "s":
        keytxt = sec[1]
    elif sec[0] == "d" and kv is not None:
        keytxt = dict((int(a), b) for a, b in sec[1]).get(kv)
    other = rng.choice([x for x in KEYS if x != keytxt])
    if k < 0.72:
        return ["s", other]
    if k < 0.80 and keytxt is not None:
        return ["s", keytxt]                         # single key equal to the signing key
    if k < 0.88 and keytxt is not None:
        return ["d", [[kv or 0, keytxt], [99, other]]]   # dictionary holding the signing key at that version
    if k < 0.94:
        return ["d", [[kv or 0, other]]]             # same version, different key
    return ["d", [[(kv or 0) + 1, keytxt or other]]]  # version missing


def _edge_now(rng, t, max_age_s, version):
    edges = [t, t, t + 1, t + max_age_s - 1, t + max_age_s, t + max_age_s + 1, t - 1, t + rng.randint(0, max(0, max_age_s)),
             t + max_age_s + rng.randint(2, 10 ** 6)]
    if version == 1:
        edges += [t - 31 * DAY - 1, t - 31 * DAY, t - 31 * DAY + 1]
    return max(0, rng.choice(edges))


MAX_AGE_DAYS = [31, 31, 31, 1, 0, 0.5, 0.25, 365, 7, -1]
INTERESTING_BYTES = [0x7c, 0x3a, 0x30, 0x31, 0x61, 0x0a, 0xff, 0x20, 0x3d, 0x2d, 0x5f, 0x00]


def _rand_mut(rng):
    k = rng.random()
    if k < 0.30:
        return ["none"]
    if k < 0.45:
        return ["rep", rng.randrange(1 << 20), rng.choice(INTERESTING_BYTES + [rng.randrange(256)])]
    if k < 0.60:
        return ["ins", rng.randrange(1 << 20), rng.choice(INTERESTING_BYTES + [rng.randrange(256)])]
    if k < 0.72:
        return ["del", rng.randrange(1 << 20)]
    if k < 0.82:
        return ["swap", rng.randrange(8), rng.randrange(8)]
    if k < 0.88:
        return ["trunc", rng.randrange(1 << 20) if rng.random() < 0.5 else rng.choice([1, 2, 40, 64, 65])]
    if k < 0.96:
        return ["app", rng.choice([b"\n", b"0", b"|", b" ", b"a", b"\x00", b"|0:|"]).hex()]
    return ["upper"]


def _rt_case(rng, version=None, muts=None):
    version = version if version is not None else rng.choice([1, 2, 2, 2])
    sec = _rand_secret(rng)
    if version == 1 and sec[0] == "d" and rng.random() < 0.9:
        sec = ["s", rng.choice(KEYS)]
    kv = None
    if sec[0] == "d":
        vers = [v for v, _ in sec[1]]
        kv = rng.choice(vers) if rng.random() < 0.95 else rng.choice([None, 55])
    elif rng.random() < 0.2:
        kv = rng.choice([0, 1, 7, 4300])
    if version != 1 and rng.random() < 0.01:
        version = 3
    t = rng.choice([1, 1, 2, 9, 10, 99, 12345, 999999999, 1000000000, 1700000000, 1700000000, 4102444800, 0, 10 ** 12])
    if rng.random() < 0.4:
        t = rng.randint(1, 2 * 10 ** 9)
    mad = rng.choice(MAX_AGE_DAYS)
    max_age_s = int(mad * DAY)
    name = rng.choice(NAMES) if rng.random() < 0.6 else rng.choice(ASCII_NAMES)
    dname = name if rng.random() < 0.85 else rng.choice([n for n in NAMES if n != name])
    value = rng.choice(VALUES) if rng.random() < 0.7 else bytes(rng.randrange(256) for _ in range(rng.randint(0, 40)))
    return {"kind": "rt", "secret": sec, "name": name, "value": value.hex(), "version": version, "t": t, "kv": kv,
            "dsecret": _related_secret(rng, sec, kv), "dname": dname,
            "muts": muts if muts is not None else [_rand_mut(rng)],
            "max_age_days": mad, "now": _edge_now(rng, t, max_age_s, version),
            "min_version": rng.choice([None, None, 1, 2, 2, 0] + ([3] if rng.random() < 0.05 else [])),
            "fclock": rng.random() < 0.5, "str_value": rng.random() < 0.3}


def _scan_cases(rng, tier):
    """every single-byte delete / replace / insert position of a few base values (both formats, both secret forms)"""
    bases = [
        dict(version=2, secret=["s", "k"], kv=None, name="n", value=b"val"),
        dict(version=1, secret=["s", "k"], kv=None, name="n", value=b"val"),
        dict(version=2, secret=["d", [[0, "k"], [1, "k2"]]], kv=1, name="user", value=b"\xd7\x6d\xf8"),
        dict(version=1, secret=["s", "secret"], kv=None, name="a", value=b"\xd7\x6d\xf8"),
    ]
    if tier == "thorough":
        bases += [
            dict(version=2, secret=["s", "sécret"], kv=7, name="é|1:", value="päy".encode()),
            dict(version=2, secret=["d", [[10, "K" * 70]]], kv=10, name="", value=b""),
        ]
    for bi, b in enumerate(bases):
        L = 200   # longer than every base value; positions are taken modulo the real length
        reps = INTERESTING_BYTES if not (tier == "thorough" and bi < 4) else list(range(256))
        muts = [["none"]]
        n = {1: 60, 2: 100}[b["version"]] + 2 * len(b["name"].encode()) + 12
        for pos in range(n):
            muts.append(["del", pos])
            for x in reps:
                muts.append(["rep", pos, x])
                muts.append(["ins", pos, x])
        for i in range(7):
            for j in range(i + 1, 7):
                muts.append(["swap", i, j])
        # one case per chunk of mutations keeps the lines short and the work parallel
        for off in range(0, len(muts), 64):
            yield {"kind": "rt", "secret": b["secret"], "name": b["name"], "value": b["value"].hex(),
                   "version": b["version"], "t": 1700000000, "kv": b["kv"], "dsecret": b["secret"], "dname": b["name"],
                   "muts": muts[off:off + 64], "max_age_days": 31, "now": 1700000000 + 5, "min_version": None,
                   "fclock": False, "str_value": False, "scan": True}


INT_TOKENS = ["0", "1", "2", "3", "4", "10", "+1", "-1", "-2", "-3", "-5", " 1", "1 ", "01", "1_0", "_1", "1_", "1__0", "",
              "\t2\n", "\x0b3\x0c", "٣", "１", "1.0", "1e1", "0x1", "9" * 30, "0" * 4300, "0" * 4301,
              "9" * 4300, "9" * 4301, "-" + "9" * 4301, "1" + "_1" * 4299, "1" + "_1" * 4300, "+", "-", "+-1", "--1", " ", "1\x00", "4"]


def _rand_bytes(rng, n, alphabet=None):
    if alphabet:
        return bytes(rng.choice(alphabet) for _ in range(n))
    return bytes(rng.randrange(256) for _ in range(n))


B64ISH = b"ABCDabcd0123+/=="


def _arb_string(rng):
    k = rng.random()
    if k < 0.12:
        return _rand_bytes(rng, rng.randint(0, 40))
    if k < 0.24:
        return _rand_bytes(rng, rng.randint(0, 30), b"0123456789|:-+ _\n2a=")
    if k < 0.34:   # version prefixes
        pre = rng.choice(["1", "2", "3", "02", "20", "999", "1000", "2" * 4301, "9" * 5, "0", "-2", "２", " 2", "2 ", ""])
        return pre.encode() + rng.choice([b"|", b"", b"||", b":"]) + _rand_bytes(rng, rng.randint(0, 20), b"0123456789|:ab\n")
    if k < 0.46:   # v1-shaped
        parts = [_rand_bytes(rng, rng.choice([0, 4, 8, 3]), B64ISH), rng.choice(INT_TOKENS).encode(),
                 _rand_bytes(rng, rng.choice([0, 40, 39, 64]), b"0123456789abcdef")]
        if rng.random() < 0.2:
            parts.append(b"x")
        if rng.random() < 0.1:
            parts.pop()
        return b"|".join(parts)
    # v2-shaped: "2|" then 4 fields "len:data|" with (mostly) consistent lengths, then a signature
    out = [b"2|"]
    for _ in range(rng.choice([4, 4, 4, 4, 3, 5, 0, 1])):
        data = rng.choice([b"0", b"1", b"1700000000", b"n", b"name", b"dmFs", b"", "é".encode(), b"a|b", b"12:ab", _rand_bytes(rng, rng.randint(0, 6))])
        r = rng.random()
        if r < 0.6:
            ln = str(len(data))
        elif r < 0.75:
            ln = rng.choice(["+%d", " %d", "%d ", "0%d", "%d_", "-%d", "%d\n"]) % len(data)
        elif r < 0.85:
            ln = str(len(data) + rng.choice([-1, 1, 2, 100]))
        else:
            ln = rng.choice(INT_TOKENS)
        out.append(ln.encode("utf-8") + rng.choice([b":", b":", b":", b":", b"", b"::"]) + data + rng.choice([b"|", b"|", b"|", b"|", b"", b":"]))
    out.append(_rand_bytes(rng, rng.choice([64, 64, 0, 1, 63, 65, 40]), b"0123456789abcdef"))
    if rng.random() < 0.1:
        out.append(rng.choice([b"\n", b"|", b" "]))
    return b"".join(out)


def _arb_case(rng):
    return {"kind": "arb", "dsecret": _rand_secret(rng), "dname": rng.choice(NAMES), "string": _arb_string(rng).hex(),
            "max_age_days": rng.choice(MAX_AGE_DAYS), "now": rng.choice([0, 1, 1700000000, 1700000005, 5, 10 ** 10]),
            "min_version": rng.choice([None, None, 1, 2, 0]), "fclock": rng.random() < 0.5, "str_value": False}


def _neg_layout(rng, data, tail):
    """a field read through a NEGATIVE length: `rest[:n]`, `rest[n:n+1] == b'|'`, `rest[n+1:]` with n < -1.
    rest = data + b'|' + tail', n = -(len(tail') + 1); the continuation is tail' (must itself parse)."""
    return ("-%d" % (len(tail) + 1)).encode() + b":" + data + b"|" + tail


def _crafted_case(rng):
    """strings with a VALID signature that create_signed_value never issues (made with the key)"""
    key = rng.choice(KEYS)
    name = rng.choice(NAMES)
    nameb = name.encode("utf-8")
    now = 1700000005
    fmt = rng.random()
    if fmt < 0.35:   # v1
        b64 = rng.choice([b"dmFs", b"dmF", b"dm=Fs", b"d m\nFs", b"dmFs====", b"dmFs=dmFs", b"=dmFs", b"d", b"dmFsd", b"", b"1234", b"dm", b"dm=", b"dm==", b"dm==dmFs", b"\xff\xfedmFs", _rand_bytes(rng, rng.randint(0, 12), B64ISH + b" \n-_")])
        ts = rng.choice(["1700000000", "1700000001", " 1700000000", "+1700000000", "1_700_000_000", "01700000000", "abc", "", "17e8", "1700000000 ",
                         "-5", "0", str(now + 31 * DAY), str(now + 31 * DAY + 1), str(now - 31 * DAY), str(now - 31 * DAY - 1), "9" * 4301, "١٧"]).encode("utf-8")
        sig = _hmac.new(_kb(key), nameb + b64 + ts, hashlib.sha1).hexdigest().encode()
        if rng.random() < 0.1:
            sig = sig.upper()
        s = b64 + b"|" + ts + b"|" + sig
        sec = ["s", key]
    else:
        kvs = rng.choice(["0", "0", "1", "+0", " 0", "00", "-1", "x", "", "0_0", "9" * 4301, "7"])
        ts = rng.choice(["1700000000", "1700000001", " 1700000000", "+1700000000", "1_700_000_000", "01700000000", "abc", "", "-5", "0",
                         str(now - 31 * DAY), str(now - 31 * DAY - 1), "9" * 4301, "1700000000\n"])
        b64 = rng.choice([b"dmFs", b"dmF", b"dm=Fs", b"d m\nFs", b"dmFs====", b"dmFs=dmFs", b"=dmFs", b"d", b"", b"dm==", b"dm=", b"\xff\xfedmFs", _rand_bytes(rng, rng.randint(0, 12), B64ISH + b" \n-_|:")])
        fields = [kvs.encode(), ts.encode(), nameb if rng.random() < 0.9 else nameb + b"x", b64]

        def ff(d):
            r = rng.random()
            ln = len(d)
            if r < 0.7:
                return b"%d:%s" % (ln, d)
            return (rng.choice(["+%d", " %d", "%d ", "0%d", "%d\t", "%d_0" if False else "0_%d"]) % ln).encode() + b":" + d
        body = b"2|" + b"|".join(ff(f) for f in fields) + b"|"
        if rng.random() < 0.15:
            # negative length on the value field: rest = b64 + "|" + sig(64)  →  n = -(64 + 1)
            body = b"2|" + b"|".join(ff(f) for f in fields[:3]) + b"|" + b"-65:" + b64 + b"|"
        sig = _hmac.new(_kb(key), body, hashlib.sha256).hexdigest().encode()
        s = body + sig
        if rng.random() < 0.08:
            s += rng.choice([b"\n", b" ", b"0"])
        try:
            kvi = int(kvs)
        except ValueError:
            kvi = 0
        sec = ["s", key] if rng.random() < 0.6 else ["d", [[kvi, key], [5, "other"]]]
    return {"kind": "crafted", "dsecret": sec, "dname": name, "string": s.hex(),
            "max_age_days": rng.choice([31, 31, 0, 1, 365]), "now": now, "min_version": rng.choice([None, 1, 2]),
            "fclock": rng.random() < 0.5, "str_value": False}


def _splice_case(rng, how):
    key = rng.choice(KEYS)
    name = rng.choice(ASCII_NAMES)
    if how == "v1name":
        value = rng.choice([b"ABCDEF", b"hello world!", b"0123456789ab"])
        k = rng.choice([4, 8])
        b64 = base64.b64encode(value)[:k].decode()
        t = rng.choice([1700000000, 12345, 5])
        return {"kind": "rt", "secret": ["s", key], "name": name, "value": value.hex(), "version": 1, "t": t, "kv": None,
                "dsecret": ["s", key], "dname": name + b64, "muts": [["v1name", k]], "max_age_days": 31, "now": t + 10,
                "min_version": None, "fclock": False, "str_value": False, "splice": how}
    value = rng.choice([b"ABC", b"hello!", b""]) + b"\xd7\x6d\xf8"      # b64 ends in "1234"
    t = rng.choice([5, 77, 12345])
    return {"kind": "rt", "secret": ["s", key], "name": name, "value": value.hex(), "version": 1, "t": t, "kv": None,
            "dsecret": ["s", key], "dname": name, "muts": [["v1ts"]], "max_age_days": 31, "now": int("1234" + str(t)) + 3,
            "min_version": None, "fclock": False, "str_value": False, "splice": how}


def _sur_name(rng, name):
    """`name` with one code point of / next to the surrogate block put in (front, middle, end), or such a code point alone"""
    cp = rng.choice(SUR_CPS) if rng.random() < 0.75 else rng.choice(NEAR_CPS)
    k = rng.random()
    if k < 0.15:
        return chr(cp)
    if k < 0.25:
        return name + "\ud83d\ude00"          # a high/low pair kept as two code points
    i = rng.choice([0, len(name), rng.randint(0, len(name))])
    return name[:i] + chr(cp) + name[i:]


def _rand_str_value(rng):
    k = rng.random()
    cp = rng.choice(SUR_CPS) if rng.random() < 0.7 else rng.choice(NEAR_CPS)
    if k < 0.25:
        return ["sesc"]
    if k < 0.65:
        return ["ins", rng.choice([0, 1, 2, 3, 1 << 20, rng.randrange(1 << 20)]), cp]
    if k < 0.9:
        return ["rep", rng.choice([0, 1, 2, rng.randrange(1 << 20)]), cp]
    return ["pair", rng.randrange(1 << 20)]


def _twist(rng, case):
    """the str -> bytes step: present the value as a `str` (possibly with lone surrogates) and / or look it up under a
    name with a lone surrogate; rarely sign under such a name (create_signed_value then raises)"""
    k = rng.random()
    if k < 0.45:
        case["str_value"] = _rand_str_value(rng)
    elif k < 0.8:
        case["dname"] = _sur_name(rng, case.get("name", case["dname"]))
    elif k < 0.93 or case["kind"] != "rt":
        case["str_value"] = _rand_str_value(rng)
        case["dname"] = _sur_name(rng, case.get("name", case["dname"]))
    else:
        case["name"] = _sur_name(rng, case["name"])
        if rng.random() < 0.5:
            case["dname"] = case["name"]
    return case


def _sur_cases(rng, tier):
    """systematic: {valid v1, valid v2 single key, valid v2 key dictionary, a few raw strings} x {name as signed, name with a
    surrogate / neighbour at front, end, alone} x {bytes, str, str with a surrogate / neighbour at front, middle, end, pair}"""
    bases = [
        dict(version=2, secret=["s", "k"], kv=None, name="n", value=b"val"),
        dict(version=1, secret=["s", "k"], kv=None, name="n", value=b"val"),
        dict(version=2, secret=["d", [[0, "k"], [1, "k2"]]], kv=1, name="usér", value=b"\xd7\x6d\xf8"),
    ]
    cps = [0xD800, 0xDFFF, 0xD7FF, 0xE000] + ([0xDBFF, 0xDC00, 0xDC80] if tier == "thorough" else [])
    presentations = [False, True, ["sesc"], ["pair", 2]]
    for cp in cps:
        presentations += [["ins", 0, cp], ["ins", 5, cp], ["ins", 1 << 20, cp], ["rep", 0, cp], ["rep", 7, cp]]
    few = [False, True, ["sesc"], ["pair", 2], ["ins", 0, 0xD800], ["ins", 1 << 20, 0xDFFF], ["rep", 0, 0xDC00],
           ["ins", 1, 0xD7FF], ["ins", 0, 0xE000]]
    if tier != "thorough":      # quick: a third of the presentations (front / middle / end, both block edges, both neighbours)
        presentations = few + [["ins", 5, 0xD800], ["rep", 7, 0xDFFF]]
    for b in bases:
        names = [b["name"], "\ud83d\ude00", b["name"] + "\ud83d\ude00"]
        for cp in cps:
            names += [b["name"] + chr(cp), chr(cp) + b["name"], chr(cp)]
        for dn in names:
            for pres in presentations:
                yield {"kind": "rt", "secret": b["secret"], "name": b["name"], "value": b["value"].hex(),
                       "version": b["version"], "t": 1700000000, "kv": b["kv"], "dsecret": b["secret"], "dname": dn,
                       "muts": [["none"], ["trunc", 1], ["app", "ff"]], "max_age_days": 31, "now": 1700000005,
                       "min_version": None, "fclock": False, "str_value": pres, "sur": True}
        # signing under a name that cannot be encoded: create_signed_value raises UnicodeEncodeError
        for cp in cps[:2]:
            yield {"kind": "rt", "secret": b["secret"], "name": b["name"] + chr(cp), "value": b["value"].hex(),
                   "version": b["version"], "t": 1700000000, "kv": b["kv"], "dsecret": b["secret"], "dname": b["name"],
                   "muts": [["none"]], "max_age_days": 31, "now": 1700000005, "min_version": None, "fclock": False,
                   "str_value": False, "sur": True}
    raws = [b"", b"abc", b"a|1|c", b"|1|", b"2|", b"2|1:0|", b"2|1:0|1:5|1:n|4:dmFs|" + b"0" * 64, b"\xed\xa0\x80", b"\xff", b"2|\xff"]
    for raw in raws:
        for sec in (["s", "k"], ["d", [[0, "k"]]]):
            for dn in ("n", "n\ud800", "\udfff"):
                for pres in (presentations if tier == "thorough" else few):
                    for mv in (None, 2, 3):
                        if mv == 3 and pres not in (False, ["ins", 0, 0xD800]):
                            continue
                        yield {"kind": "arb", "dsecret": sec, "dname": dn, "string": raw.hex(), "max_age_days": 31,
                               "now": 1700000005, "min_version": mv, "fclock": False, "str_value": pres, "sur": True}


def _prim_case(rng):
    k = rng.random()
    if k < 0.35:
        r = rng.random()
        if r < 0.5:
            s = rng.choice(INT_TOKENS).encode("utf-8")
        elif r < 0.8:
            s = _rand_bytes(rng, rng.randint(0, 8), b"0123456789_+- \t\n\x0b\x0c\r\x1c\x00a\xa0")
        else:
            s = rng.choice([b"", b" ", b"+", b"-"]) + str(rng.randint(0, 10 ** rng.randint(1, 30))).encode() + rng.choice([b"", b" ", b"\n", b"_", b"_1"])
        return {"kind": "prim", "op": "pyint", "arg": s.hex()}
    if k < 0.55:
        return {"kind": "prim", "op": "b64enc", "arg": _rand_bytes(rng, rng.choice([0, 1, 2, 3, 4, 5, 6, 7, 30, 31, 32, 100])).hex()}
    if k < 0.85:
        r = rng.random()
        if r < 0.3:
            s = base64.b64encode(_rand_bytes(rng, rng.randint(0, 9)))
            if rng.random() < 0.6:
                s = _mutate(s, _rand_mut(rng)) if s else s
        elif r < 0.8:
            s = _rand_bytes(rng, rng.randint(0, 14), B64ISH + b"==\n -_")
        else:
            s = _rand_bytes(rng, rng.randint(0, 12))
        return {"kind": "prim", "op": "b64dec", "arg": s.hex()}
    return {"kind": "prim", "op": "version", "arg": _arb_string(rng).hex()}


def gen_cases(rng, tier):
    n = {"quick": 2600, "thorough": 120000, "search": 4000}[tier]
    _web()      # import tornado.web in the parent, before the workers are forked
    if tier in ("quick", "thorough"):
        yield from _scan_cases(rng, tier)
        yield from _sur_cases(rng, tier)
        for how in ("v1name", "v1ts"):
            for _ in range(3):
                yield _splice_case(rng, how)
    for _ in range(n):
        k = rng.random()
        tw = (lambda c: _twist(rng, c)) if rng.random() < 0.15 else (lambda c: c)
        if k < 0.40:
            yield tw(_rt_case(rng))
        elif k < 0.62:
            yield tw(_arb_case(rng))
        elif k < 0.80:
            yield tw(_crafted_case(rng))
        elif k < 0.82:
            yield _splice_case(rng, rng.choice(["v1name", "v1ts"]))
        else:
            yield _prim_case(rng)


# ------------------------------------------------------------------ implementation runner
def _decode(web, shim, case, string):
    shim.log = []
    val = _present(case, string)
    kw = {}
    if case["min_version"] is not None:
        kw["min_version"] = case["min_version"]
    try:
        r = web.decode_signed_value(_secret_obj(case["dsecret"]), case["dname"], val,
                                    max_age_days=case["max_age_days"], clock=_clock(case["now"], case["fclock"]), **kw)
        dec = None if r is None else bytes(r).hex()
    except Exception as e:
        dec = _exc(e)
    try:
        kv = web.get_signature_key_version(val)
    except Exception as e:
        kv = _exc(e)
    return dec, kv, _table(shim)


def run_impl(case):
    kind = case["kind"]
    if kind == "prim":
        arg = bytes.fromhex(case["arg"])
        op = case["op"]
        try:
            if op == "pyint":
                return {"out": int(arg)}
            if op == "b64enc":
                e = base64.b64encode(arg)
                return {"out": e.hex(), "back": base64.b64decode(e) == arg}
            if op == "b64dec":
                return {"out": base64.b64decode(arg).hex()}
            if op == "version":
                web, _ = _web()
                return {"out": web._get_version(arg)}
        except ValueError:      # binascii.Error is a ValueError
            return {"out": None}
        raise AssertionError(case)
    web, shim = _web()
    if kind == "rt":
        try:
            created = web.create_signed_value(_secret_obj(case["secret"]), case["name"], bytes.fromhex(case["value"]),
                                              version=case["version"], clock=_clock(case["t"], case["fclock"]),
                                              key_version=case["kv"])
            created_hex = bytes(created).hex()
        except (AssertionError, KeyError, ValueError) as e:
            return {"created": type(e).__name__, "strings": [], "decoded": [], "keyver": [], "table": _table(shim), "tables": []}
        except Exception as e:
            return {"created": _exc(e), "strings": [], "decoded": [], "keyver": [], "table": _table(shim), "tables": []}
        strings = [_mutate(bytes(created), m) for m in case["muts"]]
    else:
        created_hex = None
        strings = [bytes.fromhex(case["string"])]
    ctable = _table(shim)
    decs, kvs, tables = [], [], []
    for s in strings:
        d, k, t = _decode(web, shim, case, s)
        decs.append(d)
        kvs.append(k)
        tables.append(t)
    return {"created": created_hex, "strings": [s.hex() for s in strings], "decoded": decs, "keyver": kvs,
            "table": ctable, "tables": tables}


# ------------------------------------------------------------------ model / spec requests
def _tbl(entries):
    return [[e[0], bytes.fromhex(e[1]), bytes.fromhex(e[2]), bytes.fromhex(e[3])] for e in entries]


def _max_age_s(case):
    return int(case["max_age_days"] * DAY)


def _minv(case):
    return 1 if case["min_version"] is None else case["min_version"]


DECODE_OP = "decode"


def model_requests(case, impl):
    if case["kind"] == "prim":
        return [line(ID, case["op"], bytes.fromhex(case["arg"]))]
    out = []
    if case["kind"] == "rt":
        out.append(line(ID, "create", _tbl(impl["table"]), _secret_wire(case["secret"]), case["name"], bytes.fromhex(case["value"]),
                        case["version"], case["t"], case["kv"]))
    for s, t in zip(impl["strings"], impl["tables"]):
        val = _present(case, bytes.fromhex(s))     # bytes, or a str (the wire carries lone surrogates as code points)
        out.append(line(ID, DECODE_OP, _tbl(t), _secret_wire(case["dsecret"]), case["dname"], val, _max_age_s(case), case["now"], _minv(case)))
        out.append(line(ID, "keyver", val))
    return out


def _val(reply):
    st, vals = parse_reply(reply)
    assert st == "ok", reply
    v = vals[0]
    if isinstance(v, Atom):
        return str(v)
    if isinstance(v, (bytes, bytearray)):
        return bytes(v).hex()
    return v


def model_result(case, replies):
    if case["kind"] == "prim":
        return _val(replies[0])
    i = 0
    res = {"created": None}
    if case["kind"] == "rt":
        res["created"] = _val(replies[0])
        i = 1
    rest = replies[i:]
    res["decoded"] = [_val(r) for r in rest[0::2]]
    res["keyver"] = [_val(r) for r in rest[1::2]]
    return res


def impl_view(case, impl):
    if case["kind"] == "prim":
        return impl["out"]
    return {"created": impl["created"], "decoded": impl["decoded"], "keyver": impl["keyver"]}


def _issued(case, impl):
    if case["kind"] != "rt" or impl["created"] is None or not re.fullmatch(r"[0-9a-f]*", impl["created"]):
        return None
    key = _sign_key(case["secret"], case["kv"])
    return [_secret_wire(case["secret"]), key, case["kv"] or 0, case["name"].encode("utf-8"), bytes.fromhex(case["value"]), case["t"], case["version"],
            bytes.fromhex(impl["created"])]


def spec_requests(case, impl):
    if case["kind"] in ("prim", "crafted"):
        return []
    iss = _issued(case, impl)
    out = []
    dn = _enc(case["dname"])
    for s in impl["strings"]:
        val = _enc(_present(case, bytes.fromhex(s)))
        if dn is None or val is None:
            # a name / value with no UTF-8 form: nothing was ever issued that this query could present
            # ("returns None for any other input") -> judged against an empty ledger = reject
            out.append(line(ID, "spec", None, _secret_wire(case["dsecret"]), b"", b"", _max_age_s(case), case["now"], _minv(case)))
        else:
            out.append(line(ID, "spec", iss, _secret_wire(case["dsecret"]), dn, val, _max_age_s(case), case["now"], _minv(case)))
    return out


def spec_violation(case, impl, replies):
    if case["kind"] == "prim":
        if case["op"] == "b64enc" and impl.get("back") is not True:
            return "b64decode(b64encode(x)) != x"
        return None
    config_error = case["min_version"] is not None and case["min_version"] > 2
    for i, d in enumerate(impl["decoded"]):
        if isinstance(d, str) and d.startswith("Uncaught") and not config_error:
            return "mut %d: decode_signed_value raised %s" % (i, d[9:])
        k = impl["keyver"][i]
        if isinstance(k, str) and k.startswith("Uncaught"):
            return "mut %d: get_signature_key_version raised %s" % (i, k[9:])
    if case["kind"] == "crafted" or config_error:
        return None
    for i, (d, r) in enumerate(zip(impl["decoded"], replies)):
        st, vals = parse_reply(r)
        assert st == "ok", r
        verdict = str(vals[0])
        if verdict == "any":
            continue
        if verdict == "reject" and d is not None:
            return "mut %d: must be rejected, decoded to %s" % (i, d)
        if verdict == "accept":
            want = bytes(vals[1]).hex()
            if d != want:
                return "mut %d: must decode to %s, got %r" % (i, want, d)
    return None


# ------------------------------------------------------------------ evidence helpers
def nontrivial(case, impl):
    if case["kind"] == "prim":
        return impl["out"] is not None
    if any(d is not None for d in impl["decoded"]):
        return True
    return any(len(t) >= 1 for t in impl["tables"])   # signature verification was reached


def stats(case, impl):
    out = ["kind:" + case["kind"] + (":" + case["op"] if case["kind"] == "prim" else "")]
    if case["kind"] == "prim":
        out.append("prim:%s:%s" % (case["op"], "none" if impl["out"] is None else "val"))
        return out
    if case["kind"] == "rt":
        out.append("create:v%s:%s" % (case["version"], "ok" if impl["strings"] else impl["created"]))
        out.append("secret:" + case["secret"][0] + ">" + case["dsecret"][0])
        for m in case["muts"]:
            out.append("mut:" + m[0])
    dn_ok = _enc(case["dname"]) is not None
    out.append("dname:" + ("encodable" if dn_ok else "lone-surrogate"))
    for sx, d in zip(impl["strings"], impl["decoded"]):
        pv = _present(case, bytes.fromhex(sx))
        pres = "bytes" if isinstance(pv, bytes) else "str" if _enc(pv) is not None else "str-lone-surrogate"
        out.append("present:" + pres)
        if pres == "str-lone-surrogate" or not dn_ok:
            out.append("unencodable->" + ("None" if d is None else d if d.startswith("Uncaught") else "value"))
    for d in impl["decoded"]:
        out.append("decoded:" + ("None" if d is None else d if d.startswith("Uncaught") else "value"))
    for k in impl["keyver"]:
        out.append("keyver:" + ("None" if k is None else "int" if isinstance(k, int) else k))
    for t in impl["tables"]:
        out.append("sig-check:" + ("reached" if t else "not-reached"))
    return out


def _name_class(n):
    if "\n" in n:
        return "newline"
    return "ascii" if all(ord(c) < 128 for c in n) else "non-ascii"


def signature(case, impl, why):
    if "raised" in why:
        exc = why.rsplit(" ", 1)[-1]
        s = bytes.fromhex(impl["strings"][int(re.search(r"mut (\d+)", why).group(1))]) if impl.get("strings") else b""
        shape = "v2-shaped" if s[:2] == b"2|" else "v1-shaped"
        return "uncaught/%s/%s/%s-secret/%s" % (exc, shape, case["dsecret"][0] if case["dsecret"][0] == "d" else "single",
                                               "valid-signature" if case["kind"] == "crafted" else case["kind"])
    if case["kind"] == "prim":
        return "prim/" + case["op"]
    i = int(re.search(r"mut (\d+)", why).group(1))
    mut = case["muts"][i][0] if case["kind"] == "rt" else "arb"
    if "must be rejected" in why:
        if mut in ("v1name", "v1ts"):
            return "accepted/v1-boundary-shift"
        return "accepted/%s/v%s/%s" % (mut, case.get("version", "?"), "same-name" if case.get("dname") == case.get("name") else "other-name")
    return "roundtrip/v%s/name-%s/%s" % (case.get("version"), _name_class(case.get("name", "")), mut)


def shrink(case):
    if case["kind"] == "rt" and len(case["muts"]) > 1:
        for m in case["muts"]:
            yield {**case, "muts": [m]}
    if case["kind"] in ("arb", "crafted"):
        s = bytes.fromhex(case["string"])
        for i in range(len(s)):
            yield {**case, "string": (s[:i] + s[i + 1:]).hex()}
    if case["kind"] == "rt":
        v = bytes.fromhex(case["value"])
        if len(v) > 1:
            yield {**case, "value": v[:len(v) // 2].hex()}


def neighbours(case):
    return []
