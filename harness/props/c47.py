"""C47 — the WSGI container presents requests and responses faithfully (tornado.wsgi.WSGIContainer)."""
import re
from core.wire import atom, line, parse_reply, Atom

ID = "C47"
LEAN_TARGETS = ["TornadoModel.C47.Props"]
THEOREMS = [
    "TornadoModel.C47.environ_total",
    "TornadoModel.C47.old_environ_raises",
    "TornadoModel.C47.host_port_explicit",
    "TornadoModel.C47.host_port_absent",
    "TornadoModel.C47.host_port_ipv6_literal",
    "TornadoModel.C47.environ_fields",
    "TornadoModel.C47.environ_eq_expected",
    "TornadoModel.C47.environ_final_fields",
    "TornadoModel.C47.addHeaders_dget_plain",
    "TornadoModel.C47.addHeaders_content_length",
    "TornadoModel.C47.addHeaders_keys_nodup",
    "TornadoModel.C47.environ_content_headers",
    "TornadoModel.C47.response_faithful",
    "TornadoModel.C47.wire_shape",
    "TornadoModel.C47.group_values",
    "TornadoModel.C47.http_var_name",
    "TornadoModel.C47.environ_http_vars",
    "TornadoModel.C47.environ_http_names",
    "TornadoModel.C47.content_headers_not_http",
    "TornadoModel.C47.body_join",
    "TornadoModel.C47.body_dropped",
]
TRUSTED = [
    "HTTPHeaders (`in`, `pop`, `items()`, `add`, `get_all`) as the ordered multimap of property C06, restated on pair lists",
    "HTTP1Connection.write_headers/finish for a response that carries Content-Length (never chunked): modelled by `wire`, "
    "compared byte for byte with the real connection on every case",
    "str.rpartition/isdigit/lstrip/upper/replace, urllib.parse.unquote_to_bytes as modelled (C31 `unquote`)",
]
ASSUMPTIONS = [
    "requests are those the HTTP server accepts (C01): the model starts from the HTTPServerRequest the container receives "
    "(method, uri, version, host, protocol, remote_ip, headers.get_all(), body), snapshotted in WSGIContainer.__call__",
    "the WSGI application is PEP 3333 compliant: status is '<digits> <reason>', header names are tokens and values valid "
    "field values, no hop-by-hop headers (Connection, Transfer-Encoding), a Content-Length it sets equals the body length; "
    "final status codes (>= 200)",
    "PATH_INFO is specified for ASCII request targets only (a raw non-ASCII byte in the target is UTF-8 re-encoded by "
    "unquote_to_bytes(str); observed, reported in docs, outside the property's domain: RFC 3986 targets are ASCII)",
    "HTTP/1.1 requests with or without `Connection: close`, HTTP/1.0 requests without keep-alive; dummy executor",
]
RULE = ("requests built from a grammar (methods, escaped paths, queries, Host names/IPv4/IPv6 literals with absent/empty/"
        "zero-padded/long ports and malformed hosts, repeated and colliding headers, bodies, random segmentation) against WSGI apps "
        "returning generated statuses, header lists and bodies through write() and list/generator/closing iterables; "
        "non-trivial = the application ran and a response was parsed; distinct by canonical JSON")
EXHAUSTIVE = {"quick": False, "thorough": False}
CLAUSES = {
    "building the environ never raises": "environ_total (old rule: old_environ_raises)",
    "environ carries method, percent-decoded path, query string": "environ_eq_expected (the FINAL environ contains every entry of "
        "Spec.expected and no variable outside Spec.allowedKey: the two predicates the oracle applies) + environ_final_fields "
        "(per variable) + addHeaders_dget_plain (no request header can overwrite them); environ_fields is the step lemma. "
        "PATH_INFO: `percent-decoded` is C31's `unquote` on both sides (model = Spec here; tied to urllib by C31)",
    "host name and port as the CGI conventions require": "host_port_explicit + host_port_absent + host_port_ipv6_literal + "
        "environ_eq_expected / environ_final_fields (SERVER_NAME, SERVER_PORT in the final environ)",
    "content headers and other headers": "environ_eq_expected (CONTENT_TYPE, CONTENT_LENGTH, unambiguous HTTP_* present with the joined "
        "values; nothing else present) from environ_content_headers + addHeaders_content_length + http_var_name + environ_http_vars + "
        "environ_http_names + content_headers_not_http; addHeaders_keys_nodup (variable names stay distinct) "
        "(headers whose HTTP_* name collides with a differently spelled header: last one wins in the model, "
        "tie only: correspondence; the oracle `Spec.expected` skips them)",
    "status, headers and body reach the client unchanged apart from the three defaults":
        "response_faithful + group_values + body_join + body_dropped + wire_shape; tie only: the wire bytes themselves "
        "(exact comparison with HTTP1Connection, oracle Spec.faithful on the parsed response)",
}
PARALLEL = True
CASE_TIMEOUT = 120

METHODS = ["GET", "GET", "GET", "POST", "HEAD", "PUT", "DELETE", "OPTIONS"]
SEGS = ["a", "b", "x-y", "a.b", "_", "~", "a+b", "a;b=1", "@", "%41", "%2F", "%2f", "%zz", "%", "%4", "%e9", "%C3%A9", "%00", "%0A",
        "a%20b", "%25", ":", "a:b", "!$&'()*,"]
QUERIES = [None, None, "", "a=1", "a=1&b=%20", "x?y", "%zz", "a=b=c"]
NAMES = ["example.com", "a", "localhost", "127.0.0.1", "[::1]", "[2001:db8::1]", "EXAMPLE.com", "a-b.c_d", "xn--d1acufc.test", "[::ffff:1.2.3.4]"]
PORTS = [None, None, None, "", "80", "8080", "0", "0080", "65535", "443", "000", "99999999999999999999", "8"]
BAD_HOSTS = ["a:b", "::1", "a:8_0", "a:+80", "a:b:c", "[::1", "a::", ":", ":80", "a:-1", "1:2:3", "[::1]:8_0", "a:80:", "::"]
HDR_NAMES = ["X-Foo", "x-foo", "X_Foo", "Accept", "Content-Type", "content-type", "Cookie", "X-A-B", "User-Agent", "X-a_b", "X-A_B",
             "Accept-Language", "X-Real-Ip", "If-None-Match"]
HDR_VALUES = ["1", "a b", "text/plain", "x, y", "", "\xe9t\xe9", "a=1; b=2", "*/*", "W/\"abc\"", "a\tb"]
STATUSES = ["200 OK", "200 OK", "404 Not Found", "201 Created", "204 No Content", "304 Not Modified", "500 Internal Server Error",
            "599 Weird Thing", "200 ", "301 Moved Permanently", "418 I'm a teapot", "200 OK with  spaces"]
APP_HDR_NAMES = ["Content-Type", "content-type", "X-App", "x-app", "Set-Cookie", "Server", "ETag", "X-Empty", "Location", "SERVER",
                 "Cache-Control", "set-cookie"]
APP_HDR_VALUES = ["text/plain", "a=1; Path=/", "b=2", "", "mine/1.0", "\"abc\"", "/x?y=1", "no-cache", "\xe9", "a  b"]
CHUNKS = [b"", b"hello", b"a", b"\r\n", b"\x00\xff", b"0\r\n\r\n", b"HTTP/1.1 200 OK\r\n\r\n", b"x" * 70, b"\xe2\x82\xac"]


def _gen_case(rng, tier):
    method = rng.choice(METHODS)
    path = "/" + "/".join(rng.choice(SEGS) for _ in range(rng.randint(0, 3)))
    if rng.random() < 0.1:
        path += "/"
    if rng.random() < 0.04:
        path += "\xe9"                      # a raw non-ASCII byte in the request target
    query = rng.choice(QUERIES)
    version = "HTTP/1.1" if rng.random() < 0.85 else "HTTP/1.0"
    if rng.random() < 0.8:
        name, port = rng.choice(NAMES), rng.choice(PORTS)
        if port is not None and rng.random() < (0.02 if tier == "quick" else 0.04):
            port = "9" * rng.choice([4299, 4300, 4301, 5000])
        host = {"name": name, "port": port}
    elif version == "HTTP/1.0" and rng.random() < 0.5:
        host = {"absent": True}
    else:
        host = {"raw": rng.choice(BAD_HOSTS)}
    headers = []
    for _ in range(rng.choice([0, 1, 2, 3, 5])):
        headers.append([rng.choice(HDR_NAMES), rng.choice(HDR_VALUES)])
    body = b""
    if method in ("POST", "PUT") and rng.random() < 0.8:
        body = bytes(rng.randrange(256) for _ in range(rng.randint(0, 12)))
    close = version == "HTTP/1.1" and rng.random() < 0.2
    status = rng.choice(STATUSES)
    app_headers = [[rng.choice(APP_HDR_NAMES), rng.choice(APP_HDR_VALUES)] for _ in range(rng.choice([0, 1, 2, 3, 4]))]
    writes = [rng.choice(CHUNKS).hex() for _ in range(rng.choice([0, 0, 0, 1, 2]))]
    chunks = [rng.choice(CHUNKS).hex() for _ in range(rng.choice([0, 1, 1, 2, 3]))]
    total = sum(len(x) // 2 for x in writes + chunks)
    if rng.random() < 0.15:
        app_headers.insert(rng.randint(0, len(app_headers)), [rng.choice(["Content-Length", "content-length"]), str(total)])
    return {"kind": "wsgi", "method": method, "path": path, "query": query, "version": version, "host": host,
            "headers": headers, "body": body.hex(), "close": close, "seed": rng.randrange(1 << 30),
            "app": {"status": status, "headers": app_headers, "writes": writes, "chunks": chunks,
                    "iter": rng.choice(["list", "gen", "tuple", "closing"]), "late_start": rng.random() < 0.1}}


def gen_cases(rng, tier):
    n = {"quick": 2500, "thorough": 40000, "search": 3000}[tier]
    for _ in range(n):
        yield _gen_case(rng, tier)


# ------------------------------------------------------------------------------------------- implementation
def _host_text(h):
    if "raw" in h:
        return h["raw"]
    if "absent" in h:
        return None
    return h["name"] + ("" if h["port"] is None else ":" + h["port"])


def _request_bytes(case):
    target = case["path"] + ("" if case["query"] is None else "?" + case["query"])
    lines = ["%s %s %s" % (case["method"], target, case["version"])]
    ht = _host_text(case["host"])
    hdrs = list(case["headers"])
    pos = min(len(hdrs), case["seed"] % 3)
    if ht is not None:
        hdrs.insert(pos, ["Host", ht])
    body = bytes.fromhex(case["body"])
    if body or case["method"] in ("POST", "PUT"):
        hdrs.append(["Content-Length", str(len(body))])
    if case["close"]:
        hdrs.append(["Connection", "close"])
    for k, v in hdrs:
        lines.append("%s: %s" % (k, v))
    return ("\r\n".join(lines) + "\r\n\r\n").encode("latin-1") + body


def _segments(data, seed):
    import random
    r = random.Random(seed)
    out, i = [], 0
    mode = r.choice(["whole", "bytes", "rand", "rand"])
    if mode == "whole":
        return [data]
    while i < len(data):
        n = 1 if mode == "bytes" and len(data) < 200 else r.randint(1, 40)
        out.append(data[i:i + n])
        i += n
    return out


class _Closing:
    def __init__(self, items, log):
        self.it, self.log = iter(items), log

    def __iter__(self):
        return self

    def __next__(self):
        return next(self.it)

    def close(self):
        self.log.append("close")


def _run_impl(case):
    import logging, warnings
    warnings.simplefilter("ignore")
    for n in ("tornado.access", "tornado.application", "tornado.general"):
        logging.getLogger(n).disabled = True
    import tornado
    from core import vloop, faketransport
    from tornado.httpserver import HTTPServer
    from tornado.wsgi import WSGIContainer
    app_spec = case["app"]
    calls, log = [], []

    def app(environ, start_response):
        rec = {"vars": [[k, v] for k, v in environ.items() if isinstance(v, str)],
               "input": environ["wsgi.input"].read().hex(),
               "flags": [list(environ.get("wsgi.version", ())), environ.get("wsgi.multithread"), environ.get("wsgi.multiprocess"),
                         environ.get("wsgi.run_once"), hasattr(environ.get("wsgi.errors"), "write")],
               "nonstr": sorted(k for k, v in environ.items() if not isinstance(v, str))}
        calls.append(rec)
        chunks = [bytes.fromhex(x) for x in app_spec["chunks"]]
        hdrs = [(k, v) for k, v in app_spec["headers"]]

        def start():
            w = start_response(app_spec["status"], hdrs)
            for x in app_spec["writes"]:
                w(bytes.fromhex(x))
        if app_spec["late_start"] and app_spec["iter"] == "gen" and not app_spec["writes"]:
            def g():
                start()
                yield from chunks
            return g()
        start()
        kind = app_spec["iter"]
        if kind == "list":
            return chunks
        if kind == "tuple":
            return tuple(chunks)
        if kind == "gen":
            return (c for c in chunks)
        return _Closing(chunks, log)

    class Snap(WSGIContainer):
        snap = None

        def __call__(self, request):
            Snap.snap = {"method": request.method, "uri": request.uri, "version": request.version, "host": request.host,
                         "https": request.protocol == "https", "remote_ip": request.remote_ip,
                         "headers": [list(p) for p in request.headers.get_all()], "body": (request.body or b"").hex()}
            return super().__call__(request)

    with vloop.installed() as lp:
        srv = HTTPServer(Snap(app))
        s = faketransport.FakeStream(lp.io_loop)
        srv.handle_stream(s, ("1.2.3.4", 5))
        lp.drain()
        for seg in _segments(_request_bytes(case), case["seed"]):
            s.feed(seg)
            lp.drain()
        lp.drain()
        wire = bytes(s.written)
        closed = s.closed()
    out = {"snap": Snap.snap, "calls": len(calls), "wire": wire.hex(), "closed": closed, "tver": tornado.version,
           "close_calls": len(log)}
    if calls:
        out["environ"] = calls[0]
    out["parsed"] = _parse_response(wire, case["method"])
    return out


_STATUS_RE = re.compile(rb"HTTP/1\.1 ([0-9]{3}) ([^\r\n]*)\Z")


def _parse_response(wire, method):
    """strict parse of exactly one response -> dict | error string"""
    if not wire:
        return "empty"
    head, sep, rest = wire.partition(b"\r\n\r\n")
    if not sep:
        return "no-header-end"
    lines = head.split(b"\r\n")
    m = _STATUS_RE.match(lines[0])
    if not m:
        return "bad-status-line"
    hdrs = []
    for ln in lines[1:]:
        k, c, v = ln.partition(b": ")
        if not c or not re.fullmatch(rb"[!#$%&'*+\-.^_`|~0-9A-Za-z]+", k) or b"\r" in v or b"\n" in v:
            return "bad-header-line"
        hdrs.append([k.decode("latin-1"), v.decode("latin-1")])
    code = int(m.group(1))
    low = [(k.lower(), v) for k, v in hdrs]
    if any(k == "transfer-encoding" for k, v in low):
        return "chunked"
    if method == "HEAD" or code in (204, 304) or 100 <= code < 200:
        body = rest
    else:
        cl = [v for k, v in low if k == "content-length"]
        if len(cl) != 1 or not cl[0].isdigit():
            return "bad-content-length"
        if len(rest) != int(cl[0]):
            return "body-length-mismatch:%d/%s" % (len(rest), cl[0])
        body = rest
    return {"code": code, "reason": m.group(2).decode("latin-1"), "headers": hdrs, "body": body.hex()}


def run_impl(case):
    """the runner's wall-clock watchdog also fires when the whole machine stalls (seen under load 40+: three trivial cases
    'hung' at the same moment).  A case that was interrupted without having used CPU time is run again once; a case that
    burnt CPU (a genuinely looping implementation) is reported as the Hang it is."""
    import time
    c0 = time.process_time()
    try:
        return _run_impl(case)
    except BaseException as e:
        if type(e).__name__ == "Hang" and time.process_time() - c0 < 10:
            return _run_impl(case)
        raise


# ------------------------------------------------------------------------------------------- model / spec
def _app_body(case):
    return b"".join(bytes.fromhex(x) for x in case["app"]["writes"] + case["app"]["chunks"])


def _app_pieces(case):
    """what `response.append` receives, in order: the write() arguments, then the chunks of the iterable (the model joins them)"""
    return [bytes.fromhex(x) for x in case["app"]["writes"] + case["app"]["chunks"]]


def model_requests(case, impl):
    if "harness_exc" in impl or impl.get("snap") is None:
        return []
    sn = impl["snap"]
    req = [sn["method"], sn["uri"], sn["version"], sn["host"], atom(bool(sn["https"])), sn["remote_ip"], sn["headers"],
           bytes.fromhex(sn["body"])]
    return [line(ID, "environ", req),
            line(ID, "respondj", case["method"], impl["tver"], case["app"]["status"], case["app"]["headers"], _app_pieces(case),
                 atom(bool(case["close"])))]


def _norm(v):
    if isinstance(v, Atom):
        return {"T": True, "F": False}.get(str(v), str(v))
    if isinstance(v, bytes):
        return v.hex()
    if isinstance(v, list):
        return [_norm(x) for x in v]
    return v


def _py(reply):
    st, vals = parse_reply(reply)
    assert st == "ok", reply
    return [_norm(v) for v in vals]


def model_result(case, replies):
    if not replies:
        return {"accepted": False}
    e, r = _py(replies[0]), _py(replies[1])
    out = {"accepted": True}
    if e[0] == "ok":
        out["environ"] = {"vars": e[1], "input": e[2]}
    else:
        out["environ"] = e[1]
    if e[0] == "ok" and r[0] == "ok":
        out["wire"] = r[5]
    else:
        out["wire"] = ""
    return out


def impl_view(case, impl):
    if impl.get("snap") is None:
        return {"accepted": False}
    out = {"accepted": True}
    if "environ" in impl:
        out["environ"] = {"vars": impl["environ"]["vars"], "input": impl["environ"]["input"]}
    else:
        out["environ"] = "raised"
    out["wire"] = impl["wire"]
    return out


def _sreq(case, impl):
    h = case["host"]
    if "raw" in h:
        # a malformed Host has no specified SERVER_NAME / SERVER_PORT; every other variable is still checked
        name, port = h["raw"], None
    else:
        name, port = ("127.0.0.1", None) if "absent" in h else (h["name"], h["port"])
    sn = impl["snap"]
    return [case["method"], case["path"], case["query"], name, port, atom(False), "1.2.3.4", case["version"], sn["headers"],
            bytes.fromhex(case["body"])]


def spec_requests(case, impl):
    if "harness_exc" in impl or impl.get("snap") is None or "environ" not in impl:
        return []
    lines = []
    sr = _sreq(case, impl)
    if sr is not None:
        lines.append(line(ID, "specenv", sr))
        lines.append(line(ID, "allowed", sr, [k for k, v in impl["environ"]["vars"]]))
    p = impl["parsed"]
    if isinstance(p, dict):
        lines.append(line(ID, "faithful", case["method"], case["app"]["status"], case["app"]["headers"], _app_body(case),
                          p["code"], p["reason"], p["headers"], bytes.fromhex(p["body"])))
    return lines


def spec_violation(case, impl, replies):
    if impl.get("snap") is None:
        return None                      # the server refused the request (C01's business)
    if impl["calls"] != 1:
        return "environ: the application was called %d times for an accepted request (wire=%r)" % (impl["calls"], impl["wire"][:80])
    env = impl["environ"]
    if env["flags"] != [[1, 0], False, True, False, True] or env["nonstr"] != sorted(
            ["wsgi.version", "wsgi.input", "wsgi.errors", "wsgi.multithread", "wsgi.multiprocess", "wsgi.run_once"]):
        return "environ: wsgi.* entries %r %r" % (env["flags"], env["nonstr"])
    if env["input"] != case["body"]:
        return "environ: wsgi.input does not hold the request body"
    i = 0
    if _sreq(case, impl) is not None:
        want, total = _py(replies[0])
        allowed = _py(replies[1])[0]
        i = 2
        have = dict((k, v) for k, v in env["vars"])
        ascii_target = all(ord(c) < 128 for c in case["path"])
        raw_host = "raw" in case["host"]
        for k, v in want:
            if k == "PATH_INFO" and not ascii_target:
                continue
            if raw_host and k in ("SERVER_NAME", "SERVER_PORT"):
                continue
            if have.get(k) != v:
                return "environ: %s should be %r, is %r" % (k, v, have.get(k))
        for (k, v), ok in zip(env["vars"], allowed):
            if not ok:
                return "environ: unexpected variable %s" % k
    p = impl["parsed"]
    if not isinstance(p, dict):
        return "response: %s" % p
    if _py(replies[i])[0] is not True:
        return "response: not what the application produced: %r" % (p,)
    if case["app"]["iter"] == "closing" and impl["close_calls"] != 1:
        return "response: close() of the iterable called %d times" % impl["close_calls"]
    return None


def nontrivial(case, impl):
    return impl.get("calls") == 1 and isinstance(impl.get("parsed"), dict)


def stats(case, impl):
    h = case["host"]
    out = ["method:" + case["method"], "version:" + case["version"],
           "host:" + ("raw" if "raw" in h else "absent" if "absent" in h else
                      ("ipv6" if h["name"].startswith("[") else "name") + ("+port" if h["port"] else "+emptyport" if h["port"] == "" else "")),
           "accepted:%s" % (impl.get("snap") is not None), "app-iter:" + case["app"]["iter"],
           "status:" + case["app"]["status"][:3]]
    p = impl.get("parsed")
    out.append("response:" + ("ok" if isinstance(p, dict) else str(p).split(":")[0]))
    if "%" in case["path"]:
        out.append("path:escaped")
    if isinstance(h.get("port"), str) and len(h["port"]) > 4000:
        out.append("host:port-over-4300-digits")
    names = [k.lower().replace("-", "_") for k, v in case["headers"]]
    if len(set(names)) < len(names):
        out.append("headers:repeated-or-colliding")
    return out


def signature(case, impl, why):
    head = why.split(":")[0]
    h = case["host"]
    if head == "environ" and impl.get("calls") == 0:
        hk = "raw" if "raw" in h else "absent" if "absent" in h else ("emptyport" if h["port"] == "" else "longport" if h["port"] and len(h["port"]) > 4000 else "other")
        return "environ/raises/host-" + hk
    if head == "environ":
        m = re.match(r"environ: (\S+)", why)
        return "environ/wrong/" + (m.group(1) if m else "?")
    if head == "response":
        return "response/%s/%s" % ("head" if case["method"] == "HEAD" else case["app"]["status"][:3], why.split(":")[1].strip().split(" ")[0])
    return head


def shrink(case):
    hs = case["headers"]
    for i in range(len(hs)):
        yield {**case, "headers": hs[:i] + hs[i + 1:]}
    app = case["app"]
    for key in ("headers", "writes", "chunks"):
        xs = app[key]
        for i in range(len(xs)):
            yield {**case, "app": {**app, key: xs[:i] + xs[i + 1:]}}
    if case["body"]:
        yield {**case, "body": ""}
    if case["query"] is not None:
        yield {**case, "query": None}
    if case["path"] != "/":
        yield {**case, "path": "/"}
    if case["close"]:
        yield {**case, "close": False}
    if app["iter"] != "list":
        yield {**case, "app": {**app, "iter": "list", "late_start": False}}
