"""C38 — IOLoop callbacks and timeouts run once, in order, and survive errors (tornado.ioloop / platform.asyncio).

Tie: bounded scheduling programs are interpreted against the real IOLoop (BaseAsyncIOLoop over core/vloop.py) and by the
Lean model (`C38 run`); the two event traces are compared exactly.  The oracle (`C38 spec`) evaluates the Lean trace
predicates of Spec.lean — the statements proved about the model — on the trace observed from the real loop.
run_sync is exercised with plain functions, native/generator coroutines and bare futures on an auto-advancing virtual
clock (and the function's future must be cancelled when TimeoutError is raised); `rsseq` cases run whole main programs
-- several run_sync calls, blocking pauses, plain start()s -- on ONE IOLoop and compare everything observable after each
operation (outcome, state of the awaited future, CancelledError seen by the coroutine, elapsed ticks, timers and handles
left on the loop, log records) with the loop machine of RunSync.lean (`C38 rsseq`); oracle `C38 rsspec`.
The thorough tier adds real threads calling add_callback on a real loop.  `xloop` cases (both tiers) run two or
three REAL event loops in their own threads and hand callbacks from one to the other (from a coroutine / callback /
timer / gen.coroutine / executor thread of loop A, from a plain thread, from the target loop itself) while the target
is blocked in select(); the branch taken by add_callback and the callbacks run are compared with `C38 xthread`
(XThread.lean) and the oracle is "each ran exactly once, in order, without anything else having to wake the loop".
"""
import asyncio, functools, logging, threading, datetime, time
from core.wire import atom, line, parse_reply, Atom

ID = "C38"
LEAN_TARGETS = ["TornadoModel.C38.Props"]
_T = "TornadoModel.C38."
THEOREMS = [_T + n for n in [
    "callback_once_fifo", "callback_all_ran_when_idle", "timeout_not_before_deadline", "removed_never_runs",
    "add_future_later_iteration",
    "timeout_order", "timeout_at_most_once", "timeout_pending_or_done", "timeout_all_accounted",
    "sim", "reach_view_inv", "invO_step", "invG_step", "invH_step", "sortT_perm", "sortT_sorted",
    "errors_logged", "errors_do_not_stop_loop", "loop_continues", "run_sync_outcomes", "run_sync_result",
    "run_sync_reraises", "run_sync_timeout", "run_sync_never_completing",
    "invA_step", "invB_step", "invD_step", "invE_step", "invF_step", "reach_inv",
    "add_callback_any_thread", "add_callback_path", "add_callback_needs_wakeup",
    "run_sync_timeout_after_cancel", "run_sync_leaves_no_timeout", "run_sync_machine_agrees_bounded",
    "run_sync_stale_stop_legacy", "run_sync_stale_stop_fixed",
    "RS.inv_exec", "RS.inv_start", "RS.runOps_ok", "RS.tsub_exec", "RS.tsub_start", "RS.runOps_noTmo",
]]
TRUSTED = [
    "asyncio's event loop as abstracted in C38/Model.lean: FIFO ready queue with per-iteration snapshot, timers moved to "
    "the ready queue in order of `when` (ties: any order — a parameter of every theorem), cancelled handles skipped, "
    "Future done-callbacks scheduled with call_soon in registration order",
    "OS threads: add_callback from another thread is an atomic enqueue (call_soon_threadsafe); exercised, not proved",
    "asyncio's self-pipe as abstracted in C38/XThread.lean: call_soon appends to the ready queue, call_soon_threadsafe "
    "appends and makes a select() without timeout return; a loop leaves such a select() only when woken",
    "IOLoop.time and the asyncio clock are the same clock (core/vloop.py patches both): clock drift is not modelled",
]
ASSUMPTIONS = [
    "programs: <= 15 scheduling calls, each callback body scheduled at most once, integer tick clock (exact in floats)",
    "run_sync: awaitables whose completion time is a fixed number of ticks; completion time == timeout counts as timeout "
    "(the timeout timer is armed first and asyncio fires equal deadlines in arming order when only two are armed)",
    "rsseq (several run_sync calls / pauses / plain start()s on ONE loop): functions are plain functions, native "
    "coroutines sleeping a fixed number of ticks, bare Futures resolved by call_later, and never-resolving Futures with "
    "a call_later(io.stop); <= 6 operations; the clock moves only when nothing is ready; equal deadlines fire in the order "
    "observed (a parameter of the model).  The oracle checks the outcome clause only while no explicit IOLoop.stop() asked "
    "for by the main program can still be pending (what a stray user stop does to later calls is outside the property) and "
    "accepts either outcome at an exact completion/timeout tie",
    "xloop: bursts of add_callback/spawn_callback calls are issued one burst at a time (one scheduling thread at a time), "
    "the target loop being blocked in select() (no timer, a timer an hour away, asyncio debug mode) or ticking every 20 ms; "
    "'did not run' is decided without a clock: a callback that has not run when a later raw call_soon_threadsafe probe "
    "has run never will, and one that ran only after that probe although nothing had written to the self-pipe would have "
    "waited for ever; a wait that expires although a wake-up was written is infrastructure trouble (exit 2), never a verdict",
]
RULE = ("random scheduling programs (add_callback/spawn_callback, add_timeout absolute+timedelta, call_later, call_at, "
        "remove_timeout, busy callbacks, add_future, future resolution, raising callbacks, returned failed futures), "
        "nested to depth 3; non-trivial = >=2 timeouts and (a removal of an armed timeout or an error ending or a late timer); "
        "xloop: 2-3 real event loops in threads (asyncio.run / IOLoop.start; idle, far timer, asyncio debug, 20 ms ticker), "
        "bursts of add_callback/spawn_callback (args, kwargs, closure) from a plain thread, an executor thread, or a "
        "callback / coroutine / IOLoop callback / timer / gen.coroutine of another loop or of the target loop itself, "
        "every calling context towards every target configuration in both tiers; non-trivial = a thread-safe enqueue happened; "
        "rsseq: main programs of 1-6 operations on one IOLoop (run_sync of raising / returning / coroutine / bare-Future / "
        "loop-stopping functions with timeouts 0..9 incl. ties, blocking pauses, plain start()s), a third of them built "
        "around 'an earlier call ended early with its timeout still in the future, later the loop runs past that deadline'; "
        "non-trivial = a call with a timeout on an awaitable")
EXHAUSTIVE = {"quick": False, "thorough": False}
CLAUSES = {
    "callbacks each run exactly once, in scheduling order per thread": "callback_once_fifo + callback_all_ran_when_idle "
        "(loop thread and pre-loop scheduling); from another thread / from code running on another event loop: "
        "add_callback_any_thread + add_callback_path (xloop cases tie the branch and the delivery to real loops in real "
        "threads, both tiers); many concurrent plain threads: tie only (thorough tier)",
    "timeouts run not before their deadline": "timeout_not_before_deadline",
    "timeouts never run after remove_timeout": "removed_never_runs",
    "timeouts run once, in deadline order": "timeout_order (non-decreasing effective deadline, any tie-break pref) + "
        "timeout_at_most_once + timeout_all_accounted (idle => every scheduled timeout ran or was removed; at every moment: "
        "timeout_pending_or_done); the same Spec predicates are evaluated on every observed trace",
    "exceptions are logged without stopping the loop": "errors_logged + errors_do_not_stop_loop + loop_continues",
    "add_future callbacks always run on a later iteration": "add_future_later_iteration",
    "run_sync returns the result, re-raises, or raises TimeoutError": "tie only for the general statement "
        "(run_sync_machine_outcomes_goal is a def, not a theorem): the loop machine of RunSync.lean (run_sync modelled "
        "statement by statement on a ready queue + timers + stop flag; sequences of calls on one loop) is compared exactly "
        "with the real IOLoop on every rsseq case (outcome, state of the awaited future, elapsed ticks, timers and handles "
        "left on the loop, log records) and Spec.rsAllowed is applied to the observed outcomes.  Proved: "
        "run_sync_machine_agrees_bounded (machine = table = Spec for one call, durations/timeouts < 5, by evaluation); "
        "run_sync_outcomes (+ _result/_reraises/_timeout/_never_completing) relate the stand-alone table runSync/loopPhase "
        "to Spec.runSyncSpec only (table against table)",
    "... after cancelling it": "run_sync_timeout_after_cancel (every main program, every tie-break: TimeoutError => "
        "timeout_callback had requested cancel() on the function's future and it was accepted); that the future IS cancelled "
        "when run_sync returns and that a started coroutine saw CancelledError: tie + oracle (timeout_not_cancelled, "
        "coroutine_not_cancelled) on the real loop",
    "(run_sync cleans up after itself)": "run_sync_leaves_no_timeout (no timeout_callback stays armed, whatever the "
        "outcome); no stop wrapper stays queued: run_sync_stale_stop_fixed/_legacy (witness of the repaired defect) + tie "
        "(handles left on the loop are compared after every operation)",
}
PARALLEL = False
CASE_TIMEOUT = 60
BASE = 1000.0
FORMS = ["abs", "td", "later", "at"]
ENDS = ["ok", "ok", "ok", "raise", "raise", "retFailed", "retOk", "retOther"]


# ------------------------------------------------------------------------------------------ generators
def _gen_prog(rng, maxcalls=15):
    bodies, names = [], [0]
    budget = [rng.randint(2, maxcalls)]

    def new_body(depth, top=False):
        idx = len(bodies)
        bodies.append(None)
        bodies[idx] = gen_body(depth)
        return idx

    def gen_acts(depth, is_main=False):
        acts, resolved = [], set()
        n = rng.randint(2, 7) if is_main else (rng.randint(0, 4) if depth < 3 else rng.randint(0, 1))
        for _ in range(n):
            if budget[0] <= 0:
                break
            budget[0] -= 1
            r = rng.random()
            if r < 0.27:
                acts.append(["addCb", new_body(depth + 1)])
            elif r < 0.60:
                form = rng.choice(FORMS)
                arg = rng.randint(-4, 14) if form in ("abs", "at") else rng.randint(-2, 8)
                name = names[0]
                names[0] += 1
                acts.append(["addTmo", form, arg, new_body(depth + 1), name])
            elif r < 0.72:
                acts.append(["rmTmo", rng.randint(0, max(0, names[0] - 1)) if rng.random() < 0.9 else names[0] + 3])
            elif r < 0.81:
                acts.append(["busy", rng.choice([1, 1, 2, 3, 5, 9])])
            elif r < 0.91:
                acts.append(["addFut", rng.randint(0, 2), new_body(depth + 1)])
            else:
                fid = rng.randint(0, 2)
                if is_main and fid in resolved:
                    continue
                resolved.add(fid)
                acts.append(["resolve", fid, rng.random() < 0.6])
        return acts

    def gen_body(depth):
        return [gen_acts(depth), rng.choice(ENDS)]

    main = gen_acts(0, is_main=True)
    return {"kind": "prog", "tbl": bodies, "main": main}


def _gen_runsync(rng):
    r = rng.random()
    if r < 0.12:
        func = [rng.choice(["raises", "retNone", "retValue"])]
    elif r < 0.85:
        d = rng.choice([None, 0, 0, 1, 2, 3, 5, 8]) if rng.random() < 0.9 else None
        func = ["awaitable", d, rng.random() < 0.6]
    else:
        func = ["stopsLoop", rng.choice([0, 1, 2, 4, 7])]
    timeout = rng.choice([None, 0, 1, 2, 3, 4, 5, 6, 9])
    if func[0] == "awaitable" and func[1] is None and timeout is None and rng.random() < 0.8:
        timeout = rng.randint(0, 5)
    return {"kind": "runsync", "func": func, "timeout": timeout,
            "variant": rng.choice(["coro", "gen", "future"])}


RS_DURS = [None, 0, 0, 1, 2, 3, 5, 8]
RS_TMOS = [None, 0, 1, 2, 3, 4, 5, 6, 9]


def _rs_fn(rng, allow_stop=True):
    r = rng.random()
    if r < 0.22:
        return [rng.choice(["raises", "raises", "retNone", "retValue"])]
    if r < 0.90 or not allow_stop:
        return [rng.choice(["coro", "fut"]), rng.choice(RS_DURS), rng.random() < 0.6]
    return ["stopsLoop", rng.choice([0, 1, 2, 4, 7])]


def _rs_call(rng, allow_stop=True):
    fn = _rs_fn(rng, allow_stop)
    t = rng.choice(RS_TMOS)
    if fn[0] in ("coro", "fut") and fn[1] is None and t is None:      # would never return
        t = rng.randint(0, 5)
    return ["call", fn, t]


def _gen_rsseq(rng):
    """a main program using ONE IOLoop for several run_sync calls (and blocking pauses / plain start()s in between)"""
    r = rng.random()
    if r < 0.25:                       # a single call (every function kind x timeout, ties included)
        ops = [_rs_call(rng)]
    elif r < 0.55:
        # an earlier call ends early (raises / quick result / explicit stop) with a timeout still in the future; later
        # the loop runs past that old deadline
        t = rng.choice([1, 2, 3, 4, 5, 6, 9])
        first = rng.choice([["raises"], ["raises"], ["retNone"], ["retValue"], ["coro", 0, False], ["coro", 0, True],
                            ["fut", rng.randint(0, t), False], ["coro", rng.randint(0, t), rng.random() < 0.5],
                            ["stopsLoop", rng.randint(0, t)]])
        ops = [["call", first, t]]
        for _ in range(rng.randint(0, 2)):
            k = rng.random()
            if k < 0.35:
                ops.append(["advance", rng.choice([0, 1, 2, t, t + 1])])
            elif k < 0.5:
                ops.append(["runFor", rng.choice([0, 1, t - 1, t, t + 1, t + 3])])
            else:
                ops.append(_rs_call(rng, allow_stop=False))
        long = rng.choice([t - 1, t, t + 1, t + 2, 2 * t + 1])
        ops.append(rng.choice([["call", [rng.choice(["coro", "fut"]), long, rng.random() < 0.7],
                                rng.choice([None, None, long + 1, long + 4])],
                               ["runFor", long]]))
        if rng.random() < 0.3:
            ops.append(_rs_call(rng, allow_stop=False))
    else:
        allow = rng.random() < 0.35
        ops = []
        for _ in range(rng.randint(2, 6)):
            k = rng.random()
            if k < 0.15:
                ops.append(["advance", rng.choice([0, 1, 2, 3, 5, 9])])
            elif k < 0.22 and allow:
                ops.append(["runFor", rng.choice([0, 1, 2, 4, 7])])
            else:
                ops.append(_rs_call(rng, allow_stop=allow))
    return {"kind": "rsseq", "ops": ops}


XFORMS = ["plain", "executor", "callback", "coro", "ioloop_cb", "timer", "gen"]   # where the calling code runs
XLOOPFORMS = [f for f in XFORMS if f not in ("plain", "executor")]                # ... with a running loop
XAPIS = ["args", "kwargs", "closure", "spawn", "spawn_kw"]
XMAKES = ["asyncio_run", "ioloop_start"]
XSTATES = ["idle", "far_timer", "debug", "near_timer"]
XWAIT = 1.5       # bounded wait (s) for callbacks handed to a loop; tripled on every retry
XCTL = 12.0       # generous wait (s) for the harness's own control paths (raw asyncio call_soon_threadsafe)


def _gen_xloop(rng, target=None, nloops=2, extra=4, maxn=8):
    loops = [target or {"make": rng.choice(XMAKES), "state": rng.choice(XSTATES)}]
    for _ in range(nloops - 1):
        loops.append({"make": rng.choice(XMAKES), "state": rng.choice(XSTATES)})
    apis = XAPIS[:]
    rng.shuffle(apis)
    ns = [1, 1, 2, 3, 5, maxn]

    def burst(form, src, dst, i):
        return {"form": form, "src": src, "dst": dst, "api": apis[i % len(apis)] if rng.random() < 0.7 else rng.choice(XAPIS),
                "n": rng.choice(ns)}
    # every calling context, from another loop towards loop 0
    bursts = [burst(f, rng.randint(1, nloops - 1), 0, i) for i, f in enumerate(XFORMS)]
    for j in range(extra):
        r = rng.random()
        if r < 0.4:       # the target's own thread
            d = rng.randint(0, nloops - 1)
            bursts.append(burst(rng.choice(XFORMS), d, d, j))
        elif r < 0.8:     # the other direction / other pairs
            a, b = rng.sample(range(nloops), 2)
            bursts.append(burst(rng.choice(XFORMS), a, b, j))
        else:
            bursts.append(burst(rng.choice(XLOOPFORMS), rng.randint(1, nloops - 1), 0, j))
    rng.shuffle(bursts)
    return {"kind": "xloop", "loops": loops, "bursts": bursts}


def gen_cases(rng, tier):
    n_p, n_r, n_t = {"quick": (3000, 600, 0), "thorough": (60000, 6000, 12), "search": (2500, 400, 0)}[tier]
    n_s = {"quick": 1500, "thorough": 20000, "search": 1500}[tier]
    # two real event loops in two threads (seeded/C38-1): systematic over how the target loop was made and what it is doing
    if tier != "search":
        for make in XMAKES:
            for state in XSTATES:
                yield _gen_xloop(rng, {"make": make, "state": state})
    for _ in range({"quick": 0, "thorough": 40, "search": 6}[tier]):
        yield _gen_xloop(rng, None, nloops=rng.choice([2, 2, 3]), extra=rng.randint(0, 9), maxn=rng.choice([8, 30]))
    for _ in range(n_p):
        yield _gen_prog(rng)
    for _ in range(n_r):
        yield _gen_runsync(rng)
    for _ in range(n_s):
        yield _gen_rsseq(rng)
    for i in range(n_t):
        yield {"kind": "threads", "threads": rng.randint(2, 6), "per": rng.choice([50, 200, 500]), "nonce": i}


# ------------------------------------------------------------------------------------------ implementation
class _LogCap(logging.Handler):
    def __init__(self, sink):
        super().__init__()
        self.sink = sink

    def emit(self, record):
        try:
            cb = record.args[0] if record.args else None
            fn = getattr(cb, "func", cb)
            k = getattr(fn, "_k", None)
            if k is not None:
                self.sink.append(["logged", k])
            elif getattr(fn, "__name__", "") == "_discard_future_result":
                self.sink.append(["logged", "discard"])
            else:
                self.sink.append(["logged", "other:%s" % getattr(fn, "__name__", type(fn).__name__)])
        except Exception as e:  # never let the handler raise into the loop
            self.sink.append(["logged", "handler-error:%s" % type(e).__name__])


class _capture_logs:
    def __init__(self, sink):
        self.sink = sink

    def __enter__(self):
        self.lg = logging.getLogger("tornado.application")
        self.saved = (self.lg.handlers[:], self.lg.propagate, self.lg.level)
        self.lg.handlers, self.lg.propagate = [_LogCap(self.sink)], False
        self.lg.setLevel(logging.DEBUG)
        self.alg = logging.getLogger("asyncio")
        self.asaved = self.alg.disabled
        self.alg.disabled = True

    def __exit__(self, *a):
        self.lg.handlers, self.lg.propagate = self.saved[0], self.saved[1]
        self.lg.setLevel(self.saved[2])
        self.alg.disabled = self.asaved


def _run_prog(case):
    from core import vloop
    from tornado.concurrent import Future
    tbl, events = case["tbl"], []
    with _capture_logs(events), vloop.installed() as lp:
        io = lp.io_loop
        it = [0]
        orig_once = lp._run_once

        def run_once():
            it[0] += 1
            orig_once()
        lp._run_once = run_once
        now = lambda: int(round(lp.time() - BASE))
        counters = {"sid": 0, "h": 0}
        variables, armed, futs, fut_wait = {}, set(), {}, {}

        def fut_of(fid):
            if fid not in futs:
                futs[fid] = Future()
            return futs[fid]

        def make(k, pre):
            def cb(*args):
                pre()
                acts, fin = tbl[k]
                try:
                    for a in acts:
                        do_act(a)
                except asyncio.InvalidStateError:
                    events.append(["fin", k, "raise"])
                    raise
                events.append(["fin", k, fin])
                if fin == "raise":
                    raise ValueError("boom %d" % k)
                if fin == "retFailed":
                    f = Future(); f.set_exception(ValueError("failed future %d" % k)); return f
                if fin == "retOk":
                    f = Future(); f.set_result(k); return f
                if fin == "retOther":
                    return 42
                return None
            cb._k = k
            return cb

        def do_act(a):
            op = a[0]
            if op == "addCb":
                sid, k, enq = counters["sid"], a[1], it[0]
                counters["sid"] += 1
                events.append(["schedCb", sid, k, enq])
                fn = make(k, lambda: events.append(["ranCb", sid, k, enq, it[0], now()]))
                (io.add_callback if (sid + k) % 2 == 0 else io.spawn_callback)(fn)
            elif op == "addTmo":
                _, form, arg, k, name = a
                h = counters["h"]
                counters["h"] += 1
                dl = arg if form in ("abs", "at") else now() + arg
                rec = {}
                fn = make(k, lambda: (armed.discard(h), events.append(["ranT", h, k, dl, rec["wh"], it[0], now()])))
                if form == "abs":
                    handle = io.add_timeout(BASE + arg, fn)
                elif form == "at":
                    handle = io.call_at(BASE + arg, fn)
                elif form == "td":
                    handle = io.add_timeout(datetime.timedelta(seconds=arg), fn)
                else:
                    handle = io.call_later(arg, fn)
                rec["wh"] = int(round(handle.when() - BASE))
                variables[name] = (h, handle)
                armed.add(h)
                events.append(["schedT", h, k, dl, rec["wh"]])
            elif op == "rmTmo":
                if a[1] in variables:
                    h, handle = variables[a[1]]
                    was = h in armed
                    io.remove_timeout(handle)
                    if was:
                        armed.discard(h)
                        events.append(["removed", h])
            elif op == "busy":
                lp._vtime += a[1]
            elif op == "addFut":
                _, fid, k = a
                f = fut_of(fid)
                rec = {"added": it[0], "enq": it[0] if f.done() else None}
                if not f.done():
                    fut_wait.setdefault(fid, []).append(rec)
                fn = make(k, lambda: events.append(["ranF", fid, k, rec["added"], rec["enq"], it[0], now()]))
                io.add_future(f, fn)
            elif op == "resolve":
                _, fid, ok = a
                f = fut_of(fid)
                if ok:
                    f.set_result(fid)
                else:
                    f.set_exception(ValueError("future %d" % fid))
                    f.exception()       # mark retrieved: no "never retrieved" noise at GC
                for rec in fut_wait.pop(fid, []):
                    rec["enq"] = it[0]

        for a in case["main"]:
            do_act(a)
        events.append(["fin", "main", "ok"])
        idle = False
        for _ in range(400):
            due = any((not h._cancelled) and h._when <= lp._vtime for h in lp._scheduled)
            if not lp._ready and not due:
                ts = lp.live_timers()
                if not ts:
                    idle = True
                    break
                lp._vtime = max(lp._vtime, ts[0])
            lp._one_iteration()
        return {"events": events, "idle": idle}


class _Hang(BaseException):
    pass


def _run_runsync(case):
    from core import vloop
    from tornado import gen
    from tornado.concurrent import Future
    func, timeout, variant = case["func"], case["timeout"], case["variant"]
    sink = []
    with _capture_logs(sink), vloop.installed() as lp:
        io = lp.io_loop
        orig_once = lp._run_once

        def run_once():
            if not lp._ready:
                ts = lp.live_timers()
                if not ts:
                    raise _Hang()
                lp._vtime = max(lp._vtime, ts[0])
            orig_once()
        lp._run_once = run_once
        cell = []
        orig_add_future = io.add_future

        def add_future(fut, cb):
            if "run_sync" in getattr(cb, "__qualname__", ""):      # the call made by run_sync's `run`, not a gen Runner's
                cell.append(fut)
            return orig_add_future(fut, cb)
        io.add_future = add_future
        kind = func[0]
        if kind == "raises":
            def f():
                raise ValueError("user")
        elif kind == "retNone":
            def f():
                return None
        elif kind == "retValue":
            def f():
                return 42
        elif kind == "stopsLoop":
            def f():
                io.call_later(func[1], io.stop)
                return Future()
        else:
            d, ok = func[1], func[2]
            if variant == "future":
                def f():
                    fut = Future()
                    if d is not None:
                        def res():
                            if ok:
                                fut.set_result(42)
                            else:
                                fut.set_exception(ValueError("user"))
                        io.call_later(d, res)
                    return fut
            elif variant == "gen":
                @gen.coroutine
                def f():
                    if d is None:
                        yield Future()
                    elif d > 0:
                        yield gen.sleep(d)
                    else:
                        yield gen.moment
                    if not ok:
                        raise ValueError("user")
                    return 42
            else:
                async def f():
                    if d is None:
                        await Future()
                    elif d > 0:
                        await asyncio.sleep(d)
                    if not ok:
                        raise ValueError("user")
                    return 42
        try:
            r = io.run_sync(f, timeout=timeout)
            out = "result" if r in (42, None) else "Unexpected:%r" % (r,)
        except _Hang:
            out = "hang"
        except gen.BadYieldError:
            out = "badYield"
        except asyncio.TimeoutError:
            out = "timeoutError"
        except ValueError:
            out = "userError"
        except RuntimeError as e:
            out = "runtimeError" if "stopped before" in str(e) else "Uncaught:RuntimeError:%s" % e
        except Exception as e:
            out = "Uncaught:" + type(e).__name__
        return {"outcome": out, "cancelled": bool(cell and cell[0].cancelled())}


def _run_rsseq(case):
    """several run_sync calls (and pauses / plain start()s) on ONE IOLoop over a virtual clock that moves only when nothing
    is ready.  Observed per operation: outcome, state of the future run_sync waited for (captured at IOLoop.add_future),
    whether the coroutine saw CancelledError, elapsed ticks, timers still armed (numbered in arming order, all of them:
    the loop's call_at is wrapped), handles still queued, log records."""
    from core import vloop
    from tornado import gen
    from tornado.concurrent import Future
    sink, recs = [], []
    with _capture_logs(sink), vloop.installed() as lp:
        io = lp.io_loop
        orig_once = lp._run_once

        def run_once():
            if not lp._ready:
                ts = lp.live_timers()
                if not ts:
                    raise _Hang()
                lp._vtime = max(lp._vtime, ts[0])
            orig_once()
        lp._run_once = run_once
        handles, fired = [], []
        orig_call_at = lp.call_at

        def call_at(when, callback, *args, context=None):
            tid = len(handles)

            def wrapped(*a):
                fired.append(tid)
                return callback(*a)
            h = orig_call_at(when, wrapped, *args, context=context)
            handles.append(h)
            return h
        lp.call_at = call_at
        cell = []
        orig_add_future = io.add_future

        def add_future(fut, cb):
            if "run_sync" in getattr(cb, "__qualname__", ""):      # the call made by run_sync's `run`, not a gen Runner's
                cell.append(fut)
            return orig_add_future(fut, cb)
        io.add_future = add_future
        now = lambda: int(round(lp._vtime - BASE))

        def rest():
            return {"timers": [[i, int(round(h._when - BASE))] for i, h in enumerate(handles)
                               if not h._cancelled and h._scheduled],
                    "nready": sum(1 for h in lp._ready if not h._cancelled)}

        def make(fn, rec):
            kind = fn[0]
            if kind == "raises":
                def f():
                    raise ValueError("user")
            elif kind == "retNone":
                def f():
                    return None
            elif kind == "retValue":
                def f():
                    return 42
            elif kind == "stopsLoop":
                def f():
                    io.call_later(fn[1], io.stop)
                    return Future()
            elif kind == "fut":
                d, ok = fn[1], fn[2]

                def f():
                    fut = Future()
                    if d is not None:
                        def res():
                            if ok:
                                fut.set_result(42)
                            else:
                                fut.set_exception(ValueError("user"))
                        io.call_later(d, res)
                    return fut
            else:
                d, ok = fn[1], fn[2]

                async def f():
                    try:
                        if d is None:
                            await Future()
                        elif d > 0:
                            await asyncio.sleep(d)
                    except asyncio.CancelledError:
                        rec["saw"] = True
                        raise
                    if not ok:
                        raise ValueError("user")
                    return 42
            return f

        for op in case["ops"]:
            t0, l0 = now(), len(sink)
            if op[0] == "advance":
                lp._vtime += op[1]
                continue
            if op[0] == "runFor":
                io.call_later(op[1], io.stop)
                returned = True
                try:
                    io.start()
                except _Hang:
                    returned = False
                recs.append({"op": "runFor", "returned": returned, "dt": now() - t0, "logs": len(sink) - l0, **rest()})
                if not returned:
                    break
                continue
            rec = {"saw": False}
            n0 = len(cell)
            try:
                r = io.run_sync(make(op[1], rec), timeout=op[2])
                out = "result" if r in (42, None) else "Unexpected:%r" % (r,)
            except _Hang:
                out = "hang"
            except gen.BadYieldError:
                out = "badYield"
            except asyncio.TimeoutError:
                out = "timeoutError"
            except ValueError:
                out = "userError"
            except RuntimeError as e:
                out = "runtimeError" if "stopped before" in str(e) else "Uncaught:RuntimeError:%s" % e
            except Exception as e:
                out = "Uncaught:" + type(e).__name__
            fut = cell[n0] if len(cell) > n0 else None
            cancelled = bool(fut is not None and fut.cancelled())
            creq = cancelled or bool(fut is not None and hasattr(fut, "cancelling") and fut.cancelling() > 0)
            recs.append({"op": "call", "out": out, "cancelled": cancelled,
                         "pending": bool(fut is None or not fut.done()), "creq": creq, "saw": rec["saw"],
                         "returned": out != "hang", "dt": now() - t0, "logs": len(sink) - l0, **rest()})
            if out == "hang":
                break
        for f in cell:        # abandoned tasks that failed later: mark the exception retrieved (no asyncio noise at GC)
            try:
                if f.done() and not f.cancelled():
                    f.exception()
            except Exception:
                pass
        other = sorted(set(e[1] for e in sink if not (isinstance(e[1], str) and e[1].startswith("other:res"))))
        return {"recs": recs, "fired": fired, "other_logs": [str(x) for x in other]}


def _run_threads(case):
    """real loop, real threads: exactly-once and per-thread order of add_callback from other threads"""
    from tornado.ioloop import IOLoop
    nthreads, per = case["threads"], case["per"]
    seen, total = [], nthreads * per
    result = {}

    def main_thread():
        loop = asyncio.new_event_loop()
        asyncio.set_event_loop(loop)

        async def main():
            io = IOLoop.current()
            done = asyncio.Event()

            def rec(tid, i):
                seen.append((tid, i))
                if len(seen) >= total:
                    done.set()

            def worker(tid):
                for i in range(per):
                    io.add_callback(rec, tid, i)
            ths = [threading.Thread(target=worker, args=(t,)) for t in range(nthreads)]
            for t in ths:
                t.start()
            # the loop thread schedules its own callbacks concurrently
            for i in range(per):
                io.add_callback(lambda: None)
                if i % 16 == 0:
                    await asyncio.sleep(0)
            try:
                await asyncio.wait_for(done.wait(), 15)
            except asyncio.TimeoutError:
                result["timeout"] = True
            for t in ths:
                t.join()
            await asyncio.sleep(0.01)
        try:
            loop.run_until_complete(main())
        finally:
            loop.close()
            asyncio.set_event_loop(None)
    th = threading.Thread(target=main_thread)
    th.start()
    th.join(25)
    per_thread_ok = all([i for t, i in seen if t == tid] == list(range(per)) for tid in range(nthreads))
    return {"count": len(seen), "expected": total, "distinct": len(set(seen)), "per_thread_in_order": per_thread_ok,
            "timeout": bool(result.get("timeout")) or th.is_alive()}


# ------------------------------------------------------------------------------------------ two real loops (xloop)
XTRIG, XPROBE = 100000, 200000     # ids of the harness's own (raw asyncio) handles; callback ids are burst*100+i


class _XInfra(Exception):
    pass


class _XLoop:
    """one real event loop + its tornado IOLoop in a thread of its own, with three observation points: the selector
    (is the loop blocked in select() without a near timeout?), call_soon/call_soon_threadsafe (which branch did
    add_callback take?) and _write_to_self (was the loop asked to wake up?)"""

    def __init__(self, idx, spec):
        self.idx, self.make, self.state = idx, spec["make"], spec["state"]
        self.ready, self.idle = threading.Event(), threading.Event()
        self.ran, self.paths, self.wrong_thread = [], [], []
        self.wakeups = 0
        self.pending, self.done = set(), None
        self.stopping = False
        self.err = None
        self.thread = threading.Thread(target=self._main, name="c38-xloop-%d" % idx, daemon=True)

    # -- runs on the loop thread
    def _setup(self, aio, io):
        self.aio, self.io = aio, io
        sel = aio._selector
        orig_select = sel.select

        def select(timeout=None):
            if timeout is None or timeout > 60:
                self.idle.set()
            try:
                return orig_select(timeout)
            finally:
                self.idle.clear()
        sel.select = select
        orig_soon, orig_ts, orig_wake = aio.call_soon, aio.call_soon_threadsafe, aio._write_to_self

        def xid_of(cb, args):
            if getattr(cb, "__name__", "") != "_run_callback" or not args:
                return None
            p = args[0]
            f = getattr(p, "func", None)
            if f is None:
                return None
            if getattr(f, "__func__", None) is _XLoop.cb:
                return p.args[0] if p.args else (p.keywords or {}).get("xid")
            return getattr(f, "_xid", None)

        def call_soon(cb, *args, **kw):
            x = xid_of(cb, args)
            if x is not None:
                self.paths.append(["soon", x])
            return orig_soon(cb, *args, **kw)

        def call_soon_threadsafe(cb, *args, **kw):
            x = xid_of(cb, args)
            if x is not None:
                self.paths.append(["threadsafe", x])
            return orig_ts(cb, *args, **kw)

        def write_to_self():
            self.wakeups += 1
            return orig_wake()
        aio.call_soon, aio.call_soon_threadsafe, aio._write_to_self = call_soon, call_soon_threadsafe, write_to_self
        if self.state == "far_timer":
            aio.call_later(3600, lambda: None)
        elif self.state == "near_timer":
            def tick():
                if not self.stopping:
                    aio.call_later(0.02, tick)
            tick()
        self.ready.set()

    def _main(self):
        from tornado.ioloop import IOLoop
        try:
            if self.make == "asyncio_run":
                async def main():
                    self.stop_evt = asyncio.Event()
                    self._setup(asyncio.get_running_loop(), IOLoop.current())
                    await self.stop_evt.wait()
                asyncio.run(main(), debug=(self.state == "debug"))
            else:
                io = IOLoop(make_current=False)
                aio = io.asyncio_loop
                aio.set_debug(self.state == "debug")
                aio.call_soon(self._setup, aio, io)
                try:
                    io.start()
                finally:
                    io.close(all_fds=True)
        except BaseException as e:      # reported as infrastructure trouble by whoever waits for this loop
            self.err = "%s: %s" % (type(e).__name__, e)

    def cb(self, xid):
        if threading.current_thread() is not self.thread:
            self.wrong_thread.append(xid)
        self.ran.append(xid)
        self.pending.discard(xid)
        if not self.pending and self.done is not None:
            self.done.set()

    # -- called from the harness thread; only raw asyncio, never the code under test
    def raw(self, fn, *args):
        try:
            self.aio.call_soon_threadsafe(fn, *args)
        except RuntimeError as e:
            raise _XInfra("loop %d is closed: %s (%s)" % (self.idx, e, self.err))

    def start(self):
        self.thread.start()
        if not self.ready.wait(XCTL):
            raise _XInfra("loop %d did not start (%s)" % (self.idx, self.err))

    def wait_idle(self):
        if self.state == "near_timer":
            return
        if not self.idle.wait(XCTL):
            raise _XInfra("loop %d did not go idle (%s)" % (self.idx, self.err))

    def probe(self, pid):
        ev = threading.Event()

        def fn():
            self.ran.append(pid)
            ev.set()
        t0 = time.monotonic()
        self.raw(fn)
        if not ev.wait(XCTL):
            raise _XInfra("loop %d does not answer a raw call_soon_threadsafe within %.0fs (%s)" % (self.idx, XCTL, self.err))
        return time.monotonic() - t0

    def stop(self):
        self.stopping = True
        try:
            if self.make == "asyncio_run":
                self.aio.call_soon_threadsafe(self.stop_evt.set)
            else:
                self.aio.call_soon_threadsafe(self.io.stop)
        except Exception:
            pass

    def join(self):
        self.thread.join(5)


def _x_call(dst, api, xid):
    io = dst.io
    if api == "args":
        io.add_callback(dst.cb, xid)
    elif api == "kwargs":
        io.add_callback(dst.cb, xid=xid)
    elif api == "spawn":
        io.spawn_callback(dst.cb, xid)
    elif api == "spawn_kw":
        io.spawn_callback(dst.cb, xid=xid)
    else:
        def f():
            dst.cb(xid)
        f._xid = xid
        io.add_callback(f)


def _x_burst(loops, b, bidx, wait):
    """-> None | {"missing": [...], "late": [...], ...} (the burst's callbacks did not all run by themselves)"""
    from tornado import gen
    src, dst = loops[b["src"]], loops[b["dst"]]
    ids = [bidx * 100 + i for i in range(b["n"])]
    dst.pending, dst.done = set(ids), threading.Event()
    called, call_exc = threading.Event(), []

    def do_calls():
        try:
            for x in ids:
                _x_call(dst, b["api"], x)
        except BaseException as e:
            call_exc.append("%s: %s" % (type(e).__name__, e))

    form = b["form"]
    dst.wait_idle()
    if form == "plain":
        t = threading.Thread(target=lambda: (do_calls(), called.set()), daemon=True)
        w0 = dst.wakeups
        t.start()
    else:
        src.wait_idle()
        aio, io = src.aio, src.io
        both = lambda: (do_calls(), called.set())

        def starter():
            src.ran.append(XTRIG + bidx)
            if form == "callback":
                both()
            elif form == "coro":
                async def co():
                    await asyncio.sleep(0)
                    both()
                src._keep = asyncio.ensure_future(co())
            elif form == "ioloop_cb":
                io.add_callback(both)
            elif form == "timer":
                io.call_later(0.001, both)
            elif form == "gen":
                @gen.coroutine
                def g():
                    yield gen.moment
                    both()
                src._keep = g()
            else:   # executor: a worker thread of loop src's default executor (no running loop there)
                async def co():
                    await aio.run_in_executor(None, do_calls)
                    called.set()
                src._keep = asyncio.ensure_future(co())
        w0 = dst.wakeups
        src.raw(starter)
    if not called.wait(XCTL):
        raise _XInfra("burst %d: the calling code (%s on loop %d) never ran (%s)" % (bidx, form, b["src"], src.err))
    finished = dst.done.wait(wait)
    # wake-ups requested while the callbacks were outstanding.  A trigger delivered to dst itself (src == dst) is a
    # wake-up of the harness, made before the calls; it does not count.
    before = list(dst.ran)
    woken = dst.wakeups - w0 - (1 if (form != "plain" and src is dst) else 0)
    lat = dst.probe(XPROBE + bidx)
    if finished:
        return None
    after = list(dst.ran)
    missing = [x for x in ids if x not in before]
    never = [x for x in ids if x not in after]
    late = [x for x in missing if x in after]
    if never or woken <= 0:
        # clock-free: either a later handle (the probe) has run and these have not (FIFO: they never will), or they sat in
        # the queue of a loop nobody had asked to wake up
        dst.ran[:] = before
        return {"burst": bidx, "missing": missing, "late": late, "never": never, "wakeups_requested": max(woken, 0),
                "waited_s": wait, "probe_answered_in_ms": int(lat * 1000), "call_exc": call_exc[:2]}
    raise _XInfra("burst %d: %d wake-up(s) were written to loop %d but its callbacks %r had not run after %.1fs "
                  "(probe answered in %.3fs): machine too slow" % (bidx, woken, b["dst"], missing, wait, lat))


def _run_xloop_once(case, wait):
    loops = [_XLoop(i, spec) for i, spec in enumerate(case["loops"])]
    stuck, done_bursts = None, 0
    alg = logging.getLogger("asyncio")
    asaved, alg.disabled = alg.disabled, True
    try:
        for lp in loops:
            lp.start()
        for bidx, b in enumerate(case["bursts"]):
            stuck = _x_burst(loops, b, bidx, wait)
            done_bursts = bidx + 1
            if stuck:
                break
        return {"loops": [{"paths": [list(p) for p in lp.paths], "ran": list(lp.ran)} for lp in loops],
                "wrong_thread": sorted(x for lp in loops for x in lp.wrong_thread),
                "bursts_done": done_bursts, "stuck": stuck}
    finally:
        for lp in loops:
            if lp.ready.is_set():
                lp.stop()
        for lp in loops:
            if lp.ready.is_set():
                lp.join()
        alg.disabled = asaved


def _run_xloop(case):
    why = None
    for attempt in range(3):
        try:
            return _run_xloop_once(case, XWAIT * (3 ** attempt))
        except _XInfra as e:
            why = str(e)
        except Exception as e:      # nothing of the code under test runs on this thread: harness trouble, watchdog included
            why = "%s: %s" % (type(e).__name__, e)
            break
    return {"infra": why}



def run_impl(case):
    if case["kind"] == "xloop":
        return _run_xloop(case)
    if case["kind"] == "prog":
        return _run_prog(case)
    if case["kind"] == "runsync":
        return _run_runsync(case)
    if case["kind"] == "rsseq":
        return _run_rsseq(case)
    return _run_threads(case)


# ------------------------------------------------------------------------------------------ model / spec
def _w_act(a):
    if a[0] == "addTmo":
        return [atom("addTmo"), atom(a[1]), a[2], a[3], a[4]]
    if a[0] == "resolve":
        return [atom("resolve"), a[1], atom(bool(a[2]))]
    return [atom(a[0])] + a[1:]


def _w_tbl(tbl):
    return [[[_w_act(a) for a in acts], atom(fin)] for acts, fin in tbl]


def _w_ev(e):
    out = [atom(e[0])]
    for x in e[1:]:
        if isinstance(x, str):
            out.append(atom(x if x[0].isalpha() else "x" + x))
        elif x is None:
            out.append(-1)
        else:
            out.append(x)
    return out


def _w_func(f):
    if f[0] == "awaitable":
        return [atom("awaitable"), f[1], atom(bool(f[2]))]
    return [atom(f[0])] + f[1:]


def _w_rsfn(f):
    if f[0] in ("coro", "fut"):
        return [atom(f[0]), f[1], atom(bool(f[2]))]
    return [atom(f[0])] + f[1:]


def _w_rsops(ops):
    return [[atom("call"), _w_rsfn(o[1]), o[2]] if o[0] == "call" else [atom(o[0]), o[1]] for o in ops]


def _w_rsrec(r):
    b = lambda x: atom(bool(x))
    ts = [[i, w] for i, w in r["timers"]]
    if r["op"] == "call":
        return [atom("call"), atom(r["out"]), b(r["cancelled"]), b(r["pending"]), b(r["creq"]), b(r["saw"]), b(r["returned"]),
                r["dt"], ts, r["nready"], r["logs"]]
    return [atom("runFor"), b(r["returned"]), r["dt"], ts, r["nready"], r["logs"]]


def _rs_plain(v):
    v = _plain(v)
    if v[0] == "call":
        return {"op": "call", "out": v[1], "cancelled": v[2], "pending": v[3], "creq": v[4], "saw": v[5], "returned": v[6],
                "dt": v[7], "timers": v[8], "nready": v[9], "logs": v[10]}
    return {"op": "runFor", "returned": v[1], "dt": v[2], "timers": v[3], "nready": v[4], "logs": v[5]}


def _rs_expressible(impl):
    return all(r["op"] != "call" or r["out"] in ("result", "userError", "badYield", "timeoutError", "runtimeError", "hang")
               for r in impl["recs"])


def _plain(v):
    if isinstance(v, Atom):
        return {"T": True, "F": False}.get(str(v), str(v))
    if isinstance(v, list):
        return [_plain(x) for x in v]
    return v


def _x_ops(case, upto):
    """the op sequence of each loop (XThread.Op) for the first `upto` bursts, as the harness drives them"""
    T = [atom("turn")]
    ops = [[T] for _ in case["loops"]]           # every loop first goes idle
    sched = [[] for _ in case["loops"]]
    for bidx, b in enumerate(case["bursts"][:upto]):
        s_, d = b["src"], b["dst"]
        ids = [bidx * 100 + i for i in range(b["n"])]
        running = None if b["form"] in ("plain", "executor") else s_
        calls = [[atom("call"), running, x] for x in ids]
        trig = [[atom("inject"), XTRIG + bidx], T, T]
        if b["form"] == "plain":
            ops[d] += calls + [T, T, T]
        elif s_ == d:
            ops[d] += trig + calls + [T, T, T]
        else:
            ops[s_] += trig + [T]
            ops[d] += calls + [T, T, T]
        ops[d] += [[atom("inject"), XPROBE + bidx], T, T, T]
        sched[d] += ids
    return ops, sched


def _x_check_infra(impl):
    if "infra" in impl:
        # infrastructure trouble ends the run with exit 2 (harness error), never with a verdict
        raise RuntimeError("C38 xloop infrastructure trouble: %s" % impl["infra"])


def model_requests(case, impl):
    if "harness_exc" in impl:
        return []
    if case["kind"] == "xloop":
        _x_check_infra(impl)
        ops, _ = _x_ops(case, impl["bursts_done"])
        return [line(ID, "xthread", i, o) for i, o in enumerate(ops)]
    if case["kind"] == "prog":
        pref = [e[1] for e in impl["events"] if e[0] == "ranT"]
        return [line(ID, "run", _w_tbl(case["tbl"]), pref, [_w_act(a) for a in case["main"]], 3000)]
    if case["kind"] == "runsync":
        return [line(ID, "runsync", _w_func(case["func"]), case["timeout"])]
    if case["kind"] == "rsseq":
        return [line(ID, "rsseq", atom(False), impl["fired"], _w_rsops(case["ops"]), 400)]
    return []


def model_result(case, replies):
    if case["kind"] == "xloop":
        out = []
        for r in replies:
            st, vals = parse_reply(r)
            if st != "ok":
                return {"err": vals}
            out.append({"paths": _plain(vals[0]), "ran": _plain(vals[1]), "stuck": bool(vals[2])})
        return out
    if case["kind"] == "prog":
        st, vals = parse_reply(replies[0])
        if st != "ok":
            return {"err": vals}
        return {"events": _plain(vals[0]), "idle": _plain(vals[1])}
    if case["kind"] == "runsync":
        st, vals = parse_reply(replies[0])
        return {"outcome": _plain(vals[0]) if st == "ok" else vals}
    if case["kind"] == "rsseq":
        st, vals = parse_reply(replies[0])
        if st != "ok":
            return {"err": vals}
        return [_rs_plain(r) for r in vals[0]]
    return "n/a"


def impl_view(case, impl):
    if case["kind"] == "xloop":
        sd = case["bursts"][impl["stuck"]["burst"]]["dst"] if impl["stuck"] else None
        return [{"paths": [p for p, _ in lp["paths"]], "ran": lp["ran"], "stuck": i == sd}
                for i, lp in enumerate(impl["loops"])]
    if case["kind"] == "prog":
        return {"events": _plain([_w_ev(e) for e in impl["events"]]), "idle": impl["idle"]}
    if case["kind"] == "runsync":
        return {"outcome": impl["outcome"]}
    if case["kind"] == "rsseq":
        return impl["recs"]
    return "n/a"


def spec_requests(case, impl):
    if "harness_exc" in impl:
        return []
    if case["kind"] == "xloop":
        _x_check_infra(impl)
        _, sched = _x_ops(case, impl["bursts_done"])
        return [line(ID, "xspec", sc, [x for x in lp["ran"] if x < XTRIG]) for sc, lp in zip(sched, impl["loops"])]
    if case["kind"] == "prog":
        return [line(ID, "spec", [_w_ev(e) for e in impl["events"]], atom(bool(impl["idle"])))]
    if case["kind"] == "runsync":
        return [line(ID, "runsyncspec", _w_func(case["func"]), case["timeout"])]
    if case["kind"] == "rsseq":
        if not _rs_expressible(impl):
            return []
        return [line(ID, "rsspec", _w_rsops(case["ops"]), [_w_rsrec(r) for r in impl["recs"]])]
    return []


def spec_violation(case, impl, replies):
    if case["kind"] == "xloop":
        bad = []
        for i, r in enumerate(replies):
            st, vals = parse_reply(r)
            if st != "ok":
                return "xloop: observed run is not expressible (%s)" % (vals,)
            bad += ["%s(loop %d)" % (c, i) for c in map(str, vals[0])]
        if impl["wrong_thread"]:
            bad.append("loop_thread(callbacks %r ran on a thread that is not their loop's)" % impl["wrong_thread"][:5])
        if bad or impl["stuck"]:
            st = impl["stuck"]
            more = ""
            if st:
                b = case["bursts"][st["burst"]]
                more = (": callbacks %r handed to loop %d (%s, %s) with %s by %s code of loop %d did not run by themselves "
                        "(%d wake-up requests reached the loop in %.1fs; never ran: %r; ran only after an unrelated "
                        "wake-up: %r)" % (st["missing"], b["dst"], case["loops"][b["dst"]]["make"],
                                          case["loops"][b["dst"]]["state"], b["api"], b["form"], b["src"],
                                          st["wakeups_requested"], st["waited_s"], st["never"], st["late"]))
            clauses = sorted(set(x.split("(")[0] for x in bad) | ({"exactly_once"} if st else set()))
            return "clause %s violated by the two-loop run %s%s" % ("+".join(clauses), " ".join(bad), more)
        return None
    if case["kind"] == "prog":
        if not impl["idle"]:
            return "loop did not become idle within 400 iterations"
        st, vals = parse_reply(replies[0])
        if st != "ok":
            return "observed trace is not expressible in the event vocabulary (%s): %r" % (vals, [e for e in impl["events"] if e[0] == "logged"][:3])
        if vals[0]:
            return "clause %s violated by the observed trace" % "+".join(map(str, vals[0]))
        return None
    if case["kind"] == "runsync":
        st, vals = parse_reply(replies[0])
        want = str(vals[0]) if st == "ok" else "?"
        if impl["outcome"] != want:
            return "run_sync clause violated: func=%r timeout=%r (%s): expected %s, got %s" % (
                case["func"], case["timeout"], case["variant"], want, impl["outcome"])
        if impl["outcome"] == "timeoutError" and not impl.get("cancelled"):
            return "run_sync clause timeout_not_cancelled violated: func=%r timeout=%r (%s): TimeoutError but the function's future is not cancelled" % (
                case["func"], case["timeout"], case["variant"])
        return None
    if case["kind"] == "rsseq":
        if not _rs_expressible(impl):
            return "run_sync clause run_sync_outcome violated: an exception that is neither the function's nor TimeoutError: %r" % (
                [r.get("out") for r in impl["recs"]],)
        st, vals = parse_reply(replies[0])
        if st != "ok":
            return "rsseq: observed records are not expressible (%s)" % (vals,)
        if vals[0]:
            return "run_sync clause %s violated by the run_sync sequence %r: observed %r" % (
                "+".join(sorted(set(map(str, vals[0])))), case["ops"],
                [(r.get("out"), "cancelled" if r.get("cancelled") else "not-cancelled") if r["op"] == "call" else ("runFor", r["dt"])
                 for r in impl["recs"]])
        return None       # (log records are compared with the model, op by op; they are not a clause of the property)
    if impl["timeout"] or impl["count"] != impl["expected"] or impl["distinct"] != impl["expected"]:
        return "threads clause exactly_once violated: %r" % (impl,)
    if not impl["per_thread_in_order"]:
        return "threads clause per_thread_order violated"
    return None


def nontrivial(case, impl):
    if case["kind"] == "xloop":
        return "loops" in impl and any(p == "threadsafe" for lp in impl["loops"] for p, _ in lp["paths"])
    if case["kind"] == "prog":
        evs = impl["events"]
        nt = sum(1 for e in evs if e[0] == "schedT")
        late = any(e[0] == "ranT" and e[6] > e[4] for e in evs)
        return nt >= 2 and (any(e[0] == "removed" for e in evs) or any(e[0] == "logged" for e in evs) or late)
    if case["kind"] == "runsync":
        return case["timeout"] is not None and case["func"][0] in ("awaitable", "stopsLoop")
    if case["kind"] == "rsseq":
        return any(o[0] == "call" and o[2] is not None and o[1][0] in ("coro", "fut", "stopsLoop") for o in case["ops"])
    return True


def stats(case, impl):
    out = ["kind:" + case["kind"]]
    if case["kind"] == "xloop":
        if "loops" not in impl:
            return out + ["xloop:infra"]
        for b in case["bursts"][:impl["bursts_done"]]:
            rel = "own-loop" if b["src"] == b["dst"] and b["form"] != "plain" else "foreign"
            out += ["xloop:form:%s:%s" % (b["form"], rel), "xloop:api:" + b["api"],
                    "xloop:target:%s:%s" % (case["loops"][b["dst"]]["make"], case["loops"][b["dst"]]["state"])]
        for lp in impl["loops"]:
            out += ["xloop:path:" + p for p, _ in lp["paths"]]
        return out
    if case["kind"] == "prog":
        evs = impl["events"]
        for e in evs:
            out.append("ev:" + e[0])
            if e[0] == "ranT":
                out.append("timer:late" if e[6] > e[4] else "timer:on-time")
                if e[3] < e[4]:
                    out.append("timer:deadline-in-past")
            if e[0] == "fin" and e[1] != "main":
                out.append("end:" + e[2])
        whens = [e[4] for e in evs if e[0] == "schedT"]
        if len(whens) != len(set(whens)):
            out.append("prog:equal-deadlines")
        out.append("calls:%d" % min(15, sum(1 for e in evs if e[0] in ("schedCb", "schedT", "removed", "ranF"))))
        for acts, _ in case["tbl"] + [[case["main"], "ok"]]:
            for a in acts:
                out.append("act:" + a[0] + (":" + a[1] if a[0] == "addTmo" else ""))
    elif case["kind"] == "runsync":
        out.append("runsync:%s:%s" % (case["func"][0], impl["outcome"]))
        out.append("variant:" + case["variant"])
    elif case["kind"] == "rsseq":
        calls = [o for o in case["ops"] if o[0] != "advance"]
        out.append("rsseq:ops:%d" % len(case["ops"]))
        for o, r in zip(calls, impl["recs"]):
            if o[0] == "call":
                out.append("rsseq:%s:%s" % (o[1][0], r["out"]))
                if r["out"] == "timeoutError":
                    out.append("rsseq:timeout:%s%s" % ("cancelled" if r["cancelled"] else "pending", ":saw" if r["saw"] else ""))
                if o[1][0] in ("coro", "fut") and o[1][1] is not None and o[1][1] == o[2]:
                    out.append("rsseq:tie")
            else:
                out.append("rsseq:runFor:" + ("exact" if r["dt"] == o[1] else "early"))
            if r["timers"]:
                out.append("rsseq:leftover-timers")
            if r["nready"]:
                out.append("rsseq:leftover-ready")
            if r["logs"]:
                out.append("rsseq:logged")
    return out


def signature(case, impl, why):
    import re
    m = re.search(r"clause ([A-Za-z_+]+)", why)
    if case["kind"] == "runsync":
        return "runsync/%s/%s" % (case["func"][0], impl.get("outcome", "?"))
    if case["kind"] == "rsseq":
        return "rsseq/%s" % (m.group(1) if m else "?")
    return "%s/%s" % (case["kind"], m.group(1) if m else re.sub(r"[^A-Za-z]+", "-", why)[:40])


def shrink(case):
    if case["kind"] == "xloop":
        bs = case["bursts"]
        if len(bs) > 1:
            for b in bs:
                yield {**case, "bursts": [b]}
            for i in range(len(bs)):
                yield {**case, "bursts": bs[:i] + bs[i + 1:]}
        for i, b in enumerate(bs):
            if b["n"] > 1:
                yield {**case, "bursts": bs[:i] + [{**b, "n": 1}] + bs[i + 1:]}
            if b["api"] != "args":
                yield {**case, "bursts": bs[:i] + [{**b, "api": "args"}] + bs[i + 1:]}
        used = {b["src"] for b in bs} | {b["dst"] for b in bs}
        if len(case["loops"]) > 2 and len(used) <= 2 and max(used) < 2:
            yield {**case, "loops": case["loops"][:2]}
        return
    if case["kind"] == "rsseq":
        ops = case["ops"]
        for i in range(len(ops)):
            if len(ops) > 1:
                yield {**case, "ops": ops[:i] + ops[i + 1:]}
        for i, o in enumerate(ops):
            if o[0] == "call":
                f = o[1]
                if f[0] not in ("raises", "retNone"):
                    yield {**case, "ops": ops[:i] + [["call", ["retNone"], o[2]]] + ops[i + 1:]}
                if f[0] in ("coro", "fut") and f[1]:
                    yield {**case, "ops": ops[:i] + [["call", [f[0], f[1] - 1, f[2]], o[2]]] + ops[i + 1:]}
                if o[2]:
                    yield {**case, "ops": ops[:i] + [["call", f, o[2] - 1]] + ops[i + 1:]}
            elif o[1] > 0:
                yield {**case, "ops": ops[:i] + [[o[0], o[1] - 1]] + ops[i + 1:]}
        return
    if case["kind"] != "prog":
        return
    main = case["main"]
    for i in range(len(main)):
        yield {**case, "main": main[:i] + main[i + 1:]}
    for k, (acts, fin) in enumerate(case["tbl"]):
        for i in range(len(acts)):
            t = [list(b) for b in case["tbl"]]
            t[k] = [acts[:i] + acts[i + 1:], fin]
            yield {**case, "tbl": t}
        if fin != "ok":
            t = [list(b) for b in case["tbl"]]
            t[k] = [acts, "ok"]
            yield {**case, "tbl": t}


def describe(case):
    return case
