"""C38 — IOLoop callbacks and timeouts run once, in order, and survive errors (tornado.ioloop / platform.asyncio).

Tie: bounded scheduling programs are interpreted against the real IOLoop (BaseAsyncIOLoop over core/vloop.py) and by the
Lean model (`C38 run`); the two event traces are compared exactly.  The oracle (`C38 spec`) evaluates the Lean trace
predicates of Spec.lean — the statements proved about the model — on the trace observed from the real loop.
run_sync is exercised with plain functions, native/generator coroutines and bare futures on an auto-advancing virtual
clock; the thorough tier adds real threads calling add_callback on a real loop.
"""
import asyncio, functools, logging, threading, datetime
from core.wire import atom, line, parse_reply, Atom

ID = "C38"
LEAN_TARGETS = ["TornadoModel.C38.Props"]
_T = "TornadoModel.C38."
THEOREMS = [_T + n for n in [
    "callback_once_fifo", "callback_all_ran_when_idle", "timeout_not_before_deadline", "removed_never_runs",
    "add_future_later_iteration",
    "errors_logged", "errors_do_not_stop_loop", "loop_continues", "run_sync_outcomes", "run_sync_result",
    "run_sync_reraises", "run_sync_timeout", "run_sync_never_completing",
    "invA_step", "invB_step", "invD_step", "invE_step", "invF_step", "reach_inv",
]]
TRUSTED = [
    "asyncio's event loop as abstracted in C38/Model.lean: FIFO ready queue with per-iteration snapshot, timers moved to "
    "the ready queue in order of `when` (ties: any order — a parameter of every theorem), cancelled handles skipped, "
    "Future done-callbacks scheduled with call_soon in registration order",
    "OS threads: add_callback from another thread is an atomic enqueue (call_soon_threadsafe); exercised, not proved",
    "IOLoop.time and the asyncio clock are the same clock (core/vloop.py patches both): clock drift is not modelled",
]
ASSUMPTIONS = [
    "programs: <= 15 scheduling calls, each callback body scheduled at most once, integer tick clock (exact in floats)",
    "run_sync: awaitables whose completion time is a fixed number of ticks; completion time == timeout counts as timeout "
    "(the timeout timer is armed first and asyncio fires equal deadlines in arming order when only two are armed)",
]
RULE = ("random scheduling programs (add_callback/spawn_callback, add_timeout absolute+timedelta, call_later, call_at, "
        "remove_timeout, busy callbacks, add_future, future resolution, raising callbacks, returned failed futures), "
        "nested to depth 3; non-trivial = >=2 timeouts and (a removal of an armed timeout or an error ending or a late timer)")
EXHAUSTIVE = {"quick": False, "thorough": False}
CLAUSES = {
    "callbacks each run exactly once, in scheduling order per thread": "callback_once_fifo + callback_all_ran_when_idle "
        "(loop thread and pre-loop scheduling); other threads: tie only (thorough tier, real threads)",
    "timeouts run not before their deadline": "timeout_not_before_deadline",
    "timeouts never run after remove_timeout": "removed_never_runs",
    "timeouts run once, in deadline order": "tie only: Spec.whenOrder / timerAtMostOnce / timersAccounted evaluated on every "
        "observed trace (timeout_order_goal, timeout_at_most_once_goal, timeout_all_accounted_goal)",
    "exceptions are logged without stopping the loop": "errors_logged + errors_do_not_stop_loop + loop_continues",
    "add_future callbacks always run on a later iteration": "add_future_later_iteration",
    "run_sync returns the result, re-raises, or raises TimeoutError after cancelling": "run_sync_outcomes (+ run_sync_result/_reraises/_timeout/_never_completing)",
}
PARALLEL = False
CASE_TIMEOUT = 20
BASE = 1000.0
FORMS = ["abs", "td", "later", "at"]
ENDS = ["ok", "ok", "ok", "raise", "raise", "retFailed", "retOk", "retOther"]


# ------------------------------------------------------------------------------------------ generators
def _gen_prog(rng, maxcalls=15):
    bodies, names = [], [0]
    budget = [rng.randint(2, maxcalls)]

    def new_body(depth, top=False):
        idx = len(bodies)
        bodies.append(None)
        bodies[idx] = gen_body(depth)
        return idx

    def gen_acts(depth, is_main=False):
        acts, resolved = [], set()
        n = rng.randint(2, 7) if is_main else (rng.randint(0, 4) if depth < 3 else rng.randint(0, 1))
        for _ in range(n):
            if budget[0] <= 0:
                break
            budget[0] -= 1
            r = rng.random()
            if r < 0.27:
                acts.append(["addCb", new_body(depth + 1)])
            elif r < 0.60:
                form = rng.choice(FORMS)
                arg = rng.randint(-4, 14) if form in ("abs", "at") else rng.randint(-2, 8)
                name = names[0]
                names[0] += 1
                acts.append(["addTmo", form, arg, new_body(depth + 1), name])
            elif r < 0.72:
                acts.append(["rmTmo", rng.randint(0, max(0, names[0] - 1)) if rng.random() < 0.9 else names[0] + 3])
            elif r < 0.81:
                acts.append(["busy", rng.choice([1, 1, 2, 3, 5, 9])])
            elif r < 0.91:
                acts.append(["addFut", rng.randint(0, 2), new_body(depth + 1)])
            else:
                fid = rng.randint(0, 2)
                if is_main and fid in resolved:
                    continue
                resolved.add(fid)
                acts.append(["resolve", fid, rng.random() < 0.6])
        return acts

    def gen_body(depth):
        return [gen_acts(depth), rng.choice(ENDS)]

    main = gen_acts(0, is_main=True)
    return {"kind": "prog", "tbl": bodies, "main": main}


def _gen_runsync(rng):
    r = rng.random()
    if r < 0.12:
        func = [rng.choice(["raises", "retNone", "retValue"])]
    elif r < 0.85:
        d = rng.choice([None, 0, 0, 1, 2, 3, 5, 8]) if rng.random() < 0.9 else None
        func = ["awaitable", d, rng.random() < 0.6]
    else:
        func = ["stopsLoop", rng.choice([0, 1, 2, 4, 7])]
    timeout = rng.choice([None, 0, 1, 2, 3, 4, 5, 6, 9])
    if func[0] == "awaitable" and func[1] is None and timeout is None and rng.random() < 0.8:
        timeout = rng.randint(0, 5)
    return {"kind": "runsync", "func": func, "timeout": timeout,
            "variant": rng.choice(["coro", "gen", "future"])}


def gen_cases(rng, tier):
    n_p, n_r, n_t = {"quick": (3000, 600, 0), "thorough": (60000, 6000, 12), "search": (2500, 400, 0)}[tier]
    for _ in range(n_p):
        yield _gen_prog(rng)
    for _ in range(n_r):
        yield _gen_runsync(rng)
    for i in range(n_t):
        yield {"kind": "threads", "threads": rng.randint(2, 6), "per": rng.choice([50, 200, 500]), "nonce": i}


# ------------------------------------------------------------------------------------------ implementation
class _LogCap(logging.Handler):
    def __init__(self, sink):
        super().__init__()
        self.sink = sink

    def emit(self, record):
        try:
            cb = record.args[0] if record.args else None
            fn = getattr(cb, "func", cb)
            k = getattr(fn, "_k", None)
            if k is not None:
                self.sink.append(["logged", k])
            elif getattr(fn, "__name__", "") == "_discard_future_result":
                self.sink.append(["logged", "discard"])
            else:
                self.sink.append(["logged", "other:%s" % getattr(fn, "__name__", type(fn).__name__)])
        except Exception as e:  # never let the handler raise into the loop
            self.sink.append(["logged", "handler-error:%s" % type(e).__name__])


class _capture_logs:
    def __init__(self, sink):
        self.sink = sink

    def __enter__(self):
        self.lg = logging.getLogger("tornado.application")
        self.saved = (self.lg.handlers[:], self.lg.propagate, self.lg.level)
        self.lg.handlers, self.lg.propagate = [_LogCap(self.sink)], False
        self.lg.setLevel(logging.DEBUG)
        self.alg = logging.getLogger("asyncio")
        self.asaved = self.alg.disabled
        self.alg.disabled = True

    def __exit__(self, *a):
        self.lg.handlers, self.lg.propagate = self.saved[0], self.saved[1]
        self.lg.setLevel(self.saved[2])
        self.alg.disabled = self.asaved


def _run_prog(case):
    from core import vloop
    from tornado.concurrent import Future
    tbl, events = case["tbl"], []
    with _capture_logs(events), vloop.installed() as lp:
        io = lp.io_loop
        it = [0]
        orig_once = lp._run_once

        def run_once():
            it[0] += 1
            orig_once()
        lp._run_once = run_once
        now = lambda: int(round(lp.time() - BASE))
        counters = {"sid": 0, "h": 0}
        variables, armed, futs, fut_wait = {}, set(), {}, {}

        def fut_of(fid):
            if fid not in futs:
                futs[fid] = Future()
            return futs[fid]

        def make(k, pre):
            def cb(*args):
                pre()
                acts, fin = tbl[k]
                try:
                    for a in acts:
                        do_act(a)
                except asyncio.InvalidStateError:
                    events.append(["fin", k, "raise"])
                    raise
                events.append(["fin", k, fin])
                if fin == "raise":
                    raise ValueError("boom %d" % k)
                if fin == "retFailed":
                    f = Future(); f.set_exception(ValueError("failed future %d" % k)); return f
                if fin == "retOk":
                    f = Future(); f.set_result(k); return f
                if fin == "retOther":
                    return 42
                return None
            cb._k = k
            return cb

        def do_act(a):
            op = a[0]
            if op == "addCb":
                sid, k, enq = counters["sid"], a[1], it[0]
                counters["sid"] += 1
                events.append(["schedCb", sid, k, enq])
                fn = make(k, lambda: events.append(["ranCb", sid, k, enq, it[0], now()]))
                (io.add_callback if (sid + k) % 2 == 0 else io.spawn_callback)(fn)
            elif op == "addTmo":
                _, form, arg, k, name = a
                h = counters["h"]
                counters["h"] += 1
                dl = arg if form in ("abs", "at") else now() + arg
                rec = {}
                fn = make(k, lambda: (armed.discard(h), events.append(["ranT", h, k, dl, rec["wh"], it[0], now()])))
                if form == "abs":
                    handle = io.add_timeout(BASE + arg, fn)
                elif form == "at":
                    handle = io.call_at(BASE + arg, fn)
                elif form == "td":
                    handle = io.add_timeout(datetime.timedelta(seconds=arg), fn)
                else:
                    handle = io.call_later(arg, fn)
                rec["wh"] = int(round(handle.when() - BASE))
                variables[name] = (h, handle)
                armed.add(h)
                events.append(["schedT", h, k, dl, rec["wh"]])
            elif op == "rmTmo":
                if a[1] in variables:
                    h, handle = variables[a[1]]
                    was = h in armed
                    io.remove_timeout(handle)
                    if was:
                        armed.discard(h)
                        events.append(["removed", h])
            elif op == "busy":
                lp._vtime += a[1]
            elif op == "addFut":
                _, fid, k = a
                f = fut_of(fid)
                rec = {"added": it[0], "enq": it[0] if f.done() else None}
                if not f.done():
                    fut_wait.setdefault(fid, []).append(rec)
                fn = make(k, lambda: events.append(["ranF", fid, k, rec["added"], rec["enq"], it[0], now()]))
                io.add_future(f, fn)
            elif op == "resolve":
                _, fid, ok = a
                f = fut_of(fid)
                if ok:
                    f.set_result(fid)
                else:
                    f.set_exception(ValueError("future %d" % fid))
                    f.exception()       # mark retrieved: no "never retrieved" noise at GC
                for rec in fut_wait.pop(fid, []):
                    rec["enq"] = it[0]

        for a in case["main"]:
            do_act(a)
        events.append(["fin", "main", "ok"])
        idle = False
        for _ in range(400):
            due = any((not h._cancelled) and h._when <= lp._vtime for h in lp._scheduled)
            if not lp._ready and not due:
                ts = lp.live_timers()
                if not ts:
                    idle = True
                    break
                lp._vtime = max(lp._vtime, ts[0])
            lp._one_iteration()
        return {"events": events, "idle": idle}


class _Hang(BaseException):
    pass


def _run_runsync(case):
    from core import vloop
    from tornado import gen
    from tornado.concurrent import Future
    func, timeout, variant = case["func"], case["timeout"], case["variant"]
    sink = []
    with _capture_logs(sink), vloop.installed() as lp:
        io = lp.io_loop
        orig_once = lp._run_once

        def run_once():
            if not lp._ready:
                ts = lp.live_timers()
                if not ts:
                    raise _Hang()
                lp._vtime = max(lp._vtime, ts[0])
            orig_once()
        lp._run_once = run_once
        kind = func[0]
        if kind == "raises":
            def f():
                raise ValueError("user")
        elif kind == "retNone":
            def f():
                return None
        elif kind == "retValue":
            def f():
                return 42
        elif kind == "stopsLoop":
            def f():
                io.call_later(func[1], io.stop)
                return Future()
        else:
            d, ok = func[1], func[2]
            if variant == "future":
                def f():
                    fut = Future()
                    if d is not None:
                        def res():
                            if ok:
                                fut.set_result(42)
                            else:
                                fut.set_exception(ValueError("user"))
                        io.call_later(d, res)
                    return fut
            elif variant == "gen":
                @gen.coroutine
                def f():
                    if d is None:
                        yield Future()
                    elif d > 0:
                        yield gen.sleep(d)
                    else:
                        yield gen.moment
                    if not ok:
                        raise ValueError("user")
                    return 42
            else:
                async def f():
                    if d is None:
                        await Future()
                    elif d > 0:
                        await asyncio.sleep(d)
                    if not ok:
                        raise ValueError("user")
                    return 42
        try:
            r = io.run_sync(f, timeout=timeout)
            out = "result" if r in (42, None) else "Unexpected:%r" % (r,)
        except _Hang:
            out = "hang"
        except gen.BadYieldError:
            out = "badYield"
        except asyncio.TimeoutError:
            out = "timeoutError"
        except ValueError:
            out = "userError"
        except RuntimeError as e:
            out = "runtimeError" if "stopped before" in str(e) else "Uncaught:RuntimeError:%s" % e
        except Exception as e:
            out = "Uncaught:" + type(e).__name__
        return {"outcome": out}


def _run_threads(case):
    """real loop, real threads: exactly-once and per-thread order of add_callback from other threads"""
    from tornado.ioloop import IOLoop
    nthreads, per = case["threads"], case["per"]
    seen, total = [], nthreads * per
    result = {}

    def main_thread():
        loop = asyncio.new_event_loop()
        asyncio.set_event_loop(loop)

        async def main():
            io = IOLoop.current()
            done = asyncio.Event()

            def rec(tid, i):
                seen.append((tid, i))
                if len(seen) >= total:
                    done.set()

            def worker(tid):
                for i in range(per):
                    io.add_callback(rec, tid, i)
            ths = [threading.Thread(target=worker, args=(t,)) for t in range(nthreads)]
            for t in ths:
                t.start()
            # the loop thread schedules its own callbacks concurrently
            for i in range(per):
                io.add_callback(lambda: None)
                if i % 16 == 0:
                    await asyncio.sleep(0)
            try:
                await asyncio.wait_for(done.wait(), 15)
            except asyncio.TimeoutError:
                result["timeout"] = True
            for t in ths:
                t.join()
            await asyncio.sleep(0.01)
        try:
            loop.run_until_complete(main())
        finally:
            loop.close()
            asyncio.set_event_loop(None)
    th = threading.Thread(target=main_thread)
    th.start()
    th.join(25)
    per_thread_ok = all([i for t, i in seen if t == tid] == list(range(per)) for tid in range(nthreads))
    return {"count": len(seen), "expected": total, "distinct": len(set(seen)), "per_thread_in_order": per_thread_ok,
            "timeout": bool(result.get("timeout")) or th.is_alive()}


def run_impl(case):
    if case["kind"] == "prog":
        return _run_prog(case)
    if case["kind"] == "runsync":
        return _run_runsync(case)
    return _run_threads(case)


# ------------------------------------------------------------------------------------------ model / spec
def _w_act(a):
    if a[0] == "addTmo":
        return [atom("addTmo"), atom(a[1]), a[2], a[3], a[4]]
    if a[0] == "resolve":
        return [atom("resolve"), a[1], atom(bool(a[2]))]
    return [atom(a[0])] + a[1:]


def _w_tbl(tbl):
    return [[[_w_act(a) for a in acts], atom(fin)] for acts, fin in tbl]


def _w_ev(e):
    out = [atom(e[0])]
    for x in e[1:]:
        if isinstance(x, str):
            out.append(atom(x if x[0].isalpha() else "x" + x))
        elif x is None:
            out.append(-1)
        else:
            out.append(x)
    return out


def _w_func(f):
    if f[0] == "awaitable":
        return [atom("awaitable"), f[1], atom(bool(f[2]))]
    return [atom(f[0])] + f[1:]


def _plain(v):
    if isinstance(v, Atom):
        return {"T": True, "F": False}.get(str(v), str(v))
    if isinstance(v, list):
        return [_plain(x) for x in v]
    return v


def model_requests(case, impl):
    if "harness_exc" in impl:
        return []
    if case["kind"] == "prog":
        pref = [e[1] for e in impl["events"] if e[0] == "ranT"]
        return [line(ID, "run", _w_tbl(case["tbl"]), pref, [_w_act(a) for a in case["main"]], 3000)]
    if case["kind"] == "runsync":
        return [line(ID, "runsync", _w_func(case["func"]), case["timeout"])]
    return []


def model_result(case, replies):
    if case["kind"] == "prog":
        st, vals = parse_reply(replies[0])
        if st != "ok":
            return {"err": vals}
        return {"events": _plain(vals[0]), "idle": _plain(vals[1])}
    if case["kind"] == "runsync":
        st, vals = parse_reply(replies[0])
        return {"outcome": _plain(vals[0]) if st == "ok" else vals}
    return "n/a"


def impl_view(case, impl):
    if case["kind"] == "prog":
        return {"events": _plain([_w_ev(e) for e in impl["events"]]), "idle": impl["idle"]}
    if case["kind"] == "runsync":
        return impl
    return "n/a"


def spec_requests(case, impl):
    if "harness_exc" in impl:
        return []
    if case["kind"] == "prog":
        return [line(ID, "spec", [_w_ev(e) for e in impl["events"]], atom(bool(impl["idle"])))]
    if case["kind"] == "runsync":
        return [line(ID, "runsyncspec", _w_func(case["func"]), case["timeout"])]
    return []


def spec_violation(case, impl, replies):
    if case["kind"] == "prog":
        if not impl["idle"]:
            return "loop did not become idle within 400 iterations"
        st, vals = parse_reply(replies[0])
        if st != "ok":
            return "observed trace is not expressible in the event vocabulary (%s): %r" % (vals, [e for e in impl["events"] if e[0] == "logged"][:3])
        if vals[0]:
            return "clause %s violated by the observed trace" % "+".join(map(str, vals[0]))
        return None
    if case["kind"] == "runsync":
        st, vals = parse_reply(replies[0])
        want = str(vals[0]) if st == "ok" else "?"
        if impl["outcome"] != want:
            return "run_sync clause violated: func=%r timeout=%r (%s): expected %s, got %s" % (
                case["func"], case["timeout"], case["variant"], want, impl["outcome"])
        return None
    if impl["timeout"] or impl["count"] != impl["expected"] or impl["distinct"] != impl["expected"]:
        return "threads clause exactly_once violated: %r" % (impl,)
    if not impl["per_thread_in_order"]:
        return "threads clause per_thread_order violated"
    return None


def nontrivial(case, impl):
    if case["kind"] == "prog":
        evs = impl["events"]
        nt = sum(1 for e in evs if e[0] == "schedT")
        late = any(e[0] == "ranT" and e[6] > e[4] for e in evs)
        return nt >= 2 and (any(e[0] == "removed" for e in evs) or any(e[0] == "logged" for e in evs) or late)
    if case["kind"] == "runsync":
        return case["timeout"] is not None and case["func"][0] in ("awaitable", "stopsLoop")
    return True


def stats(case, impl):
    out = ["kind:" + case["kind"]]
    if case["kind"] == "prog":
        evs = impl["events"]
        for e in evs:
            out.append("ev:" + e[0])
            if e[0] == "ranT":
                out.append("timer:late" if e[6] > e[4] else "timer:on-time")
                if e[3] < e[4]:
                    out.append("timer:deadline-in-past")
            if e[0] == "fin" and e[1] != "main":
                out.append("end:" + e[2])
        whens = [e[4] for e in evs if e[0] == "schedT"]
        if len(whens) != len(set(whens)):
            out.append("prog:equal-deadlines")
        out.append("calls:%d" % min(15, sum(1 for e in evs if e[0] in ("schedCb", "schedT", "removed", "ranF"))))
        for acts, _ in case["tbl"] + [[case["main"], "ok"]]:
            for a in acts:
                out.append("act:" + a[0] + (":" + a[1] if a[0] == "addTmo" else ""))
    elif case["kind"] == "runsync":
        out.append("runsync:%s:%s" % (case["func"][0], impl["outcome"]))
        out.append("variant:" + case["variant"])
    return out


def signature(case, impl, why):
    import re
    m = re.search(r"clause ([A-Za-z_+]+)", why)
    if case["kind"] == "runsync":
        return "runsync/%s/%s" % (case["func"][0], impl.get("outcome", "?"))
    return "%s/%s" % (case["kind"], m.group(1) if m else re.sub(r"[^A-Za-z]+", "-", why)[:40])


def shrink(case):
    if case["kind"] != "prog":
        return
    main = case["main"]
    for i in range(len(main)):
        yield {**case, "main": main[:i] + main[i + 1:]}
    for k, (acts, fin) in enumerate(case["tbl"]):
        for i in range(len(acts)):
            t = [list(b) for b in case["tbl"]]
            t[k] = [acts[:i] + acts[i + 1:], fin]
            yield {**case, "tbl": t}
        if fin != "ok":
            t = [list(b) for b in case["tbl"]]
            t[k] = [acts, "ok"]
            yield {**case, "tbl": t}


def describe(case):
    return case
