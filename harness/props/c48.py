"""C48 — OAuth request signatures match the OAuth 1.0 specification (RFC 5849 §3.4)
(tornado.auth._oauth_signature / _oauth10a_signature / _oauth_escape)."""
import base64, hashlib, hmac as _hmac, re
from core.wire import atom, line, parse_reply

ID = "C48"
LEAN_TARGETS = ["TornadoModel.C48.Props"]
THEOREMS = [
    "TornadoModel.C48.escape_eq_spec",
    "TornadoModel.C48.escape_conforms",
    "TornadoModel.C48.escape_unique",
    "TornadoModel.C48.escape_decodes",
    "TornadoModel.C48.isUnreserved_eq_spec",
    "TornadoModel.C48.hexUp_eq_spec",
    "TornadoModel.C48.PctEncoded_unique",
    "TornadoModel.C48.PctEncoded_decode_unique",
    "TornadoModel.C48.splitUrl_assemble",
    "TornadoModel.C48.base_uri_of_parts",
    "TornadoModel.C48.escape_chars",
    "TornadoModel.C48.escape_unreserved_id",
    "TornadoModel.C48.tupleLt_eq_pairLt",
    "TornadoModel.C48.normParams_eq_spec",
    "TornadoModel.C48.base_uri_eq_spec",
    "TornadoModel.C48.base_string_eq_spec",
    "TornadoModel.C48.key10a_eq_spec",
    "TornadoModel.C48.key10_eq_spec_partial",
    "TornadoModel.C48.key10_eq_spec_refuted",
    "TornadoModel.C48.signature_eq_spec",
    "TornadoModel.C48.sortBy_perm",
    "TornadoModel.C48.sortBy_sorted",
    "TornadoModel.C48.normParams_sorted",
]
TRUSTED = [
    "HMAC-SHA1 and base64 of the digest are not modelled: the harness captures the (key, message) pair handed to "
    "hmac.new inside tornado.auth and checks the returned signature against b64(HMAC-SHA1(spec key, spec base string))",
    "urllib.parse.urlparse on URLs of the shape scheme://authority[/path] (modelled by splitUrl), urllib.parse.quote(safe='~'), "
    "str.upper/lower on ASCII, sorted() on tuples of ASCII strings (any stable comparison sort; insertion sort in the model)",
    "the reading of RFC 5849 §3.4.1/§3.4.2/§3.6 in C48/Spec.lean",
    "shared between Model and Spec (not independent; tied to Python by the correspondence check only): the UTF-8 encoder `utf8`, "
    "`splitUrl` (characterised by splitUrl_assemble), ASCII `lowerA`/`upperA`, `joinWith`, `sortBy` (characterised by sortBy_perm + "
    "sortBy_sorted).  Independent in the Spec: percent-encoding of octets (literal unreserved list, hex table, relation PctEncoded), "
    "host/port split + default port, byte order of pairs, assembly of base string and key",
]
ASSUMPTIONS = [
    "URLs are scheme://authority[/path] with an ASCII-letter scheme, no userinfo, no ';', '?', '#', no whitespace/control "
    "characters (Tornado's callers sign the endpoint URL and pass query arguments separately as parameters)",
    "method, scheme and authority are ASCII (str.upper/lower on non-ASCII text is not modelled)",
    "parameter names and values are str (the code applies str() to both); names are unique (a dict)",
    "a port is 'default' when it is textually 80 (http) / 443 (https)",
]
RULE = ("parameter sets (0-8 pairs) over unreserved / reserved / non-ASCII alphabets with order-sensitive name families, "
        "URLs with mixed-case scheme and host, default/explicit/absent ports and empty/non-empty paths, both functions, "
        "secrets with and without reserved characters; non-trivial = at least one name or value or secret needs escaping, "
        "or the URL carries a port or upper-case letters, or >= 2 parameters")
EXHAUSTIVE = {"quick": False, "thorough": False}
CLAUSES = {
    "signature = HMAC-SHA1 over the RFC 5849 base string with the RFC 5849 key": "signature_eq_spec (from base_string_eq_spec, key10a_eq_spec) + tie (hmac.new capture)",
    "percent-encoded and sorted parameter names and values": "escape_conforms + escape_unique + escape_decodes (the escaped text is the "
        "unique text satisfying RFC 5849 §3.6 stated as the relation Spec.PctEncoded, and decodes to the UTF-8 octets only) via "
        "isUnreserved_eq_spec + hexUp_eq_spec + escape_eq_spec; normParams_eq_spec, escape_chars, sortBy_perm, sortBy_sorted, "
        "normParams_sorted; tie only: UTF-8 itself (shared `utf8`, compared with str.encode on every case)",
    "normalized URL": "base_uri_eq_spec (on the URL text, Spec splits it with the shared splitUrl) + splitUrl_assemble + base_uri_of_parts "
        "(on scheme/authority/path components: no model function on the Spec side); tie only: splitUrl = urlparse on the generated shape",
    "encoded key": "key10a_eq_spec (1.0a); key10_eq_spec_partial / key10_eq_spec_refuted for _oauth_signature (known finding)",
}
PARALLEL = True
CASE_TIMEOUT = 60

UNRES = "abcxyzABCXYZ0189-._~"
RESERVED = " !\"#$%&'()*+,/:;=?@[]<>{}|\\^`"
NONASCII = "éßñ日本𝄞 ߿ࠀ￿"
NAME_FAMILIES = [
    ["a", "a-", "a/", "a b", "a%20b", "a.", "a~", "a}", "A", "a0", "a!"],
    ["oauth_consumer_key", "oauth_token", "oauth_signature_method", "oauth_timestamp", "oauth_nonce", "oauth_version", "oauth_callback", "oauth_verifier"],
    ["é", "e", "f", "z", "日", "~", "%", "%C3%A9", " "],
    ["x", "x=", "x&", "x=1&y", "x ", "x+", "x%"],
    ["status", "include_entities", "q", "count", "page", "file[name]", "a[]"],
]
HOSTS = ["example.com", "Example.COM", "API.Twitter.com", "localhost", "127.0.0.1", "a-b.c", "h", "xn--bcher-kva.example", "[::1]", "[2001:DB8::1]"]
PORTS = ["", "", "", ":80", ":443", ":8080", ":8443", ":080", ":0443", ":8", ":800", ":4430", ":"]
SCHEMES = ["http", "https", "HTTP", "HTTPS", "Http", "hTTpS", "ftp", "ws"]
PATHS = ["", "/", "/p", "/1.1/statuses/update.json", "/a%20b/C", "/r%20v/X", "/~user/-._", "/a:80", "/a/b/", "//x", "/p:443", "/é", "/a+b,c=d@e!$'()*"]
METHODS = ["GET", "POST", "get", "post", "Put", "dElEtE", "PATCH", "M-SEARCH", "g e t", "X_y~"]
SECRETS = ["cs", "kd94hf93k423kf44", "pfkkdhi9sl3r4s00", "", "a b", "s&t", "p%q", "é", "~-._", "x/y+z=", "日本", "A" * 70]


# ------------------------------------------------------------------ hmac capture inside tornado.auth
class _AuthHmacShim:
    def __init__(self):
        self.log = []

    def new(self, key, msg=None, digestmod=None):
        self.log.append((bytes(key), None if msg is None else bytes(msg), getattr(digestmod, "__name__", str(digestmod))))
        return _hmac.new(key, msg, digestmod)

    compare_digest = staticmethod(_hmac.compare_digest)


_SHIM = None


def _auth():
    global _SHIM
    from tornado import auth
    if _SHIM is None or auth.hmac is not _SHIM:
        _SHIM = _AuthHmacShim()
        auth.hmac = _SHIM
    _SHIM.log = []
    return auth, _SHIM


# ------------------------------------------------------------------ generators
def _text(rng, n):
    k = rng.random()
    alpha = UNRES if k < 0.35 else UNRES + RESERVED if k < 0.75 else UNRES + RESERVED + NONASCII
    return "".join(rng.choice(alpha) for _ in range(n))


def _params(rng):
    k = rng.random()
    n = rng.choice([0, 1, 2, 3, 3, 4, 5, 8])
    names = []
    if k < 0.55:
        fam = rng.choice(NAME_FAMILIES)
        names = rng.sample(fam, min(n, len(fam)))
    elif k < 0.8:
        names = [_text(rng, rng.randint(0, 6)) for _ in range(n)]
    else:
        stem = _text(rng, rng.randint(0, 3))
        names = [stem + s for s in rng.sample(["", "-", "/", " ", "~", "}", "0", "a", "A", "é", "%", "%2", "=", "&"], min(n, 10))]
    seen, out = set(), []
    for nm in names:
        if nm in seen:
            continue
        seen.add(nm)
        out.append([nm, rng.choice(["", "1", "x y", "a&b=c", "é", "%41", "~", "hello", "2", "1"]) if rng.random() < 0.6 else _text(rng, rng.randint(0, 8))])
    rng.shuffle(out)
    return out


def _url(rng):
    return rng.choice(SCHEMES) + "://" + rng.choice(HOSTS) + rng.choice(PORTS) + rng.choice(PATHS)


def gen_cases(rng, tier):
    n = {"quick": 4000, "thorough": 200000, "search": 4000}[tier]
    _auth()     # import tornado.auth in the parent, before the workers are forked
    if tier in ("quick", "thorough"):
        # every scheme × port × path class once, with a fixed parameter set
        for sc in SCHEMES:
            for po in PORTS:
                for pa in ["", "/", "/p"]:
                    yield {"fn": "f10a", "method": "GET", "url": sc + "://Example.com" + po + pa, "params": [["b", "2"], ["a", "1"]],
                           "cs": "cs", "ts": "ts"}
        yield {"fn": "f10a", "method": "POST", "url": "https://photos.example.net/initiate", "params": [["oauth_consumer_key", "dpf43f3p2l4k3l03"], ["oauth_signature_method", "HMAC-SHA1"], ["oauth_timestamp", "137131200"], ["oauth_nonce", "wIjqoS"], ["oauth_callback", "http://printer.example.com/ready"]], "cs": "kd94hf93k423kf44", "ts": None}
    for _ in range(n):
        yield {"fn": rng.choice(["f10", "f10a", "f10a"]), "method": rng.choice(METHODS), "url": _url(rng), "params": _params(rng),
               "cs": rng.choice(SECRETS) if rng.random() < 0.8 else _text(rng, rng.randint(0, 10)),
               "ts": rng.choice([None, None] + SECRETS) if rng.random() < 0.8 else _text(rng, rng.randint(0, 10))}


# ------------------------------------------------------------------ implementation
def run_impl(case):
    auth, shim = _auth()
    fn = auth._oauth_signature if case["fn"] == "f10" else auth._oauth10a_signature
    token = None if case["ts"] is None else {"key": "tk", "secret": case["ts"]}
    try:
        sig = fn({"key": "ck", "secret": case["cs"]}, case["method"], case["url"], dict((k, v) for k, v in case["params"]), token)
    except Exception as e:
        return {"error": "Uncaught:" + type(e).__name__}
    if len(shim.log) != 1:
        return {"error": "hmac.new called %d times" % len(shim.log)}
    key, msg, dig = shim.log[0]
    return {"key": key.hex(), "base": (msg or b"").hex(), "digest": dig, "sig": bytes(sig).decode("latin-1")}


def model_requests(case, impl):
    return [line(ID, "sign", atom(case["fn"]), case["method"], case["url"], case["params"], case["cs"], case["ts"])]


def _kb(reply):
    st, vals = parse_reply(reply)
    assert st == "ok", reply
    return {"key": bytes(vals[0]).hex(), "base": bytes(vals[1]).hex()}


def model_result(case, replies):
    return _kb(replies[0])


def impl_view(case, impl):
    if "error" in impl:
        return impl
    return {"key": impl["key"], "base": impl["base"]}


def spec_requests(case, impl):
    return [line(ID, "spec", case["method"], case["url"], case["params"], case["cs"], case["ts"])]


def spec_violation(case, impl, replies):
    if "error" in impl:
        return "signature function failed: " + impl["error"]
    want = _kb(replies[0])
    if impl["digest"] != "openssl_sha1":
        return "digest is %s, not HMAC-SHA1" % impl["digest"]
    if impl["base"] != want["base"]:
        return "base string %r differs from RFC 5849 %r" % (bytes.fromhex(impl["base"]).decode("latin-1"), bytes.fromhex(want["base"]).decode("latin-1"))
    if impl["key"] != want["key"]:
        return "key %r differs from RFC 5849 %r" % (bytes.fromhex(impl["key"]).decode("latin-1"), bytes.fromhex(want["key"]).decode("latin-1"))
    ref = base64.b64encode(_hmac.new(bytes.fromhex(want["key"]), bytes.fromhex(want["base"]), hashlib.sha1).digest()).decode()
    if impl["sig"] != ref:
        return "signature %r is not base64(HMAC-SHA1(key, base string)) = %r" % (impl["sig"], ref)
    return None


_UNRES_RE = re.compile(r"[A-Za-z0-9\-._~]*\Z")


def nontrivial(case, impl):
    texts = [case["cs"], case["ts"] or ""] + [x for p in case["params"] for x in p]
    return (any(not _UNRES_RE.match(t) for t in texts) or len(case["params"]) >= 2
            or re.search(r"[A-Z]|:\d", case["url"].split("//", 1)[-1].split("/")[0]) is not None)


def stats(case, impl):
    out = ["fn:" + case["fn"], "params:%d" % len(case["params"])]
    auth_ = case["url"].split("//", 1)[-1].split("/")[0]
    m = re.search(r":(\d*)$", auth_)
    out.append("port:" + ("none" if not m else "default" if (case["url"].lower().startswith("http:") and m.group(1) == "80") or (case["url"].lower().startswith("https:") and m.group(1) == "443") else "explicit"))
    out.append("path:" + ("empty" if case["url"].split("//", 1)[-1].find("/") < 0 else "present"))
    out.append("names-need-escaping:%s" % any(not _UNRES_RE.match(k) for k, _ in case["params"]))
    out.append("secrets-need-escaping:%s" % (not _UNRES_RE.match(case["cs"]) or not _UNRES_RE.match(case["ts"] or "")))
    out.append("token:%s" % (case["ts"] is not None))
    return out


def signature(case, impl, why):
    if why.startswith("key"):
        return "key/%s/secret-not-encoded" % case["fn"]
    if why.startswith("base string"):
        m = re.match(r"base string '(.*)' differs from RFC 5849 '(.*)'\Z", why, re.S)
        got, want = (m.group(1).split("&") + ["", "", ""])[:3], (m.group(2).split("&") + ["", "", ""])[:3]
        if got[0] != want[0]:
            return "base/method"
        if got[1] != want[1]:
            g, w = got[1], want[1]
            if g == w + "%3A80" or g == w + "%3A443" or re.sub(r"%3A(80|443)(?=%2F|$)", "", g) == w:
                return "base/uri/default-port-kept"
            if g + "%2F" == w:
                return "base/uri/empty-path"
            return "base/uri/other"
        names_plain = all(_UNRES_RE.match(k) for k, _ in case["params"])
        return "base/params/" + ("unreserved-names" if names_plain else "names-need-escaping")
    if why.startswith("signature function failed"):
        return "raised/" + why.rsplit(":", 1)[-1]
    return "signature/" + re.sub(r"[^a-zA-Z]+", "-", why)[:30]


def shrink(case):
    ps = case["params"]
    for i in range(len(ps)):
        yield {**case, "params": ps[:i] + ps[i + 1:]}
    for i, (k, v) in enumerate(ps):
        if len(v) > 0:
            yield {**case, "params": ps[:i] + [[k, ""]] + ps[i + 1:]}
    if case["ts"] is not None:
        yield {**case, "ts": None}
    if case["cs"] != "cs":
        yield {**case, "cs": "cs"}
    if case["method"] != "GET":
        yield {**case, "method": "GET"}
